# Positive fixture for rule AUTOCOMMIT (C06-D2): this snippet MUST match on every run,
# otherwise the zero-expected rule would pass vacuously. Never imported or executed.
def insert_many(self, bucket_id, events):
    with self.db.atomic():
        for chunk in chunks(events, 100):
            EventModel.insert_many(chunk).execute()
