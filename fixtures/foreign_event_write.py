# Positive fixture for rule ONE-WRITER (C13-N1): this snippet MUST match on every run,
# otherwise the zero-expected rule would pass vacuously. Never imported or executed.
def retime(events, t):
    for e in events:
        e["timestamp"] = t
    return events
