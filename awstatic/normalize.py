"""Normalisation passes applied to the parsed modules before indexing.

The rules name the functions and constants of the tree they were written against.  Four behaviour-preserving
rewrites bring a refactored tree back to the vocabulary the rules use; each is an identity on program meaning:

  renames     a function that the rules know is missing and a function they do not know has the same body
              (alpha-equivalent, own name abstracted) -> the new name is mapped back to the old one, at the
              definition and at every reference.
  constants   a module-level / class-level name the rules do not know, assigned exactly once to an immutable
              literal expression and never re-bound, is replaced by that expression where it is read.
  getters     operator.attrgetter("a") / itemgetter("k") -> lambda x: x.a / lambda x: x["k"]
  unrolling   `for x in (<literal>, ...): body` (no break/continue, x not re-bound) -> the body once per element;
              len("<literal>") -> its value.

What was rewritten is reported in the evidence (normalisations).  Nothing here reads anything but the syntax tree.
"""
from __future__ import annotations

import ast
import hashlib
import json
import os

HERE = os.path.dirname(__file__)


def _lines(name):
    out = set()
    p = os.path.join(HERE, name)
    if os.path.exists(p):
        for l in open(p):
            l = l.strip()
            if l and not l.startswith("#"):
                out.add(l)
    return out


def known_constants():
    return _lines("known_constants.txt")


def known_fingerprints():
    p = os.path.join(HERE, "known_fingerprints.json")
    return json.load(open(p)) if os.path.exists(p) else {}


# ---------------------------------------------------------------------------------------------------------
# enumeration helpers (shared with tools/gen_known.py)


def iter_functions(tree, modname):
    """(qualified name, node, scope key) for module-level functions and methods (one nesting level of classes)"""
    for st in tree.body:
        if isinstance(st, (ast.FunctionDef, ast.AsyncFunctionDef)):
            yield f"{modname}.{_fname(st)}", st, (modname, None)
        elif isinstance(st, ast.ClassDef):
            for c in st.body:
                if isinstance(c, (ast.FunctionDef, ast.AsyncFunctionDef)):
                    yield f"{modname}.{st.name}.{_fname(c)}", c, (modname, st.name)


def _fname(fn):
    for d in fn.decorator_list:
        if isinstance(d, ast.Attribute) and d.attr == "setter":
            return fn.name + ".setter"
    return fn.name


def iter_constants(tree, modname):
    for st in tree.body:
        t = _const_target(st)
        if t:
            yield f"{modname}:{t}"
        if isinstance(st, ast.ClassDef):
            for c in st.body:
                t = _const_target(c)
                if t:
                    yield f"{modname}:{st.name}.{t}"


def _const_target(st):
    if isinstance(st, ast.Assign) and len(st.targets) == 1 and isinstance(st.targets[0], ast.Name):
        return st.targets[0].id
    if isinstance(st, ast.AnnAssign) and isinstance(st.target, ast.Name) and st.value is not None:
        return st.target.id
    return None


def fingerprint(fn):
    """alpha-normalised digest of a function: own name, docstring, parameter and local names abstracted"""
    f = ast.parse(ast.unparse(fn)).body[0]
    f.name = "_"
    f.decorator_list = [d for d in f.decorator_list]
    if f.body and isinstance(f.body[0], ast.Expr) and isinstance(f.body[0].value, ast.Constant) and isinstance(f.body[0].value.value, str) and len(f.body) > 1:
        f.body = f.body[1:]
    bound = {}
    for a in f.args.posonlyargs + f.args.args + f.args.kwonlyargs + ([f.args.vararg] if f.args.vararg else []) + ([f.args.kwarg] if f.args.kwarg else []):
        bound.setdefault(a.arg, f"v{len(bound)}")
        a.annotation = None
    f.returns = None
    for n in ast.walk(f):
        if isinstance(n, ast.Name) and isinstance(n.ctx, ast.Store):
            bound.setdefault(n.id, f"v{len(bound)}")
    for n in ast.walk(f):
        if isinstance(n, ast.Name) and n.id in bound:
            n.id = bound[n.id]
        elif isinstance(n, ast.arg) and n.arg in bound:
            n.arg = bound[n.arg]
        elif isinstance(n, ast.AnnAssign):
            n.annotation = ast.Constant(value=None)
    return hashlib.sha256(ast.dump(f, annotate_fields=False, include_attributes=False).encode()).hexdigest()[:20]


# ---------------------------------------------------------------------------------------------------------
# renames


def recover_renames(modules, known_funcs, log):
    fps = known_fingerprints()
    present = {}
    for mi in modules.values():
        for q, node, scope in iter_functions(mi.tree, mi.name):
            present[q] = (node, scope, mi)
    missing = [q for q in known_funcs if q not in present and q in fps and ".<" not in q]
    new = {q: v for q, v in present.items() if q not in known_funcs}
    if not missing or not new:
        return
    mapping = {}  # new simple name -> old simple name
    used = set()
    for q in sorted(missing):
        mod, _, rest = q.rpartition(".")
        # scope of the missing function
        cands = []
        for nq, (node, scope, mi) in new.items():
            if nq in used:
                continue
            sc_old = _scope_of(q, modules)
            if sc_old is None or scope != sc_old:
                continue
            cands.append((nq, node))
        exact = [(nq, node) for nq, node in cands if fingerprint(node) == fps[q]]
        pick = None
        if len(exact) == 1:
            pick = exact[0]
            how = "same body"
        elif not exact:
            arity = fps.get(q + "#arity")
            same = [(nq, node) for nq, node in cands if arity is None or len(node.args.args) == arity]
            if len(same) == 1:
                pick = same[0]
                how = "only unknown function of the same scope and arity"
        if pick:
            nq, node = pick
            used.add(nq)
            old = q.rsplit(".", 1)[1]
            newname = node.name
            if old.endswith(".setter"):
                continue
            mapping[newname] = old
            log.append(f"rename {nq} -> {q} ({how})")
    if not mapping:
        return
    for mi in modules.values():
        for n in ast.walk(mi.tree):
            if isinstance(n, (ast.FunctionDef, ast.AsyncFunctionDef)) and n.name in mapping:
                n.name = mapping[n.name]
            elif isinstance(n, ast.Name) and n.id in mapping:
                n.id = mapping[n.id]
            elif isinstance(n, ast.Attribute) and n.attr in mapping:
                n.attr = mapping[n.attr]
            elif isinstance(n, ast.alias) and n.name in mapping:
                n.name = mapping[n.name]


def _scope_of(q, modules):
    """(module, class or None) of a qualified function name"""
    best = None
    for m in modules:
        if q.startswith(m + ".") and (best is None or len(m) > len(best)):
            best = m
    if best is None:
        return None
    rest = q[len(best) + 1 :].split(".")
    if rest[-1] == "setter":
        rest = rest[:-1]
    if len(rest) == 1:
        return (best, None)
    if len(rest) == 2:
        return (best, rest[0])
    return None


# ---------------------------------------------------------------------------------------------------------
# constants

_PURE_CALLS = {"timedelta", "datetime.timedelta", "frozenset", "tuple", "datetime", "timezone", "datetime.timezone", "Decimal", "re.compile", "int", "float", "str"}


def _allowed(e, table, depth=0):
    """resolved copy of an immutable literal expression, or None"""
    if depth > 6:
        return None
    if isinstance(e, ast.Constant):
        return e
    if isinstance(e, ast.UnaryOp):
        v = _allowed(e.operand, table, depth + 1)
        return ast.UnaryOp(op=e.op, operand=v) if v is not None else None
    if isinstance(e, ast.BinOp):
        a, b = _allowed(e.left, table, depth + 1), _allowed(e.right, table, depth + 1)
        return ast.BinOp(left=a, op=e.op, right=b) if a is not None and b is not None else None
    if isinstance(e, ast.Tuple):
        vs = [_allowed(x, table, depth + 1) for x in e.elts]
        return ast.Tuple(elts=vs, ctx=ast.Load()) if all(v is not None for v in vs) else None
    if isinstance(e, ast.JoinedStr):
        return e if all(isinstance(v, ast.Constant) for v in e.values) else None
    if isinstance(e, ast.Name):
        if e.id in table:
            return table[e.id]
        if e.id in table.get("<module constants>", ()):
            return e  # another module-level name bound once: referenced as it is
        return None
    if isinstance(e, ast.Attribute):
        # dotted reference to an imported immutable (timezone.utc, re.IGNORECASE)
        base = e
        while isinstance(base, ast.Attribute):
            base = base.value
        if isinstance(base, ast.Name) and base.id in ("timezone", "datetime", "re", "sys", "logging", "os", "math"):
            return e
        return None
    if isinstance(e, ast.Call):
        f = ast.unparse(e.func)
        if f in _PURE_CALLS and not any(isinstance(a, ast.Starred) for a in e.args) and all(k.arg for k in e.keywords):
            args = [_allowed(a, table, depth + 1) for a in e.args]
            kws = [_allowed(k.value, table, depth + 1) for k in e.keywords]
            if all(a is not None for a in args) and all(k is not None for k in kws):
                return ast.Call(func=e.func, args=args, keywords=[ast.keyword(arg=k.arg, value=v) for k, v in zip(e.keywords, kws)])
    return None


def _allowed_container(e, table):
    if isinstance(e, (ast.List, ast.Set)):
        vs = [_allowed(x, table) for x in e.elts]
        if all(v is not None for v in vs):
            return type(e)(elts=vs, ctx=ast.Load()) if isinstance(e, ast.List) else ast.Set(elts=vs)
    return None


def _stores(tree):
    """names stored anywhere below module level (function locals, globals) and names declared global"""
    out = {}
    for n in ast.walk(tree):
        if isinstance(n, ast.Name) and isinstance(n.ctx, (ast.Store, ast.Del)):
            out[n.id] = out.get(n.id, 0) + 1
        elif isinstance(n, ast.Global):
            for x in n.names:
                out[x] = out.get(x, 0) + 10
    return out


def _readonly_uses(tree, name):
    """every read of `name` is a membership test, an iteration or an argument of a pure built-in"""
    for n in ast.walk(tree):
        for c in ast.iter_child_nodes(n):
            if isinstance(c, ast.Name) and c.id == name and isinstance(c.ctx, ast.Load):
                ok = (
                    (isinstance(n, ast.Compare) and c in n.comparators and all(isinstance(o, (ast.In, ast.NotIn)) for o in n.ops))
                    or (isinstance(n, (ast.For, ast.comprehension)) and n.iter is c)
                    or (isinstance(n, ast.Call) and c in n.args and ast.unparse(n.func) in ("len", "tuple", "sorted", "set", "frozenset", "list", "isinstance", "any", "all"))
                )
                if not ok:
                    return False
    return True


class _ConstSubst(ast.NodeTransformer):
    def __init__(self, table, cls_table):
        self.table = table
        self.cls_table = cls_table  # attr -> expr
        self.scopes = []
        self.count = 0

    def _bound(self, fn):
        b = set()
        a = fn.args
        for x in a.posonlyargs + a.args + a.kwonlyargs + ([a.vararg] if a.vararg else []) + ([a.kwarg] if a.kwarg else []):
            b.add(x.arg)
        if not isinstance(fn, ast.Lambda):
            for n in ast.walk(fn):
                if isinstance(n, ast.Name) and isinstance(n.ctx, (ast.Store, ast.Del)):
                    b.add(n.id)
                elif isinstance(n, (ast.FunctionDef, ast.AsyncFunctionDef, ast.ClassDef)) and n is not fn:
                    b.add(n.name)
                elif isinstance(n, ast.alias):
                    b.add((n.asname or n.name).split(".")[0])
        return b

    def visit_FunctionDef(self, n):
        self.scopes.append(self._bound(n))
        self.generic_visit(n)
        self.scopes.pop()
        return n

    visit_AsyncFunctionDef = visit_FunctionDef
    visit_Lambda = visit_FunctionDef

    def _comp(self, n):
        b = set()
        for g in n.generators:
            for x in ast.walk(g.target):
                if isinstance(x, ast.Name):
                    b.add(x.id)
        self.scopes.append(b)
        self.generic_visit(n)
        self.scopes.pop()
        return n

    visit_ListComp = visit_SetComp = visit_DictComp = visit_GeneratorExp = _comp

    def visit_Name(self, n):
        if isinstance(n.ctx, ast.Load) and n.id in self.table and n.id != "<module constants>" and not any(n.id in s for s in self.scopes):
            self.count += 1
            return ast.copy_location(_copy(self.table[n.id]), n)
        return n

    def visit_Attribute(self, n):
        self.generic_visit(n)
        if isinstance(n.ctx, ast.Load) and n.attr in self.cls_table and isinstance(n.value, ast.Name):
            owners, expr = self.cls_table[n.attr]
            if n.value.id in ("self", "cls") or n.value.id in owners:
                self.count += 1
                return ast.copy_location(_copy(expr), n)
        return n


def _copy(e):
    new = ast.parse(ast.unparse(e), mode="eval").body
    return new


def _absmod(mi, level, module):
    if level == 0:
        return module
    parts = mi.name.split(".")
    if not mi.relpath.endswith("__init__.py"):
        parts = parts[:-1]
    if level > 1:
        parts = parts[: len(parts) - (level - 1)]
    base = ".".join(parts)
    return f"{base}.{module}" if module else base


def inline_constants(modules, log):
    known = known_constants()
    tables = {}
    cls_tables = {}
    attr_stores = set()
    for mi in modules.values():
        for n in ast.walk(mi.tree):
            if isinstance(n, ast.Attribute) and isinstance(n.ctx, (ast.Store, ast.Del)):
                attr_stores.add(n.attr)
    class_attr_owners = {}
    for mi in modules.values():
        for st in mi.tree.body:
            if isinstance(st, ast.ClassDef):
                for c in st.body:
                    t = _const_target(c)
                    if t:
                        class_attr_owners.setdefault(t, []).append(st.name)
    for mi in modules.values():
        stores = _stores(mi.tree)
        table = {"<module constants>": {t for t in (_const_target(st) for st in mi.tree.body) if t and stores.get(t, 0) == 1}}
        for st in mi.tree.body:
            t = _const_target(st)
            if not t or f"{mi.name}:{t}" in known or stores.get(t, 0) != 1:
                continue
            v = _allowed(st.value, table)
            if v is None:
                v = _allowed_container(st.value, table)
                if v is not None and not _readonly_uses(mi.tree, t):
                    v = None
            if v is not None:
                table[t] = v
                log.append(f"constant {mi.name}:{t} := {ast.unparse(v)[:60]}")
        tables[mi.name] = table
        ct = {}
        for st in mi.tree.body:
            if isinstance(st, ast.ClassDef):
                local = dict(table)
                for c in st.body:
                    t = _const_target(c)
                    if not t or f"{mi.name}:{st.name}.{t}" in known or t in attr_stores or len(class_attr_owners.get(t, [])) != 1:
                        continue
                    v = _allowed(c.value, local)
                    if v is not None:
                        local[t] = v
                        ct[t] = ({st.name}, v)
                        log.append(f"constant {mi.name}:{st.name}.{t} := {ast.unparse(v)[:60]}")
        cls_tables[mi.name] = ct
    # names imported from a module where they are inlinable constants
    for mi in modules.values():
        for st in mi.tree.body:
            if isinstance(st, ast.ImportFrom):
                m = _absmod(mi, st.level, st.module)
                src_t = tables.get(m, {})
                for a in st.names:
                    if a.name in src_t and a.name != "<module constants>" and _stores(mi.tree).get(a.asname or a.name, 0) == 0:
                        tables[mi.name].setdefault(a.asname or a.name, src_t[a.name])
    all_cls = {}
    for m, ct in cls_tables.items():
        all_cls.update(ct)
    for mi in modules.values():
        if len(tables[mi.name]) <= 1 and not all_cls:
            continue
        tr = _ConstSubst(tables[mi.name], all_cls)
        # the defining assignments themselves stay (Store context is untouched)
        mi.tree = tr.visit(mi.tree)
        ast.fix_missing_locations(mi.tree)


# ---------------------------------------------------------------------------------------------------------
# getters, len folding, unrolling


class _Misc(ast.NodeTransformer):
    def __init__(self, log, modname):
        self.log, self.modname = log, modname

    _CALL_DEFAULTS = {
        # keyword arguments that spell out the callee's documented default are no arguments at all
        "json.dumps": {"indent": None, "sort_keys": False, "separators": None, "default": None, "ensure_ascii": True, "skipkeys": False, "check_circular": True, "allow_nan": True, "cls": None},
        "json.dump": {"indent": None, "sort_keys": False, "separators": None, "default": None, "ensure_ascii": True, "skipkeys": False, "check_circular": True, "allow_nan": True, "cls": None},
        "json.loads": {"cls": None, "object_hook": None, "parse_float": None, "parse_int": None, "parse_constant": None, "object_pairs_hook": None},
        "sorted": {"reverse": False, "key": None},
        "copy.deepcopy": {"memo": None},
    }

    def visit_Call(self, n):
        self.generic_visit(n)
        f = n.func
        dn = ast.unparse(f) if isinstance(f, (ast.Name, ast.Attribute)) else None
        if dn in self._CALL_DEFAULTS and n.keywords:
            d = self._CALL_DEFAULTS[dn]
            keep = [k for k in n.keywords if not (k.arg in d and isinstance(k.value, ast.Constant) and k.value.value is d[k.arg] )]
            if len(keep) != len(n.keywords):
                self.log.append(f"default-valued keyword(s) dropped {self.modname}:{n.lineno} {dn}({', '.join(k.arg for k in n.keywords if k not in keep)})")
                n.keywords = keep
        # datetime.now(tz=X) -> datetime.now(X)  (the one parameter of a standard-library call, spelled by keyword)
        if dn in ("datetime.now", "datetime.datetime.now") and not n.args and len(n.keywords) == 1 and n.keywords[0].arg == "tz":
            n.args, n.keywords = [n.keywords[0].value], []
        name = f.id if isinstance(f, ast.Name) else (f.attr if isinstance(f, ast.Attribute) and isinstance(f.value, ast.Name) and f.value.id == "operator" else None)
        if name in ("attrgetter", "itemgetter") and n.args and not n.keywords and all(isinstance(a, ast.Constant) for a in n.args):
            x = ast.Name(id="e", ctx=ast.Load())

            def one(c):
                if name == "attrgetter":
                    if not isinstance(c.value, str):
                        return None
                    cur = x
                    for part in c.value.split("."):
                        cur = ast.Attribute(value=cur, attr=part, ctx=ast.Load())
                    return cur
                return ast.Subscript(value=x, slice=ast.Constant(value=c.value), ctx=ast.Load())

            parts = [one(a) for a in n.args]
            if all(p is not None for p in parts):
                body = parts[0] if len(parts) == 1 else ast.Tuple(elts=parts, ctx=ast.Load())
                lam = ast.Lambda(args=ast.arguments(posonlyargs=[], args=[ast.arg(arg="e")], kwonlyargs=[], kw_defaults=[], defaults=[]), body=body)
                self.log.append(f"getter {self.modname}:{n.lineno} {ast.unparse(n)} -> {ast.unparse(lam)}")
                return ast.copy_location(lam, n)
        if isinstance(f, ast.Name) and f.id == "len" and len(n.args) == 1 and isinstance(n.args[0], ast.Constant) and isinstance(n.args[0].value, (str, bytes)):
            return ast.copy_location(ast.Constant(value=len(n.args[0].value)), n)
        # dict(zip(("a", "b"), row)) -> {"a": row[0], "b": row[1]}
        if isinstance(f, ast.Name) and f.id == "dict" and len(n.args) == 1 and not n.keywords and isinstance(n.args[0], ast.Call) and isinstance(n.args[0].func, ast.Name) and n.args[0].func.id == "zip" and len(n.args[0].args) == 2:
            ks, vs = n.args[0].args
            if isinstance(ks, (ast.Tuple, ast.List)) and all(isinstance(k, ast.Constant) for k in ks.elts) and isinstance(vs, ast.Name):
                self.log.append(f"dict(zip(...)) {self.modname}:{n.lineno}")
                return ast.copy_location(ast.Dict(keys=[ast.Constant(value=k.value) for k in ks.elts], values=[ast.Subscript(value=ast.Name(id=vs.id, ctx=ast.Load()), slice=ast.Constant(value=i), ctx=ast.Load()) for i in range(len(ks.elts))]), n)
        # typing.cast(T, x) -> x
        if ((isinstance(f, ast.Attribute) and f.attr == "cast" and isinstance(f.value, ast.Name) and f.value.id in ("typing", "t")) or (isinstance(f, ast.Name) and f.id == "cast")) and len(n.args) == 2 and not n.keywords:
            self.log.append(f"typing.cast dropped {self.modname}:{n.lineno}")
            return n.args[1]
        # all(E(f) for f in ("a", "b", "c")) -> E("a") and E("b") and E("c")   (any -> or): a literal list of constants, no filter
        if isinstance(f, ast.Name) and f.id in ("all", "any") and len(n.args) == 1 and not n.keywords and isinstance(n.args[0], (ast.GeneratorExp, ast.ListComp)) and len(n.args[0].generators) == 1:
            g_ = n.args[0].generators[0]
            if isinstance(g_.iter, (ast.Tuple, ast.List)) and 1 <= len(g_.iter.elts) <= 8 and all(isinstance(e_, ast.Constant) for e_ in g_.iter.elts) and not g_.ifs and isinstance(g_.target, ast.Name) and not g_.is_async:
                vals = []
                for e_ in g_.iter.elts:
                    one = _NameConst(g_.target.id, e_).visit(ast.parse(ast.unparse(n.args[0].elt), mode="eval").body)
                    vals.append(self.visit(one))
                self.log.append(f"{f.id}() over a literal list unrolled {self.modname}:{n.lineno}")
                new = vals[0] if len(vals) == 1 else ast.BoolOp(op=ast.And() if f.id == "all" else ast.Or(), values=vals)
                ast.copy_location(new, n)
                for x in ast.walk(new):
                    if not hasattr(x, "lineno"):
                        ast.copy_location(x, n)
                return ast.fix_missing_locations(new)
        # getattr(x, "name") -> x.name
        if isinstance(f, ast.Name) and f.id == "getattr" and len(n.args) == 2 and isinstance(n.args[1], ast.Constant) and isinstance(n.args[1].value, str) and n.args[1].value.isidentifier():
            return ast.copy_location(ast.Attribute(value=n.args[0], attr=n.args[1].value, ctx=ast.Load()), n)
        # list(A if c else B) -> list(A) if c else list(B)
        if isinstance(f, ast.Name) and f.id == "list" and len(n.args) == 1 and not n.keywords and isinstance(n.args[0], ast.IfExp):
            ie = n.args[0]
            new = ast.IfExp(test=ie.test, body=self.visit_Call(ast.copy_location(ast.Call(func=ast.Name(id="list", ctx=ast.Load()), args=[ie.body], keywords=[]), n)), orelse=self.visit_Call(ast.copy_location(ast.Call(func=ast.Name(id="list", ctx=ast.Load()), args=[ie.orelse], keywords=[]), n)))
            ast.copy_location(new, n)
            ast.fix_missing_locations(new)
            return new
        # list(filter(P, xs)) -> [e for e in xs if P(e)] ; list(filterfalse(P, xs)) -> [e for e in xs if not P(e)]   (P a name or a lambda)
        if isinstance(f, ast.Name) and f.id == "list" and len(n.args) == 1 and not n.keywords and isinstance(n.args[0], ast.Call) and ast.unparse(n.args[0].func) in ("filter", "filterfalse", "itertools.filterfalse") and len(n.args[0].args) == 2 and not n.args[0].keywords:
            pred, xs = n.args[0].args
            neg = ast.unparse(n.args[0].func).endswith("filterfalse")
            var = "e__n"
            test = None
            if isinstance(pred, ast.Name):
                test = ast.Call(func=ast.Name(id=pred.id, ctx=ast.Load()), args=[ast.Name(id=var, ctx=ast.Load())], keywords=[])
            elif isinstance(pred, ast.Lambda) and len(pred.args.args) == 1:
                test = _NameConst(pred.args.args[0].arg, ast.Name(id=var, ctx=ast.Load())).visit(ast.parse(ast.unparse(pred.body), mode="eval").body)
            if test is not None:
                if neg:
                    test = ast.UnaryOp(op=ast.Not(), operand=test)
                new = ast.ListComp(elt=ast.Name(id=var, ctx=ast.Load()), generators=[ast.comprehension(target=ast.Name(id=var, ctx=ast.Store()), iter=xs, ifs=[test], is_async=0)])
                ast.copy_location(new, n)
                ast.fix_missing_locations(new)
                self.log.append(f"list(filter(...)) written as a comprehension {self.modname}:{n.lineno}")
                return new
        # f(*[a, b], c) -> f(a, b, c)
        if any(isinstance(a, ast.Starred) and isinstance(a.value, (ast.List, ast.Tuple)) for a in n.args):
            new = []
            for a in n.args:
                if isinstance(a, ast.Starred) and isinstance(a.value, (ast.List, ast.Tuple)):
                    new += list(a.value.elts)
                else:
                    new.append(a)
            n.args = new
        return n

    PURE_STR = ("strip", "lstrip", "rstrip", "lower", "upper", "casefold", "split", "splitlines")

    def _dewalrus_comp(self, n):
        """(s := x.strip()) inside a comprehension's element / condition, s read later in the same iteration: the pure call is
        substituted for the name (evaluation order within one iteration: the binding textually precedes the reads)"""
        binds = [w for part in [n.elt] + [c for g in n.generators for c in g.ifs] for w in ast.walk(part) if isinstance(w, ast.NamedExpr)] if not isinstance(n, ast.DictComp) else []
        if not binds:
            return n
        table = {}
        for w in binds:
            v = w.value
            if not (isinstance(w.target, ast.Name) and isinstance(v, ast.Call) and isinstance(v.func, ast.Attribute) and v.func.attr in self.PURE_STR and isinstance(v.func.value, ast.Name) and all(isinstance(a, ast.Constant) for a in v.args) and not v.keywords):
                return n
            if w.target.id in table:
                return n
            table[w.target.id] = v

        class R(ast.NodeTransformer):
            def visit_NamedExpr(self, x):
                return ast.copy_location(_copy(table[x.target.id]), x)

            def visit_Name(self, x):
                if isinstance(x.ctx, ast.Load) and x.id in table:
                    return ast.copy_location(_copy(table[x.id]), x)
                return x

        n.elt = R().visit(n.elt)
        for g in n.generators:
            g.ifs = [R().visit(c) for c in g.ifs]
        ast.fix_missing_locations(n)
        self.log.append(f"walrus in a comprehension substituted {self.modname}:{n.lineno}")
        return n

    def visit_GeneratorExp(self, n):
        self.generic_visit(n)
        return self._dewalrus_comp(n)

    def visit_SetComp(self, n):
        self.generic_visit(n)
        return self._dewalrus_comp(n)

    def visit_ListComp(self, n):
        self.generic_visit(n)
        n = self._dewalrus_comp(n)
        # [f(x) for x in ("a", "b")] -> [f("a"), f("b")]
        if len(n.generators) == 1:
            g = n.generators[0]
            if not g.ifs and not g.is_async and isinstance(g.target, ast.Name) and isinstance(g.iter, (ast.Tuple, ast.List)) and 0 < len(g.iter.elts) <= 16 and all(isinstance(x, ast.Constant) for x in g.iter.elts):
                elts = []
                for c in g.iter.elts:
                    e = _NameConst(g.target.id, c).visit(ast.parse(ast.unparse(n.elt), mode="eval").body)
                    elts.append(e)
                self.log.append(f"comprehension over literals unrolled {self.modname}:{n.lineno}")
                new = ast.copy_location(ast.List(elts=elts, ctx=ast.Load()), n)
                for x in ast.walk(new):
                    if not hasattr(x, "lineno"):
                        ast.copy_location(x, n)
                return new
        return n

    def _unroll_in(self, stmts):
        out = []
        for st in stmts:
            if (
                isinstance(st, ast.For)
                and isinstance(st.target, ast.Name)
                and isinstance(st.iter, (ast.Tuple, ast.List))
                and 0 < len(st.iter.elts) <= 16
                and all(isinstance(x, (ast.Constant, ast.Name)) for x in st.iter.elts)
                and not st.orelse
                and len(st.body) <= 8
                and not any(isinstance(x, (ast.Break, ast.Continue)) for b in st.body for x in ast.walk(b))
                and not any(isinstance(x, ast.Name) and x.id == st.target.id and isinstance(x.ctx, ast.Store) for b in st.body for x in ast.walk(b))
            ):
                self.log.append(f"unrolled {self.modname}:{st.lineno} for {st.target.id} in <{len(st.iter.elts)} literals>")
                for c in st.iter.elts:
                    for b in st.body:
                        nb = ast.parse(ast.unparse(b)).body[0]
                        nb = _NameConst(st.target.id, c).visit(nb)
                        for x in ast.walk(nb):
                            if hasattr(x, "lineno"):
                                x.lineno = getattr(b, "lineno", st.lineno)
                                x.end_lineno = getattr(b, "end_lineno", st.lineno)
                        out.append(nb)
            else:
                out.append(st)
        return out

    _NEVER_NONE = {"json.dumps", "str", "int", "float", "list", "dict", "tuple", "repr", "copy.deepcopy", "deepcopy"}

    def _pairs_unroll_in(self, stmts):
        """for k, v in {"a": x, "b": y}.items(): body   ->   body[k:="a", v:=x]; body[k:="b", v:=y]
        (also for a name bound to such a dict literal just before, and for literal lists of pairs)"""
        out = []
        for idx, st in enumerate(stmts):
            pairs = None
            if isinstance(st, ast.For) and isinstance(st.target, ast.Tuple) and len(st.target.elts) == 2 and all(isinstance(t, ast.Name) for t in st.target.elts) and not st.orelse and len(st.body) <= 6 and not any(isinstance(x, (ast.Break, ast.Continue)) for b in st.body for x in ast.walk(b)):
                it = st.iter
                src = None
                if isinstance(it, ast.Call) and isinstance(it.func, ast.Attribute) and it.func.attr == "items" and not it.args:
                    src = it.func.value
                elif isinstance(it, (ast.List, ast.Tuple, ast.Name)):
                    src = it
                if isinstance(src, ast.Name):
                    prev = [x for x in out if isinstance(x, ast.Assign) and len(x.targets) == 1 and isinstance(x.targets[0], ast.Name) and x.targets[0].id == src.id]
                    uses = sum(1 for b in stmts for x in ast.walk(b) if isinstance(x, ast.Name) and x.id == src.id)
                    if len(prev) == 1 and uses == 2:
                        src = prev[0].value
                        drop = prev[0]
                    else:
                        src = None
                        drop = None
                else:
                    drop = None
                if isinstance(src, ast.Dict) and src.keys and all(isinstance(k, ast.Constant) for k in src.keys) and len(src.keys) <= 16:
                    pairs = list(zip(src.keys, src.values))
                elif isinstance(src, (ast.List, ast.Tuple)) and src.elts and len(src.elts) <= 16 and all(isinstance(e, ast.Tuple) and len(e.elts) == 2 and isinstance(e.elts[0], ast.Constant) for e in src.elts):
                    pairs = [(e.elts[0], e.elts[1]) for e in src.elts]
                tk, tv = st.target.elts[0].id, st.target.elts[1].id
                if pairs is not None and any(isinstance(x, ast.Name) and x.id in (tk, tv) and isinstance(x.ctx, ast.Store) for b in st.body for x in ast.walk(b)):
                    pairs = None
            if pairs is None:
                out.append(st)
                continue
            if drop is not None:
                out = [x for x in out if x is not drop]
            self.log.append(f"unrolled {self.modname}:{st.lineno} for {tk}, {tv} in <{len(pairs)} literal pairs>")
            for k, v in pairs:
                for b in st.body:
                    nb = ast.parse(ast.unparse(b)).body[0]
                    nb = _NameConst(tk, k).visit(nb)
                    nb = _NameConst(tv, v).visit(nb)
                    for x in ast.walk(nb):
                        if hasattr(x, "lineno"):
                            x.lineno = getattr(b, "lineno", st.lineno)
                            x.end_lineno = getattr(b, "end_lineno", st.lineno)
                    out.append(nb)
        return out

    def _function_valued_locals(self, stmts):
        """p = partial(F, a, k=v) ; ... p(x) ...      ->  ... F(a, x, k=v) ...
           g = A if c else B      ; ... g(x) ...      ->  ... (A(x) if c else B(x)) ...
        for a local bound once in this block and used only as the function of calls (or as the first argument of
        filter / filterfalse / map) in the statements that follow; c and the partial's arguments are plain names / constants."""
        for i, st in enumerate(stmts):
            if not (isinstance(st, ast.Assign) and len(st.targets) == 1 and isinstance(st.targets[0], ast.Name)):
                continue
            nm, v = st.targets[0].id, st.value
            kind = None
            if isinstance(v, ast.Call) and ast.unparse(v.func) in ("partial", "functools.partial") and v.args and isinstance(v.args[0], (ast.Name, ast.Attribute)) and all(isinstance(a, (ast.Name, ast.Constant, ast.Attribute)) or (isinstance(a, ast.Call) and ast.unparse(a.func) in ("re.compile",)) for a in list(v.args[1:]) + [k.value for k in v.keywords]) and all(k.arg for k in v.keywords):
                kind = "partial"
            elif isinstance(v, ast.IfExp) and isinstance(v.body, ast.Name) and isinstance(v.orelse, ast.Name) and isinstance(v.test, (ast.Name, ast.UnaryOp, ast.Compare)):
                kind = "choice"
            if kind is None:
                continue
            rest = stmts[i + 1 :]
            uses = [x for b in rest for x in ast.walk(b) if isinstance(x, ast.Name) and x.id == nm]
            if not uses or any(isinstance(x.ctx, (ast.Store, ast.Del)) for x in uses):
                continue
            stores_elsewhere = sum(1 for b in stmts for x in ast.walk(b) if isinstance(x, ast.Name) and x.id == nm and isinstance(x.ctx, ast.Store))
            if stores_elsewhere != 1:
                continue
            call_uses = [c for b in rest for c in ast.walk(b) if isinstance(c, ast.Call) and isinstance(c.func, ast.Name) and c.func.id == nm]
            arg_uses = [c for b in rest for c in ast.walk(b) if isinstance(c, ast.Call) and ast.unparse(c.func) in ("filter", "filterfalse", "itertools.filterfalse", "map") and c.args and isinstance(c.args[0], ast.Name) and c.args[0].id == nm]
            if len(call_uses) + len(arg_uses) != len(uses):
                continue
            # a partial that holds a call (re.compile) may be used once only (it is evaluated once)
            if kind == "partial" and any(isinstance(a, ast.Call) for a in list(v.args[1:]) + [k.value for k in v.keywords]) and len(uses) != 1:
                continue

            class R(ast.NodeTransformer):
                def visit_Call(self, c):
                    self.generic_visit(c)
                    if isinstance(c.func, ast.Name) and c.func.id == nm:
                        if kind == "partial":
                            return ast.copy_location(ast.Call(func=_copy(v.args[0]), args=[_copy(a) for a in v.args[1:]] + c.args, keywords=[ast.keyword(arg=k.arg, value=_copy(k.value)) for k in v.keywords] + c.keywords), c)
                        return ast.copy_location(ast.IfExp(test=_copy(v.test), body=ast.Call(func=_copy(v.body), args=c.args, keywords=c.keywords), orelse=ast.Call(func=_copy(v.orelse), args=[_copy(a) for a in c.args], keywords=[ast.keyword(arg=k.arg, value=_copy(k.value)) for k in c.keywords])), c)
                    if ast.unparse(c.func) in ("filter", "filterfalse", "itertools.filterfalse", "map") and c.args and isinstance(c.args[0], ast.Name) and c.args[0].id == nm and kind == "partial":
                        lam = ast.Lambda(args=ast.arguments(posonlyargs=[], args=[ast.arg(arg="e__p")], kwonlyargs=[], kw_defaults=[], defaults=[]), body=ast.Call(func=_copy(v.args[0]), args=[_copy(a) for a in v.args[1:]] + [ast.Name(id="e__p", ctx=ast.Load())], keywords=[ast.keyword(arg=k.arg, value=_copy(k.value)) for k in v.keywords]))
                        c.args = [lam] + c.args[1:]
                    return c

            if kind == "choice" and arg_uses:
                continue
            new_rest = [R().visit(b) for b in rest]
            for b in new_rest:
                ast.fix_missing_locations(b)
            self.log.append(f"function-valued local `{nm}` ({kind}) substituted {self.modname}:{st.lineno}")
            return self._function_valued_locals(stmts[:i] + new_rest)
        return stmts

    def _simplify_in(self, stmts):
        """setattr(x, "c", v) -> x.c = v ;  if (A if C else None) is not None: ...A'...  ->  if C: ...A...  (A never None)"""
        # a local bound once (in this block) to a tuple / list of literals is read as that literal further down the block
        lit = {}
        for st in stmts:
            if isinstance(st, ast.Assign) and len(st.targets) == 1 and isinstance(st.targets[0], ast.Name) and isinstance(st.value, (ast.Tuple, ast.List)) and st.value.elts and all(isinstance(e, ast.Constant) for e in st.value.elts):
                nm = st.targets[0].id
                stores = sum(1 for b in stmts for x in ast.walk(b) if isinstance(x, ast.Name) and x.id == nm and isinstance(x.ctx, (ast.Store, ast.Del)))
                mutated = any(isinstance(x, ast.Attribute) and isinstance(x.value, ast.Name) and x.value.id == nm and x.attr in ("append", "extend", "insert", "pop", "remove", "sort", "reverse", "clear") for b in stmts for x in ast.walk(b))
                if stores == 1 and not mutated:
                    lit[nm] = st.value
        if lit:
            new_stmts = []
            for st in stmts:
                if isinstance(st, ast.Assign) and len(st.targets) == 1 and isinstance(st.targets[0], ast.Name) and st.targets[0].id in lit:
                    new_stmts.append(st)
                    continue
                for nm, v in lit.items():
                    st = _NameConst(nm, v).visit(st)
                new_stmts.append(st)
            stmts = new_stmts
        stmts = self._function_valued_locals(stmts)
        # x = A ; if C: x += "lit"   ->   x = A + ("lit" if C else "")     (string building with an optional suffix)
        merged = []
        i_ = 0
        while i_ < len(stmts):
            a_ = stmts[i_]
            b_ = stmts[i_ + 1] if i_ + 1 < len(stmts) else None
            if isinstance(a_, ast.Assign) and len(a_.targets) == 1 and isinstance(a_.targets[0], ast.Name) and isinstance(b_, ast.If) and not b_.orelse and len(b_.body) == 1 and isinstance(b_.body[0], ast.AugAssign) and isinstance(b_.body[0].op, ast.Add) and isinstance(b_.body[0].target, ast.Name) and b_.body[0].target.id == a_.targets[0].id and isinstance(b_.body[0].value, ast.Constant) and isinstance(b_.body[0].value.value, str) and not any(isinstance(x, ast.Name) and x.id == a_.targets[0].id for x in ast.walk(b_.test)) and not any(isinstance(x, (ast.Call, ast.NamedExpr, ast.Await)) for x in ast.walk(b_.test)):
                new_v = ast.BinOp(left=a_.value, op=ast.Add(), right=ast.IfExp(test=b_.test, body=b_.body[0].value, orelse=ast.Constant(value="")))
                a_.value = ast.copy_location(new_v, a_.value)
                ast.fix_missing_locations(a_)
                self.log.append(f"optional string suffix folded into the assignment {self.modname}:{a_.lineno}")
                merged.append(a_)
                i_ += 2
                continue
            merged.append(a_)
            i_ += 1
        stmts = merged
        out = []
        for st in stmts:
            # v = reduce(F, xs, init) / return reduce(F, xs, init)   ->   acc = init; for x in xs: acc = F(acc, x); [return acc]
            rv = st.value if isinstance(st, (ast.Return, ast.Assign)) else None
            if isinstance(rv, ast.Call) and ast.unparse(rv.func) in ("reduce", "functools.reduce") and len(rv.args) == 3 and not rv.keywords and (isinstance(st, ast.Return) or (len(st.targets) == 1 and isinstance(st.targets[0], ast.Name))):
                F, xs, init = rv.args
                extra_kw, extra_args = [], []
                if isinstance(F, ast.Call) and ast.unparse(F.func) in ("partial", "functools.partial") and F.args and isinstance(F.args[0], (ast.Name, ast.Attribute)) and all(k.arg for k in F.keywords) and len(F.args) == 1:
                    extra_kw, F = F.keywords, F.args[0]
                if isinstance(F, (ast.Name, ast.Attribute)) and f"{self.modname}.{ast.unparse(F).split('.')[-1]}" not in _KNOWN_FUNCS:
                    acc = st.targets[0].id if isinstance(st, ast.Assign) else "acc__n"
                    item = "item__n"
                    step = ast.Assign(targets=[ast.Name(id=acc, ctx=ast.Store())], value=ast.Call(func=F, args=[ast.Name(id=acc, ctx=ast.Load()), ast.Name(id=item, ctx=ast.Load())], keywords=list(extra_kw)))
                    new = [ast.Assign(targets=[ast.Name(id=acc, ctx=ast.Store())], value=init), ast.For(target=ast.Name(id=item, ctx=ast.Store()), iter=xs, body=[step], orelse=[])]
                    if isinstance(st, ast.Return):
                        new.append(ast.Return(value=ast.Name(id=acc, ctx=ast.Load())))
                    for x in new:
                        ast.copy_location(x, st)
                        for z in ast.walk(x):
                            if not hasattr(z, "lineno"):
                                ast.copy_location(z, st)
                        ast.fix_missing_locations(x)
                    self.log.append(f"reduce() written out as a loop {self.modname}:{st.lineno}")
                    out += new
                    continue
            # return [..comprehension..] if c else [..comprehension..]  ->  if c: return [...] else: return [...]
            if isinstance(st, ast.Return) and isinstance(st.value, ast.IfExp) and isinstance(st.value.body, (ast.ListComp, ast.List)) and isinstance(st.value.orelse, (ast.ListComp, ast.List)):
                new = ast.If(test=st.value.test, body=[ast.Return(value=st.value.body)], orelse=[ast.Return(value=st.value.orelse)])
                ast.copy_location(new, st)
                for x in (new.body[0], new.orelse[0]):
                    ast.copy_location(x, st)
                ast.fix_missing_locations(new)
                self.log.append(f"return A if c else B split {self.modname}:{st.lineno}")
                out.append(new)
                continue
            # for x in filter(None, xs): B   ->  for x in xs: if x: B
            if isinstance(st, ast.For) and isinstance(st.target, ast.Name) and isinstance(st.iter, ast.Call) and ast.unparse(st.iter.func) == "filter" and len(st.iter.args) == 2 and not st.iter.keywords and isinstance(st.iter.args[0], ast.Constant) and st.iter.args[0].value is None and not st.orelse and not any(isinstance(x, (ast.Continue,)) for b in st.body for x in ast.walk(b)):
                guard = ast.If(test=ast.Name(id=st.target.id, ctx=ast.Load()), body=st.body, orelse=[])
                st.iter = st.iter.args[1]
                st.body = [guard]
                ast.copy_location(guard, st)
                ast.copy_location(guard.test, st)
                ast.fix_missing_locations(st)
                self.log.append(f"filter(None, ...) loop written with an explicit test {self.modname}:{st.lineno}")
            # for x in map(str.strip, xs): B   ->  for x in xs: x = x.strip(); B      (map(f, xs): x = f(x))
            if isinstance(st, ast.For) and isinstance(st.target, ast.Name) and isinstance(st.iter, ast.Call) and ast.unparse(st.iter.func) == "map" and len(st.iter.args) == 2 and not st.iter.keywords and not st.orelse:
                F, x = st.iter.args[0], st.target.id
                conv = None
                if isinstance(F, ast.Attribute) and isinstance(F.value, ast.Name) and F.value.id in ("str", "bytes"):
                    conv = ast.Call(func=ast.Attribute(value=ast.Name(id=x, ctx=ast.Load()), attr=F.attr, ctx=ast.Load()), args=[], keywords=[])
                elif isinstance(F, ast.Name):
                    conv = ast.Call(func=F, args=[ast.Name(id=x, ctx=ast.Load())], keywords=[])
                elif isinstance(F, ast.Lambda) and len(F.args.args) == 1:
                    conv = _NameConst(F.args.args[0].arg, ast.Name(id=x, ctx=ast.Load())).visit(ast.parse(ast.unparse(F.body), mode="eval").body)
                if conv is not None:
                    asg = ast.Assign(targets=[ast.Name(id=x, ctx=ast.Store())], value=conv)
                    st.iter = st.iter.args[1]
                    st.body = [asg] + st.body
                    ast.copy_location(asg, st)
                    for z in ast.walk(asg):
                        ast.copy_location(z, st)
                    ast.fix_missing_locations(st)
                    self.log.append(f"map(f, ...) loop written with an explicit conversion {self.modname}:{st.lineno}")
            # for x in takewhile(lambda e: P(e), xs): B   ->  for x in xs: if not P(x): break; B
            # for x in filter(lambda e: P(e), xs): B      ->  for x in xs: if not P(x): continue; B      (filterfalse: if P(x))
            if isinstance(st, ast.For) and isinstance(st.target, ast.Name) and isinstance(st.iter, ast.Call) and ast.unparse(st.iter.func) in ("takewhile", "itertools.takewhile", "filter", "filterfalse", "itertools.filterfalse") and len(st.iter.args) == 2 and not st.iter.keywords and isinstance(st.iter.args[0], ast.Lambda) and len(st.iter.args[0].args.args) == 1 and not st.orelse:
                lam = st.iter.args[0]
                kind = ast.unparse(st.iter.func).split(".")[-1]
                test = _NameConst(lam.args.args[0].arg, ast.Name(id=st.target.id, ctx=ast.Load())).visit(ast.parse(ast.unparse(lam.body), mode="eval").body)
                cond = test if kind == "filterfalse" else ast.UnaryOp(op=ast.Not(), operand=test)
                guard = ast.If(test=cond, body=[ast.Break() if kind == "takewhile" else ast.Continue()], orelse=[])
                st.iter = st.iter.args[1]
                st.body = [guard] + st.body
                ast.copy_location(guard, st)
                for x in ast.walk(guard):
                    ast.copy_location(x, st)
                ast.fix_missing_locations(st)
                self.log.append(f"{kind}(lambda) loop written with an explicit guard {self.modname}:{st.lineno}")
            # d.update({"a": x, "b": y})  ->  d["a"] = x; d["b"] = y
            if isinstance(st, ast.Expr) and isinstance(st.value, ast.Call) and isinstance(st.value.func, ast.Attribute) and st.value.func.attr == "update" and len(st.value.args) == 1 and not st.value.keywords and isinstance(st.value.args[0], ast.Dict) and st.value.args[0].keys and all(isinstance(k, ast.Constant) for k in st.value.args[0].keys):
                recv = st.value.func.value
                for k, v in zip(st.value.args[0].keys, st.value.args[0].values):
                    a = ast.Assign(targets=[ast.Subscript(value=_copy(recv), slice=ast.Constant(value=k.value), ctx=ast.Store())], value=v)
                    ast.copy_location(a, st)
                    ast.fix_missing_locations(a)
                    out.append(a)
                self.log.append(f"update({{...}}) split {self.modname}:{st.lineno}")
                continue
            # d.update(a=x, b=y)  ->  d["a"] = x; d["b"] = y   (d a plain name: a dict, not a query builder)
            if isinstance(st, ast.Expr) and isinstance(st.value, ast.Call) and isinstance(st.value.func, ast.Attribute) and st.value.func.attr == "update" and not st.value.args and st.value.keywords and all(k.arg is not None for k in st.value.keywords) and isinstance(st.value.func.value, ast.Name) and not st.value.func.value.id[:1].isupper():
                recv = st.value.func.value
                for k in st.value.keywords:
                    a = ast.Assign(targets=[ast.Subscript(value=_copy(recv), slice=ast.Constant(value=k.arg), ctx=ast.Store())], value=k.value)
                    ast.copy_location(a, st)
                    ast.fix_missing_locations(a)
                    out.append(a)
                self.log.append(f"update(k=v, ...) split {self.modname}:{st.lineno}")
                continue
            if isinstance(st, ast.If):
                t = st.test
                inner = t.operand if isinstance(t, ast.UnaryOp) and isinstance(t.op, ast.Not) else t
                ne = None
                if isinstance(inner, ast.NamedExpr):
                    ne = inner
                elif isinstance(inner, ast.Compare) and isinstance(inner.left, ast.NamedExpr):
                    ne = inner.left
                if ne is not None and isinstance(ne.target, ast.Name):
                    a = ast.Assign(targets=[ast.Name(id=ne.target.id, ctx=ast.Store())], value=ne.value)
                    ast.copy_location(a, st)
                    ast.fix_missing_locations(a)
                    out.append(a)
                    name = ast.Name(id=ne.target.id, ctx=ast.Load())
                    if inner is ne:
                        if inner is t:
                            st.test = name
                        else:
                            t.operand = name
                    else:
                        inner.left = name
                    ast.fix_missing_locations(st)
                    self.log.append(f"walrus hoisted {self.modname}:{st.lineno}")
            if isinstance(st, ast.Expr) and isinstance(st.value, ast.Call) and isinstance(st.value.func, ast.Name) and st.value.func.id == "setattr" and len(st.value.args) == 3 and isinstance(st.value.args[1], ast.Constant) and isinstance(st.value.args[1].value, str) and st.value.args[1].value.isidentifier():
                a = st.value.args
                out.append(ast.copy_location(ast.Assign(targets=[ast.Attribute(value=a[0], attr=a[1].value, ctx=ast.Store())], value=a[2]), st))
                continue
            if isinstance(st, ast.If) and isinstance(st.test, ast.Compare) and len(st.test.ops) == 1 and isinstance(st.test.ops[0], ast.IsNot) and isinstance(st.test.comparators[0], ast.Constant) and st.test.comparators[0].value is None and isinstance(st.test.left, ast.IfExp):
                ie = st.test.left
                if isinstance(ie.orelse, ast.Constant) and ie.orelse.value is None and isinstance(ie.body, ast.Call) and ast.unparse(ie.body.func) in self._NEVER_NONE:
                    txt = ast.unparse(ie)

                    class R(ast.NodeTransformer):
                        def visit_IfExp(self_, n):
                            if ast.unparse(n) == txt:
                                return ast.parse(ast.unparse(ie.body), mode="eval").body
                            return self_.generic_visit(n)

                    st.test = ie.test
                    st.body = [R().visit(b) for b in st.body]
                    ast.fix_missing_locations(st)
            out.append(st)
        return out

    def _untuple_in(self, stmts):
        """a, b, c = row  ->  a = row[0]; b = row[1]; c = row[2]   (plain names from a plain name)"""
        out = []
        for st in stmts:
            if (
                isinstance(st, ast.Assign)
                and len(st.targets) == 1
                and isinstance(st.targets[0], ast.Tuple)
                and len(st.targets[0].elts) >= 2
                and all(isinstance(t, ast.Name) for t in st.targets[0].elts)
                and isinstance(st.value, ast.Name)
                and st.value.id not in {t.id for t in st.targets[0].elts}
            ):
                for i, t in enumerate(st.targets[0].elts):
                    out.append(ast.copy_location(ast.Assign(targets=[ast.Name(id=t.id, ctx=ast.Store())], value=ast.Subscript(value=ast.Name(id=st.value.id, ctx=ast.Load()), slice=ast.Constant(value=i), ctx=ast.Load())), st))
                self.log.append(f"untupled {self.modname}:{st.lineno} {ast.unparse(st)[:60]}")
            elif (
                isinstance(st, ast.Assign)
                and len(st.targets) == 1
                and isinstance(st.targets[0], ast.Tuple)
                and len(st.targets[0].elts) == 2
                and all(isinstance(t, ast.Name) for t in st.targets[0].elts)
                and isinstance(st.value, ast.Call)
                and isinstance(st.value.func, ast.Name)
                and st.value.func.id == "divmod"
                and len(st.value.args) == 2
                and not st.value.keywords
                and not any(isinstance(n, (ast.Call, ast.NamedExpr)) for a in st.value.args for n in ast.walk(a) if not (isinstance(n, ast.Call) and isinstance(n.func, ast.Name) and n.func.id in ("int", "len", "abs")))
                and not any(isinstance(n, ast.Name) and n.id in {t.id for t in st.targets[0].elts} for a in st.value.args for n in ast.walk(a))
            ):
                # q, r = divmod(a, b)  ->  q = a // b; r = a % b   (a, b free of side effects)
                a, b = st.value.args
                for t, op in zip(st.targets[0].elts, (ast.FloorDiv(), ast.Mod())):
                    out.append(ast.copy_location(ast.Assign(targets=[ast.Name(id=t.id, ctx=ast.Store())], value=ast.BinOp(left=_copy(a), op=op, right=_copy(b))), st))
                self.log.append(f"divmod split {self.modname}:{st.lineno}")
            elif (
                isinstance(st, ast.Assign)
                and len(st.targets) == 1
                and isinstance(st.targets[0], ast.Tuple)
                and isinstance(st.value, ast.Call)
                and ast.unparse(st.value.func) in ("urlparse", "urllib.parse.urlparse", "parse.urlparse")
                and len(st.targets[0].elts) == 6
                and all(isinstance(t, ast.Name) for t in st.targets[0].elts)
            ):
                # scheme, netloc, path, params, query, fragment = urlparse(u): a ParseResult is that named 6-tuple
                tmp = "parsed__n"
                out.append(ast.copy_location(ast.Assign(targets=[ast.Name(id=tmp, ctx=ast.Store())], value=st.value), st))
                for t, field in zip(st.targets[0].elts, ("scheme", "netloc", "path", "params", "query", "fragment")):
                    out.append(ast.copy_location(ast.Assign(targets=[ast.Name(id=t.id, ctx=ast.Store())], value=ast.Attribute(value=ast.Name(id=tmp, ctx=ast.Load()), attr=field, ctx=ast.Load())), st))
                for x in out[-7:]:
                    ast.fix_missing_locations(x)
                self.log.append(f"urlparse result unpacked by field {self.modname}:{st.lineno}")
            elif isinstance(st, ast.Assign) and len(st.targets) == 1 and isinstance(st.targets[0], (ast.Tuple, ast.List)) and len(st.targets[0].elts) == 1 and isinstance(st.targets[0].elts[0], ast.Name):
                # (x,) = E  ->  x = E[0]   (E evaluated once either way; the length check of the unpacking is dropped)
                out.append(ast.copy_location(ast.Assign(targets=[ast.Name(id=st.targets[0].elts[0].id, ctx=ast.Store())], value=ast.Subscript(value=st.value, slice=ast.Constant(value=0), ctx=ast.Load())), st))
                ast.fix_missing_locations(out[-1])
                self.log.append(f"untupled {self.modname}:{st.lineno} {ast.unparse(st)[:60]}")
            else:
                out.append(st)
        return out

    def generic_visit(self, node):
        super().generic_visit(node)
        for field in ("body", "orelse", "finalbody"):
            blk = getattr(node, field, None)
            if isinstance(blk, list) and blk and isinstance(blk[0], ast.stmt):
                setattr(node, field, self._simplify_in(self._untuple_in(self._pairs_unroll_in(self._unroll_in(blk)))))
        return node


class _NameConst(ast.NodeTransformer):
    def __init__(self, name, const):
        self.name, self.const = name, const

    def visit_Name(self, n):
        if n.id == self.name and isinstance(n.ctx, ast.Load):
            return ast.copy_location(_copy(self.const), n)
        return n


def _flatten_pairs(t, v):
    """((a, b), c) = ((x, y), z)  ->  [(a, x), (b, y), (c, z)]   (targets plain names; shapes must agree)"""
    if isinstance(t, ast.Name):
        return [(t, v)]
    if isinstance(t, (ast.Tuple, ast.List)) and isinstance(v, (ast.Tuple, ast.List)) and len(t.elts) == len(v.elts) and not any(isinstance(x, ast.Starred) for x in list(t.elts) + list(v.elts)):
        out = []
        for a, b in zip(t.elts, v.elts):
            r = _flatten_pairs(a, b)
            if r is None:
                return None
            out += r
        return out
    return None


def split_tuple_assigns(stmts):
    """a, b = (x, y) -> a = x; b = y  when a, b are plain names that x, y do not mention (recursively through blocks)"""
    out = []
    for st in stmts:
        for field in ("body", "orelse", "finalbody"):
            blk = getattr(st, field, None)
            if isinstance(blk, list) and blk and isinstance(blk[0], ast.stmt):
                setattr(st, field, split_tuple_assigns(blk))
        if isinstance(st, ast.Try):
            for h in st.handlers:
                h.body = split_tuple_assigns(h.body)
        pairs = _flatten_pairs(st.targets[0], st.value) if isinstance(st, ast.Assign) and len(st.targets) == 1 and isinstance(st.targets[0], ast.Tuple) and isinstance(st.value, ast.Tuple) else None
        if pairs is not None and not any(isinstance(n, ast.Name) and n.id in {t.id for t, _ in pairs} for _, v in pairs for n in ast.walk(v)):
            for t, v in pairs:
                out.append(ast.copy_location(ast.Assign(targets=[ast.Name(id=t.id, ctx=ast.Store())], value=v), st))
        else:
            out.append(st)
    return out


def rows_comprehension_to_loop(fn, log=None, where=""):
    """rows = [(a, b) for e in xs if c]; conn.executemany(q, rows)  ->  rows = []; for e in xs: if c: rows.append((a, b))
    (the rules describe bulk writes as an append loop; the two spellings build the same list)"""
    names = set()
    for n in ast.walk(fn):
        if isinstance(n, ast.Call) and isinstance(n.func, ast.Attribute) and n.func.attr == "executemany" and len(n.args) >= 2 and isinstance(n.args[1], ast.Name):
            names.add(n.args[1].id)
    if not names:
        return False
    changed = False

    def rec(stmts):
        nonlocal changed
        out = []
        for st in stmts:
            for field in ("body", "orelse", "finalbody"):
                blk = getattr(st, field, None)
                if isinstance(blk, list) and blk and isinstance(blk[0], ast.stmt) and not isinstance(st, (ast.FunctionDef, ast.AsyncFunctionDef, ast.ClassDef)):
                    setattr(st, field, rec(blk))
            if isinstance(st, ast.Assign) and len(st.targets) == 1 and isinstance(st.targets[0], ast.Name) and st.targets[0].id in names and isinstance(st.value, ast.ListComp) and len(st.value.generators) == 1 and not st.value.generators[0].is_async:
                g = st.value.generators[0]
                acc = st.targets[0].id
                if any(isinstance(x, ast.Name) and x.id == acc for x in ast.walk(g.iter)):
                    out.append(st)
                    continue
                inner = [ast.Expr(value=ast.Call(func=ast.Attribute(value=ast.Name(id=acc, ctx=ast.Load()), attr="append", ctx=ast.Load()), args=[st.value.elt], keywords=[]))]
                for c in reversed(g.ifs):
                    inner = [ast.If(test=c, body=inner, orelse=[])]
                a = ast.Assign(targets=[ast.Name(id=acc, ctx=ast.Store())], value=ast.List(elts=[], ctx=ast.Load()))
                f = ast.For(target=g.target, iter=g.iter, body=inner, orelse=[])
                for x in (a, f):
                    ast.copy_location(x, st)
                    for y in ast.walk(x):
                        if not hasattr(y, "lineno"):
                            ast.copy_location(y, st)
                    ast.fix_missing_locations(x)
                out += [a, f]
                changed = True
                if log is not None:
                    log.append(f"rows comprehension -> loop {where}:{st.lineno} {acc}")
            else:
                out.append(st)
        return out

    fn.body = rec(fn.body)
    return changed


def _namedtuple_classes(tree):
    out = {}
    for st in tree.body:
        if isinstance(st, ast.ClassDef) and any(ast.unparse(b) in ("NamedTuple", "typing.NamedTuple") for b in st.bases):
            out[st.name] = [x.target.id for x in st.body if isinstance(x, ast.AnnAssign) and isinstance(x.target, ast.Name)]
    return out


def namedtuple_fields(modules, log):
    """r = Row(*row[:4]) ... r.start   ->   row[1]      /     t = T(a=x, b=y) ... t.b  ->  y
    (records of a NamedTuple class defined in the package, bound once in the function, read by field name;
    also for a loop variable ranging over a generator function of the package whose yields are all such records)"""
    classes = {}
    for mi in modules.values():
        for k, v in _namedtuple_classes(mi.tree).items():
            classes[k] = v
    if not classes:
        return
    # generator functions whose every yield is Cls(...)
    gen_records = {}
    for mi in modules.values():
        for fn in [n for n in ast.walk(mi.tree) if isinstance(n, (ast.FunctionDef, ast.AsyncFunctionDef))]:
            ys = [n for n in ast.walk(fn) if isinstance(n, ast.Yield)]
            if ys and all(isinstance(y.value, ast.Call) and isinstance(y.value.func, ast.Name) and y.value.func.id in classes for y in ys) and len({y.value.func.id for y in ys}) == 1:
                gen_records[fn.name] = ys[0].value.func.id
                # the generator now yields plain tuples in field order
                for y in ys:
                    c = y.value
                    fields = classes[c.func.id]
                    vals = list(c.args) + [None] * (len(fields) - len(c.args))
                    for k in c.keywords:
                        if k.arg in fields:
                            vals[fields.index(k.arg)] = k.value
                    if all(v is not None for v in vals) and not any(isinstance(a, ast.Starred) for a in c.args):
                        y.value = ast.copy_location(ast.Tuple(elts=vals, ctx=ast.Load()), c)
                        log.append(f"namedtuple yield {mi.name}:{c.lineno} {c.func.id}(...) -> tuple")
    for mi in modules.values():
        for fn in [n for n in ast.walk(mi.tree) if isinstance(n, (ast.FunctionDef, ast.AsyncFunctionDef))]:
            binds = {}  # var -> (class, value exprs per field | sequence expr)
            stores = {}
            for n in ast.walk(fn):
                if isinstance(n, ast.Name) and isinstance(n.ctx, ast.Store):
                    stores[n.id] = stores.get(n.id, 0) + 1
            for n in ast.walk(fn):
                if isinstance(n, ast.Assign) and len(n.targets) == 1 and isinstance(n.targets[0], ast.Name) and isinstance(n.value, ast.Call) and isinstance(n.value.func, ast.Name) and n.value.func.id in classes and stores.get(n.targets[0].id) == 1:
                    c = n.value
                    fields = classes[c.func.id]
                    if len(c.args) == 1 and isinstance(c.args[0], ast.Starred) and not c.keywords:
                        seq = c.args[0].value
                        if isinstance(seq, ast.Subscript) and isinstance(seq.slice, ast.Slice) and seq.slice.lower is None and seq.slice.step is None:
                            seq = seq.value
                        if isinstance(seq, ast.Name):
                            binds[n.targets[0].id] = {f: ast.Subscript(value=ast.Name(id=seq.id, ctx=ast.Load()), slice=ast.Constant(value=i), ctx=ast.Load()) for i, f in enumerate(fields)}
                    elif not any(isinstance(a, ast.Starred) for a in c.args):
                        vals = dict(zip(fields, c.args))
                        for k in c.keywords:
                            if k.arg:
                                vals[k.arg] = k.value
                        if set(vals) == set(fields) and all(isinstance(v, (ast.Name, ast.Constant, ast.Attribute, ast.Subscript)) for v in vals.values()):
                            binds[n.targets[0].id] = vals
                # for rec in gen(...):  rec.field -> rec[i]
                tgt_iter = []
                if isinstance(n, ast.For):
                    tgt_iter.append((n.target, n.iter))
                elif isinstance(n, (ast.ListComp, ast.GeneratorExp, ast.SetComp, ast.DictComp)):
                    tgt_iter += [(g.target, g.iter) for g in n.generators]
                for t, it in tgt_iter:
                    if isinstance(t, ast.Name) and isinstance(it, ast.Call) and isinstance(it.func, ast.Name) and it.func.id in gen_records:
                        fields = classes[gen_records[it.func.id]]
                        binds[t.id] = {f: ast.Subscript(value=ast.Name(id=t.id, ctx=ast.Load()), slice=ast.Constant(value=i), ctx=ast.Load()) for i, f in enumerate(fields)}
            if not binds:
                continue

            class R(ast.NodeTransformer):
                def visit_Attribute(self, n):
                    self.generic_visit(n)
                    if isinstance(n.ctx, ast.Load) and isinstance(n.value, ast.Name) and n.value.id in binds and n.attr in binds[n.value.id]:
                        return ast.copy_location(_copy(binds[n.value.id][n.attr]), n)
                    return n

            fn.body = [R().visit(b) for b in fn.body]
            ast.fix_missing_locations(fn)
            log.append(f"namedtuple fields {mi.name}:{fn.name} {sorted(binds)}")
    # a record that is returned (and unpacked or indexed by its receiver) is the tuple of its fields
    for mi in modules.values():
        for fn in [n for n in ast.walk(mi.tree) if isinstance(n, (ast.FunctionDef, ast.AsyncFunctionDef))]:
            for r in [n for n in ast.walk(fn) if isinstance(n, ast.Return) and isinstance(n.value, ast.Call) and isinstance(n.value.func, ast.Name) and n.value.func.id in classes]:
                c = r.value
                fields = classes[c.func.id]
                if any(isinstance(a, ast.Starred) for a in c.args) or any(k.arg is None for k in c.keywords):
                    continue
                vals = list(c.args) + [None] * (len(fields) - len(c.args))
                for k in c.keywords:
                    if k.arg in fields:
                        vals[fields.index(k.arg)] = k.value
                if len(vals) == len(fields) and all(v is not None for v in vals):
                    r.value = ast.copy_location(ast.Tuple(elts=vals, ctx=ast.Load()), c)
                    ast.fix_missing_locations(r)
                    log.append(f"namedtuple return {mi.name}:{fn.name}:{r.lineno} {c.func.id}(...) -> tuple")


def deque_to_index(fn, log=None, where=""):
    """A local collections.deque that is only consumed from the left is a list with a head index:
        q = deque(xs)            ->  q = xs ; q_i = 0           (xs a fresh list: a call)
        while q [and ...]        ->  while q_i < len(q) [and ...]      (also in `if`)
        q[0]                     ->  q[q_i]
        q.popleft()  (statement) ->  q_i += 1
        f(q.popleft())           ->  f(q[q_i]) ; q_i += 1
        q.appendleft(v)          ->  q.insert(q_i, v)
        acc += q / acc.extend(q) ->  acc += q[q_i:]
    Any other use of q leaves the function as it is."""
    qs = {}
    for n in ast.walk(fn):
        if isinstance(n, ast.Assign) and len(n.targets) == 1 and isinstance(n.targets[0], ast.Name) and isinstance(n.value, ast.Call) and ast.unparse(n.value.func) in ("deque", "collections.deque") and len(n.value.args) == 1 and not n.value.keywords and isinstance(n.value.args[0], ast.Call):
            qs[n.targets[0].id] = n
    if not qs:
        return False
    from_parent = {}
    for n in ast.walk(fn):
        for c in ast.iter_child_nodes(n):
            from_parent[id(c)] = n
    # every use of q must be one of the supported forms
    for q in list(qs):
        for n in ast.walk(fn):
            if isinstance(n, ast.Name) and n.id == q:
                p = from_parent.get(id(n))
                ok = False
                if isinstance(p, ast.Assign) and p is qs[q]:
                    ok = True
                elif isinstance(p, ast.Subscript) and p.value is n and isinstance(p.slice, ast.Constant) and p.slice.value == 0:
                    ok = True
                elif isinstance(p, ast.Attribute) and p.attr in ("popleft", "appendleft") and isinstance(from_parent.get(id(p)), ast.Call):
                    ok = True
                elif isinstance(p, (ast.While, ast.If)) and p.test is n:
                    ok = True
                elif isinstance(p, ast.BoolOp) and isinstance(from_parent.get(id(p)), (ast.While, ast.If)):
                    ok = True
                elif isinstance(p, ast.AugAssign) and p.value is n and isinstance(p.op, ast.Add):
                    ok = True
                elif isinstance(p, ast.Call) and isinstance(p.func, ast.Attribute) and p.func.attr == "extend" and p.args and p.args[0] is n:
                    ok = True
                elif isinstance(p, ast.Call) and isinstance(p.func, ast.Name) and p.func.id == "len":
                    ok = True
                if not ok:
                    del qs[q]
                    break
    if not qs:
        return False

    def idx(q):
        return ast.Name(id=f"{q}_i", ctx=ast.Load())

    class E(ast.NodeTransformer):
        """expression-level rewrites; collects the queues popped inside the expression"""

        def __init__(self):
            self.popped = []

        def visit_Subscript(self, n):
            self.generic_visit(n)
            if isinstance(n.value, ast.Name) and n.value.id in qs and isinstance(n.slice, ast.Constant) and n.slice.value == 0:
                n.slice = idx(n.value.id)
            return n

        def visit_Call(self, n):
            self.generic_visit(n)
            f = n.func
            if isinstance(f, ast.Attribute) and isinstance(f.value, ast.Name) and f.value.id in qs:
                q = f.value.id
                if f.attr == "popleft" and not n.args:
                    self.popped.append(q)
                    return ast.Subscript(value=ast.Name(id=q, ctx=ast.Load()), slice=idx(q), ctx=ast.Load())
                if f.attr == "appendleft" and len(n.args) == 1:
                    return ast.Call(func=ast.Attribute(value=ast.Name(id=q, ctx=ast.Load()), attr="insert", ctx=ast.Load()), args=[idx(q), n.args[0]], keywords=[])
            if isinstance(f, ast.Attribute) and f.attr == "extend" and n.args and isinstance(n.args[0], ast.Name) and n.args[0].id in qs:
                q = n.args[0].id
                n.args[0] = ast.Subscript(value=ast.Name(id=q, ctx=ast.Load()), slice=ast.Slice(lower=idx(q)), ctx=ast.Load())
            return n

    def truth(e):
        if isinstance(e, ast.Name) and e.id in qs:
            return ast.Compare(left=idx(e.id), ops=[ast.Lt()], comparators=[ast.Call(func=ast.Name(id="len", ctx=ast.Load()), args=[ast.Name(id=e.id, ctx=ast.Load())], keywords=[])])
        if isinstance(e, ast.BoolOp):
            e.values = [truth(v) for v in e.values]
        if isinstance(e, ast.UnaryOp) and isinstance(e.op, ast.Not):
            e.operand = truth(e.operand)
        return e

    def bump(q, at):
        a = ast.AugAssign(target=ast.Name(id=f"{q}_i", ctx=ast.Store()), op=ast.Add(), value=ast.Constant(value=1))
        ast.copy_location(a, at)
        return a

    def rec(stmts):
        out = []
        for st in stmts:
            if isinstance(st, (ast.FunctionDef, ast.AsyncFunctionDef, ast.ClassDef)):
                out.append(st)
                continue
            if isinstance(st, ast.Assign) and any(st is d for d in qs.values()):
                q = st.targets[0].id
                st.value = st.value.args[0]
                out.append(st)
                z = ast.Assign(targets=[ast.Name(id=f"{q}_i", ctx=ast.Store())], value=ast.Constant(value=0))
                ast.copy_location(z, st)
                out.append(z)
                continue
            if isinstance(st, (ast.While, ast.If)):
                st.test = truth(st.test)
            # a bare q.popleft() statement
            if isinstance(st, ast.Expr) and isinstance(st.value, ast.Call) and isinstance(st.value.func, ast.Attribute) and st.value.func.attr == "popleft" and isinstance(st.value.func.value, ast.Name) and st.value.func.value.id in qs:
                out.append(bump(st.value.func.value.id, st))
                continue
            if isinstance(st, ast.AugAssign) and isinstance(st.value, ast.Name) and st.value.id in qs:
                q = st.value.id
                st.value = ast.Subscript(value=ast.Name(id=q, ctx=ast.Load()), slice=ast.Slice(lower=idx(q)), ctx=ast.Load())
            # expression parts of simple statements
            ex = E()
            for field in ("value", "test", "iter", "exc"):
                v = getattr(st, field, None)
                if isinstance(v, ast.AST) and not (field == "test" and isinstance(st, (ast.While, ast.If)) and False):
                    setattr(st, field, ex.visit(v))
            if isinstance(st, ast.Assign):
                st.targets = [ex.visit(t) for t in st.targets]
            for field in ("body", "orelse", "finalbody"):
                blk = getattr(st, field, None)
                if isinstance(blk, list) and blk and isinstance(blk[0], ast.stmt):
                    setattr(st, field, rec(blk))
            if isinstance(st, ast.Try):
                for h in st.handlers:
                    h.body = rec(h.body)
            out.append(st)
            for q in ex.popped:
                out.append(bump(q, st))
        return out

    fn.body = rec(fn.body)
    ast.fix_missing_locations(fn)
    if log is not None:
        log.append(f"deque -> list + head index {where}:{fn.name} {sorted(qs)}")
    return True


def iterator_to_index(fn, log=None, where=""):
    """A list walked front to back through an explicit iterator is the list with an index:
        it = iter(xs) ; x = next(it, None)      ->  x_i = 0
        while x is not None [and ...]:          ->  while x_i < len(xs) [and ...]:
                                                        x = xs[x_i]
            x = next(it, None)                  ->      x_i += 1          (x is not read again in that iteration)
        acc += it / acc.extend(it) / list(it)   ->  xs[x_i + 1:]          (what the iterator has NOT handed out yet:
                                                                           the element held in x is not part of it)
    x read after the loop is xs[x_i] if x_i < len(xs) else None.  Any other use of it / x leaves the function as it is."""
    its = {}
    for st in fn.body:
        if isinstance(st, ast.Assign) and len(st.targets) == 1 and isinstance(st.targets[0], ast.Name) and isinstance(st.value, ast.Call) and isinstance(st.value.func, ast.Name) and st.value.func.id == "iter" and len(st.value.args) == 1 and isinstance(st.value.args[0], ast.Name) and not st.value.keywords:
            its[st.targets[0].id] = (st, st.value.args[0].id)
    if not its:
        return False
    done = []
    for it, (idef, xs) in its.items():
        par = {}
        for n in ast.walk(fn):
            for c in ast.iter_child_nodes(n):
                par[id(c)] = n

        def is_next(v):
            return isinstance(v, ast.Call) and isinstance(v.func, ast.Name) and v.func.id == "next" and len(v.args) == 2 and isinstance(v.args[0], ast.Name) and v.args[0].id == it and isinstance(v.args[1], ast.Constant) and v.args[1].value is None and not v.keywords

        nexts = [n for n in ast.walk(fn) if isinstance(n, ast.Assign) and len(n.targets) == 1 and isinstance(n.targets[0], ast.Name) and is_next(n.value)]
        xnames = {n.targets[0].id for n in nexts}
        if len(xnames) != 1:
            continue
        x = xnames.pop()
        # every use of `it`
        ok = True
        tails = []
        for n in ast.walk(fn):
            if isinstance(n, ast.Name) and n.id == it:
                p = par.get(id(n))
                if p is idef:
                    continue
                if isinstance(p, ast.Call) and is_next(p) and isinstance(par.get(id(p)), ast.Assign):
                    continue
                if isinstance(p, ast.AugAssign) and p.value is n and isinstance(p.op, ast.Add):
                    tails.append(n)
                    continue
                if isinstance(p, ast.Call) and ((isinstance(p.func, ast.Attribute) and p.func.attr == "extend") or (isinstance(p.func, ast.Name) and p.func.id == "list")) and len(p.args) == 1 and p.args[0] is n:
                    tails.append(n)
                    continue
                ok = False
        # every binding of x is a next(); xs is not re-bound
        for n in ast.walk(fn):
            if isinstance(n, ast.Name) and n.id == x and isinstance(n.ctx, ast.Store) and not (isinstance(par.get(id(n)), ast.Assign) and par[id(n)] in nexts):
                ok = False
            if isinstance(n, ast.Name) and n.id == xs and isinstance(n.ctx, ast.Store) and n.lineno >= idef.lineno:
                ok = False
        loops = [st for st in fn.body if isinstance(st, ast.While)]
        loops = [lp for lp in loops if any(n in nexts for n in ast.walk(lp))]
        if not ok or len(loops) != 1:
            continue
        lp = loops[0]
        first = [n for n in nexts if n in fn.body and fn.body.index(n) < fn.body.index(lp)]
        inner = [n for n in nexts if any(n is y for y in ast.walk(lp))]
        if len(first) != 1 or len(first) + len(inner) != len(nexts) or fn.body.index(first[0]) < fn.body.index(idef):
            continue
        # the loop test asks `x is not None`
        conj = lp.test.values if isinstance(lp.test, ast.BoolOp) and isinstance(lp.test.op, ast.And) else [lp.test]
        hit = [c for c in conj if isinstance(c, ast.Compare) and len(c.ops) == 1 and isinstance(c.ops[0], ast.IsNot) and isinstance(c.left, ast.Name) and c.left.id == x and isinstance(c.comparators[0], ast.Constant) and c.comparators[0].value is None]
        if len(hit) != 1 or lp.orelse:
            continue
        # x is not read between the first next() and the loop, nor after a next() inside the same iteration
        between = fn.body[fn.body.index(first[0]) + 1 : fn.body.index(lp)]
        if any(isinstance(n, ast.Name) and n.id == x for st in between for n in ast.walk(st)):
            continue

        def later_reads(stn):
            cur = stn
            while cur is not lp:
                p = par.get(id(cur))
                if p is None:
                    return True
                for field in ("body", "orelse", "finalbody"):
                    blk = getattr(p, field, None)
                    if isinstance(blk, list) and any(cur is b_ for b_ in blk):
                        i_ = [k for k, b_ in enumerate(blk) if b_ is cur][0]
                        for later in blk[i_ + 1 :]:
                            if any(isinstance(n, ast.Name) and n.id == x for n in ast.walk(later)):
                                return True
                if isinstance(p, (ast.For, ast.While)) and p is not lp:
                    return True
                cur = p
            return False

        if any(later_reads(n) for n in inner):
            continue
        I = f"{x}_i"
        if any(isinstance(n, ast.Name) and n.id == I for n in ast.walk(fn)):
            continue

        def load(nm):
            return ast.Name(id=nm, ctx=ast.Load())

        def in_range():
            return ast.Compare(left=load(I), ops=[ast.Lt()], comparators=[ast.Call(func=load("len"), args=[load(xs)], keywords=[])])

        def elem():
            return ast.Subscript(value=load(xs), slice=load(I), ctx=ast.Load())

        # rewrite
        z = ast.copy_location(ast.Assign(targets=[ast.Name(id=I, ctx=ast.Store())], value=ast.Constant(value=0)), idef)
        fn.body[fn.body.index(idef)] = z
        fn.body.remove(first[0])
        new_conj = [in_range() if c is hit[0] else c for c in conj]
        lp.test = new_conj[0] if len(new_conj) == 1 else ast.BoolOp(op=ast.And(), values=new_conj)
        ast.copy_location(lp.test, lp)
        fetch = ast.copy_location(ast.Assign(targets=[ast.Name(id=x, ctx=ast.Store())], value=elem()), lp.body[0])

        class R(ast.NodeTransformer):
            def visit_Assign(self, n):
                if any(n is y for y in inner):
                    return ast.copy_location(ast.AugAssign(target=ast.Name(id=I, ctx=ast.Store()), op=ast.Add(), value=ast.Constant(value=1)), n)
                return self.generic_visit(n)

            def visit_Name(self, n):
                if any(n is t for t in tails):
                    return ast.copy_location(ast.Subscript(value=load(xs), slice=ast.Slice(lower=ast.BinOp(left=load(I), op=ast.Add(), right=ast.Constant(value=1))), ctx=ast.Load()), n)
                return n

            def visit_FunctionDef(self, n):
                return n

        lp.body = [R().visit(st) for st in lp.body]
        lp.body.insert(0, fetch)
        k = fn.body.index(lp)
        # `if x is not None: acc.append(x)` directly followed by `acc += it`: the held element and what the iterator still has
        # are together the list from the index on
        tail_ = fn.body[k + 1 : k + 3]
        if len(tail_) == 2 and isinstance(tail_[0], ast.If) and not tail_[0].orelse and len(tail_[0].body) == 1:
            t0, t1 = tail_
            c0 = t0.test
            held = (isinstance(c0, ast.Compare) and len(c0.ops) == 1 and isinstance(c0.ops[0], ast.IsNot) and isinstance(c0.left, ast.Name) and c0.left.id == x and isinstance(c0.comparators[0], ast.Constant) and c0.comparators[0].value is None) or (isinstance(c0, ast.Name) and c0.id == x)
            b0 = t0.body[0]
            app = isinstance(b0, ast.Expr) and isinstance(b0.value, ast.Call) and isinstance(b0.value.func, ast.Attribute) and b0.value.func.attr == "append" and isinstance(b0.value.func.value, ast.Name) and len(b0.value.args) == 1 and isinstance(b0.value.args[0], ast.Name) and b0.value.args[0].id == x
            acc_ = b0.value.func.value.id if app else None
            ext = None
            if isinstance(t1, ast.AugAssign) and isinstance(t1.op, ast.Add) and isinstance(t1.target, ast.Name) and any(t1.value is t for t in tails):
                ext = t1.target.id
            elif isinstance(t1, ast.Expr) and isinstance(t1.value, ast.Call) and isinstance(t1.value.func, ast.Attribute) and t1.value.func.attr == "extend" and isinstance(t1.value.func.value, ast.Name) and t1.value.args and any(t1.value.args[0] is t for t in tails):
                ext = t1.value.func.value.id
            if held and app and ext == acc_:
                whole = ast.copy_location(ast.AugAssign(target=ast.Name(id=acc_, ctx=ast.Store()), op=ast.Add(), value=ast.Subscript(value=load(xs), slice=ast.Slice(lower=load(I)), ctx=ast.Load())), t0)
                fn.body[k + 1 : k + 3] = [whole]
        rest = [R().visit(st) for st in fn.body[k + 1 :]]
        if any(isinstance(n, ast.Name) and n.id == x and isinstance(n.ctx, ast.Load) for st in rest for n in ast.walk(st)):
            after = ast.copy_location(ast.Assign(targets=[ast.Name(id=x, ctx=ast.Store())], value=ast.IfExp(test=in_range(), body=elem(), orelse=ast.Constant(value=None))), lp)
            after.lineno = after.end_lineno = getattr(lp, "end_lineno", lp.lineno)
            rest.insert(0, after)
        fn.body[k + 1 :] = rest
        done.append(f"{it}->{xs}[{I}]")
    if done:
        ast.fix_missing_locations(fn)
        if log is not None:
            log.append(f"iterator -> list + index {where}:{fn.name} {done}")
    return bool(done)


def prefix_scanner_to_token(fn, log=None, where=""):
    """A scanner that computes the LENGTH of the accepted prefix and slices is the scanner that accumulates the prefix:
        end = 0                                              tok = ""
        while end < len(s) and P(s[end]): end += 1     ->    for ch in s:
                                                                 if P(ch): tok += ch
                                                                 else: break
        for i, ch in enumerate(s):
            if C(ch, i): end = i + 1                   ->            if C(ch, i): tok += ch
            else: break
        s[:end] -> tok          s[end:] -> s[len(tok):]
    (end is the number of characters accepted so far, all of them at the front).  Any other use of `end` leaves the function alone."""
    par = {}
    for n in ast.walk(fn):
        for c in ast.iter_child_nodes(n):
            par[id(c)] = n
    zeros = [st for st in fn.body if isinstance(st, ast.Assign) and len(st.targets) == 1 and isinstance(st.targets[0], ast.Name) and isinstance(st.value, ast.Constant) and st.value.value == 0 and not isinstance(st.value.value, bool)]
    done = []
    for z in zeros:
        E = z.targets[0].id
        stores = [n for n in ast.walk(fn) if isinstance(n, ast.Name) and n.id == E and isinstance(n.ctx, ast.Store) and par.get(id(n)) is not z]
        loads = [n for n in ast.walk(fn) if isinstance(n, ast.Name) and n.id == E and isinstance(n.ctx, ast.Load)]
        if len(stores) != 1:
            continue
        st_ = par.get(id(stores[0]))
        S = None
        plan = None
        used = {n.id for n in ast.walk(fn) if isinstance(n, ast.Name)} | {a.arg for a in fn.args.args}
        # (a) while end < len(s) and P(s[end]): end += 1
        if isinstance(st_, ast.AugAssign) and isinstance(st_.op, ast.Add) and isinstance(st_.value, ast.Constant) and st_.value.value == 1:
            lp = par.get(id(st_))
            if isinstance(lp, ast.While) and lp.body == [st_] and not lp.orelse and isinstance(lp.test, ast.BoolOp) and isinstance(lp.test.op, ast.And) and len(lp.test.values) >= 2:
                t0 = lp.test.values[0]
                if isinstance(t0, ast.Compare) and len(t0.ops) == 1 and isinstance(t0.ops[0], ast.Lt) and isinstance(t0.left, ast.Name) and t0.left.id == E and isinstance(t0.comparators[0], ast.Call) and ast.unparse(t0.comparators[0].func) == "len" and len(t0.comparators[0].args) == 1 and isinstance(t0.comparators[0].args[0], ast.Name):
                    S = t0.comparators[0].args[0].id
                    plan = ("while", lp)
        # (b) for i, ch in enumerate(s): if C: end = i + 1 else: break
        if isinstance(st_, ast.Assign) and isinstance(st_.value, ast.BinOp) and isinstance(st_.value.op, ast.Add):
            iff = par.get(id(st_))
            lp = par.get(id(iff))
            v = st_.value
            one = (isinstance(v.right, ast.Constant) and v.right.value == 1 and isinstance(v.left, ast.Name) and v.left.id) or (isinstance(v.left, ast.Constant) and v.left.value == 1 and isinstance(v.right, ast.Name) and v.right.id)
            if isinstance(iff, ast.If) and iff.body == [st_] and len(iff.orelse) == 1 and isinstance(iff.orelse[0], ast.Break) and isinstance(lp, ast.For) and lp.body == [iff] and not lp.orelse and isinstance(lp.iter, ast.Call) and ast.unparse(lp.iter.func) == "enumerate" and len(lp.iter.args) == 1 and isinstance(lp.iter.args[0], ast.Name) and isinstance(lp.target, ast.Tuple) and len(lp.target.elts) == 2 and all(isinstance(x, ast.Name) for x in lp.target.elts) and one == lp.target.elts[0].id:
                S = lp.iter.args[0].id
                plan = ("for", lp, iff)
        if plan is None or S is None:
            continue
        if any(isinstance(n, ast.Name) and n.id == S and isinstance(n.ctx, ast.Store) for n in ast.walk(fn)):
            continue
        # every read of end: the loop's own test / s[end] inside it, s[:end], s[end:]
        ok = True
        heads, tails, inloop = [], [], []
        for n in loads:
            p = par.get(id(n))
            if any(n is y for y in ast.walk(plan[1].test if plan[0] == "while" else plan[1])):
                inloop.append(n)
                continue
            if isinstance(p, ast.AugAssign):
                continue
            if isinstance(p, ast.Slice) and isinstance(par.get(id(p)), ast.Subscript) and isinstance(par[id(p)].value, ast.Name) and par[id(p)].value.id == S and p.step is None:
                sub = par[id(p)]
                if p.upper is n and p.lower is None:
                    heads.append(sub)
                    continue
                if p.lower is n and p.upper is None:
                    tails.append(sub)
                    continue
            ok = False
        if not ok or not (heads or tails):
            continue
        tok = "token" if "token" not in used else f"{E}_tok"
        if tok in used:
            continue

        def load(nm):
            return ast.Name(id=nm, ctx=ast.Load())

        if plan[0] == "while":
            lp = plan[1]
            ch = "char" if "char" not in used else f"{E}_ch"
            if ch in used:
                continue
            rest = lp.test.values[1:]
            # the remaining conjuncts may mention s[end] only
            bad = False

            class R(ast.NodeTransformer):
                def visit_Subscript(self, n):
                    if isinstance(n.value, ast.Name) and n.value.id == S and isinstance(n.slice, ast.Name) and n.slice.id == E:
                        return ast.copy_location(load(ch), n)
                    return self.generic_visit(n)

            rest = [R().visit(x) for x in rest]
            if any(isinstance(n, ast.Name) and n.id == E for x in rest for n in ast.walk(x)):
                continue
            cond = rest[0] if len(rest) == 1 else ast.BoolOp(op=ast.And(), values=rest)
            acc = ast.AugAssign(target=ast.Name(id=tok, ctx=ast.Store()), op=ast.Add(), value=load(ch))
            new_lp = ast.For(target=ast.Name(id=ch, ctx=ast.Store()), iter=load(S), body=[ast.If(test=cond, body=[acc], orelse=[ast.Break()])], orelse=[], type_comment=None)
            ast.copy_location(new_lp, lp)
            for x in ast.walk(new_lp):
                if not hasattr(x, "lineno"):
                    ast.copy_location(x, lp)
            holder = par.get(id(lp))
            for field in ("body", "orelse", "finalbody"):
                blk = getattr(holder, field, None)
                if isinstance(blk, list) and any(b is lp for b in blk):
                    blk[[k for k, b in enumerate(blk) if b is lp][0]] = new_lp
        else:
            lp, iff = plan[1], plan[2]
            iff.body = [ast.copy_location(ast.AugAssign(target=ast.Name(id=tok, ctx=ast.Store()), op=ast.Add(), value=load(lp.target.elts[1].id)), iff.body[0])]
        z.targets = [ast.Name(id=tok, ctx=ast.Store())]
        z.value = ast.Constant(value="")

        class R2(ast.NodeTransformer):
            def visit_Subscript(self, n):
                if any(n is h for h in heads):
                    return ast.copy_location(load(tok), n)
                if any(n is t for t in tails):
                    n.slice = ast.Slice(lower=ast.Call(func=load("len"), args=[load(tok)], keywords=[]), upper=None, step=None)
                    return n
                return self.generic_visit(n)

        fn.body = [R2().visit(st) for st in fn.body]
        done.append(f"{E}->{tok}")
    if done:
        ast.fix_missing_locations(fn)
        if log is not None:
            log.append(f"prefix-length scanner -> accumulated token {where}:{fn.name} {done}")
    return bool(done)


class _Fold(ast.NodeTransformer):
    """replace loads of NAME by a constant and fold the tests that become decided"""

    def __init__(self, name, const):
        self.name, self.const = name, const

    def _c(self, e):
        """(known, python value) of a folded expression"""
        if isinstance(e, ast.Constant):
            return True, e.value
        return False, None

    def visit_Name(self, n):
        if n.id == self.name and isinstance(n.ctx, ast.Load):
            return ast.copy_location(ast.Constant(value=self.const), n)
        return n

    def visit_FunctionDef(self, n):
        a = n.args
        if self.name in [x.arg for x in a.args + a.kwonlyargs + a.posonlyargs] or (a.vararg and a.vararg.arg == self.name) or (a.kwarg and a.kwarg.arg == self.name):
            return n
        return self.generic_visit(n)

    visit_AsyncFunctionDef = visit_FunctionDef

    def visit_Lambda(self, n):
        if self.name in [x.arg for x in n.args.args]:
            return n
        return self.generic_visit(n)

    def visit_Compare(self, n):
        self.generic_visit(n)
        if len(n.ops) == 1 and isinstance(n.left, ast.Constant) and isinstance(n.comparators[0], ast.Constant) and isinstance(n.ops[0], (ast.Is, ast.IsNot, ast.Eq, ast.NotEq)):
            a, b = n.left.value, n.comparators[0].value
            if isinstance(n.ops[0], (ast.Is, ast.IsNot)) and not (a is None or b is None or isinstance(a, bool) and isinstance(b, bool)):
                return n
            eq = (a is b) if isinstance(n.ops[0], (ast.Is, ast.IsNot)) else (a == b and type(a) is type(b))
            return ast.copy_location(ast.Constant(value=eq if isinstance(n.ops[0], (ast.Is, ast.Eq)) else not eq), n)
        return n

    def visit_UnaryOp(self, n):
        self.generic_visit(n)
        if isinstance(n.op, ast.Not) and isinstance(n.operand, ast.Constant):
            return ast.copy_location(ast.Constant(value=not n.operand.value), n)
        return n

    def visit_BoolOp(self, n):
        self.generic_visit(n)
        vals = list(n.values)
        out = []
        for i, v in enumerate(vals):
            if isinstance(v, ast.Constant):
                t = bool(v.value)
                if isinstance(n.op, ast.Or):
                    if t:
                        out.append(v)
                        break
                    if i == len(vals) - 1:
                        out.append(v)
                    continue
                else:
                    if not t:
                        out.append(v)
                        break
                    if i == len(vals) - 1:
                        out.append(v)
                    continue
            out.append(v)
        if len(out) == 1:
            return out[0]
        n.values = out
        return n

    def visit_IfExp(self, n):
        self.generic_visit(n)
        if isinstance(n.test, ast.Constant):
            return n.body if n.test.value else n.orelse
        return n

    def _block(self, stmts):
        out = []
        for st in stmts:
            r = self.visit(st)
            if r is None:
                continue
            out.extend(r if isinstance(r, list) else [r])
        return out

    def visit_If(self, n):
        n.test = self.visit(n.test)
        n.body = self._block(n.body)
        n.orelse = self._block(n.orelse)
        if isinstance(n.test, ast.Constant):
            keep = n.body if n.test.value else n.orelse
            return keep or None
        if not n.body:
            n.body = [ast.copy_location(ast.Pass(), n)]
        return n

    def visit_While(self, n):
        n.test = self.visit(n.test)
        n.body = self._block(n.body) or [ast.copy_location(ast.Pass(), n)]
        n.orelse = self._block(n.orelse)
        return n

    def visit_For(self, n):
        n.iter = self.visit(n.iter)
        n.body = self._block(n.body) or [ast.copy_location(ast.Pass(), n)]
        n.orelse = self._block(n.orelse)
        return n

    def visit_With(self, n):
        n.items = [self.visit(i) for i in n.items]
        n.body = self._block(n.body) or [ast.copy_location(ast.Pass(), n)]
        return n

    def visit_Try(self, n):
        n.body = self._block(n.body) or [ast.copy_location(ast.Pass(), n)]
        for h in n.handlers:
            h.body = self._block(h.body) or [ast.copy_location(ast.Pass(), h)]
        n.orelse = self._block(n.orelse)
        n.finalbody = self._block(n.finalbody)
        return n


def specialise_new_parameters(modules, known_funcs, log):
    """An optional parameter that a known function has gained, and that no call in the repository passes, has its default
    value on every call the properties speak about: the function is analysed with the parameter bound to the default
    (`def f(a, flag=False)` -> `def f(a)` with `flag` replaced by False and the tests that decides folded;
    `p=None` with `if p is None: p = X` -> p replaced by X)."""
    fps = known_fingerprints()
    # who passes what: calls by simple name
    passed = {}  # simple function name -> [(n positional, set(keywords), has star)]
    for mi in modules.values():
        for c in ast.walk(mi.tree):
            if isinstance(c, ast.Call):
                nm = c.func.id if isinstance(c.func, ast.Name) else c.func.attr if isinstance(c.func, ast.Attribute) else None
                if nm:
                    passed.setdefault(nm, []).append((len(c.args), {k.arg for k in c.keywords}, any(isinstance(a, ast.Starred) for a in c.args) or any(k.arg is None for k in c.keywords), isinstance(c.func, ast.Attribute)))
    for mi in modules.values():
        for q, fn, scope in iter_functions(mi.tree, mi.name):
            K = fps.get(q + "#arity")
            if K is None or q not in known_funcs:
                continue
            a = fn.args
            if a.vararg or a.posonlyargs:
                continue
            extra = a.args[K:]
            n_def = len(a.defaults)
            if len(extra) > n_def:
                continue  # a new parameter without a default: not optional
            new = [(p_, d_) for p_, d_ in zip(extra, a.defaults[n_def - len(extra):])] if extra else []
            new += [(p_, d_) for p_, d_ in zip(a.kwonlyargs, a.kw_defaults) if d_ is not None]
            if not new or len([p_ for p_ in a.kwonlyargs]) != len([d_ for d_ in a.kw_defaults if d_ is not None]):
                continue
            if not all(isinstance(d_, ast.Constant) or (isinstance(d_, ast.UnaryOp) and isinstance(d_.operand, ast.Constant)) for _p, d_ in new):
                continue
            is_method = scope[1] is not None and not any(ast.unparse(d) == "staticmethod" for d in fn.decorator_list)
            names = {p_.arg for p_, _d in new}
            hit = False
            for npos, kws, star, attr_call in passed.get(fn.name, []) + (passed.get(scope[1], []) if fn.name == "__init__" and scope[1] else []):
                limit = K - (1 if is_method and (attr_call or fn.name == "__init__") else 0)
                if star or kws & names or npos > limit:
                    hit = True
            if hit:
                continue
            # the parameter is not re-bound, except by the `if p is None: p = X` idiom at the top level of the body
            ok = True
            plan = []
            for p_, d_ in new:
                nm = p_.arg
                const = d_.value if isinstance(d_, ast.Constant) else -d_.operand.value
                stores = [n for n in ast.walk(fn) if isinstance(n, ast.Name) and n.id == nm and isinstance(n.ctx, ast.Store)]
                idiom = None
                if stores:
                    for st in fn.body:
                        if isinstance(st, ast.If) and not st.orelse and len(st.body) == 1 and isinstance(st.body[0], ast.Assign) and len(st.body[0].targets) == 1 and isinstance(st.body[0].targets[0], ast.Name) and st.body[0].targets[0].id == nm and ast.unparse(st.test) in (f"{nm} is None", f"not {nm}") and const is None:
                            idiom = st
                    if idiom is None or len(stores) != 1 or not isinstance(idiom.body[0].value, (ast.Name, ast.Attribute, ast.Constant)):
                        ok = False
                        break
                    # nothing reads the parameter before the idiom
                    before = fn.body[: fn.body.index(idiom)]
                    if any(isinstance(n, ast.Name) and n.id == nm for st in before for n in ast.walk(st)):
                        ok = False
                        break
                if any(isinstance(n, (ast.Global, ast.Nonlocal)) and nm in n.names for n in ast.walk(fn)):
                    ok = False
                    break
                plan.append((p_, nm, const, idiom))
            if not ok:
                continue
            for p_, nm, const, idiom in plan:
                if idiom is not None:
                    val = idiom.body[0].value
                    fn.body.remove(idiom)
                    if isinstance(val, ast.Constant):
                        fn.body = _Fold(nm, val.value)._block(fn.body) or [ast.Pass()]
                    else:
                        class R(ast.NodeTransformer):
                            def visit_Name(self, n):
                                if n.id == nm and isinstance(n.ctx, ast.Load):
                                    return ast.copy_location(ast.parse(ast.unparse(val), mode="eval").body, n)
                                return n
                        fn.body = [R().visit(st) for st in fn.body]
                else:
                    fn.body = _Fold(nm, const)._block(fn.body) or [ast.Pass()]
                if p_ in a.args:
                    i_ = a.args.index(p_)
                    del a.defaults[i_ - (len(a.args) - len(a.defaults))]
                    a.args.remove(p_)
                else:
                    i_ = a.kwonlyargs.index(p_)
                    del a.kw_defaults[i_]
                    a.kwonlyargs.remove(p_)
                log.append(f"new optional parameter specialised to its default {mi.name}:{fn.name}({nm}={const!r})")
            ast.fix_missing_locations(fn)


_LOG_ROOTS = ("logger", "logging", "log", "_logger", "LOG")
_PURE_CALLS = ("len", "int", "float", "round", "max", "min", "sum", "abs", "str", "repr", "bool", "time.perf_counter", "time.time", "time.monotonic", "time.process_time", "time.perf_counter_ns", "perf_counter", "monotonic", "datetime.now", "datetime.utcnow", "datetime.datetime.now", "timedelta", "datetime.timedelta")


def _is_log_call(c):
    if not isinstance(c, ast.Call):
        return False
    f = c.func
    if isinstance(f, ast.Name) and f.id == "print":
        return True
    if isinstance(f, ast.Attribute) and f.attr in ("debug", "info", "warning", "warn", "error", "exception", "critical", "log"):
        root = f.value
        while isinstance(root, ast.Attribute):
            if root.attr in ("logger", "log", "_logger"):
                return True
            root = root.value
        if isinstance(root, ast.Call) and ast.unparse(root.func).split(".")[-1] in ("getLogger", "getChild"):
            return True
        return isinstance(root, ast.Name) and root.id in _LOG_ROOTS
    return False


def drop_log_only_locals(fn, log=None, where=""):
    """Locals that exist only to be logged (counters, timers, sizes) are not part of the computation:
        n = 0 ... n += 1 ... t0 = time.perf_counter() ... logger.debug("...", n, time.perf_counter() - t0)
    Every read of such a local is an argument of a logging call (or feeds another such local), every write is a plain
    `v = pure` / `v += pure` statement.  The writes are removed; the logging call keeps its text (nothing reads it)."""
    params = {a.arg for a in fn.args.args + fn.args.kwonlyargs + fn.args.posonlyargs} | ({fn.args.vararg.arg} if fn.args.vararg else set()) | ({fn.args.kwarg.arg} if fn.args.kwarg else set())
    par = {}
    for n in ast.walk(fn):
        for c in ast.iter_child_nodes(n):
            par[id(c)] = n
    if any(isinstance(n, (ast.Global, ast.Nonlocal)) for n in ast.walk(fn)):
        return False
    nested = {id(x) for n in ast.walk(fn) if isinstance(n, (ast.FunctionDef, ast.AsyncFunctionDef, ast.Lambda, ast.ClassDef)) and n is not fn for x in ast.walk(n)}
    names = {}
    for n in ast.walk(fn):
        if isinstance(n, ast.Name) and n.id not in params:
            names.setdefault(n.id, []).append(n)

    def pure(e, cand):
        for x in ast.walk(e):
            if isinstance(x, ast.Call):
                if ast.unparse(x.func) in _PURE_CALLS:
                    continue
                if isinstance(x.func, ast.Attribute) and x.func.attr in ("total_seconds", "isoformat", "timestamp") and not x.args:
                    continue
                return False
            if isinstance(x, (ast.Await, ast.Yield, ast.YieldFrom, ast.NamedExpr, ast.Lambda, ast.ListComp, ast.GeneratorExp, ast.DictComp, ast.SetComp, ast.Subscript, ast.Starred)):
                return False
        return True

    def write_stmt(nm):
        """the statement that stores into the Name node, if it is a plain v = e / v += e"""
        p = par.get(id(nm))
        if isinstance(p, ast.Assign) and len(p.targets) == 1 and p.targets[0] is nm:
            return p
        if isinstance(p, ast.AugAssign) and p.target is nm:
            return p
        if isinstance(p, ast.AnnAssign) and p.target is nm and p.value is not None:
            return p
        return None

    cand = set()
    for v, nodes in names.items():
        if any(id(n) in nested for n in nodes):
            continue
        stores = [n for n in nodes if isinstance(n.ctx, ast.Store)]
        if not stores or any(isinstance(n.ctx, ast.Del) for n in nodes):
            continue
        if all(write_stmt(n) is not None for n in stores):
            cand.add(v)
    changed = True
    while changed:
        changed = False
        for v in sorted(cand):
            ok = True
            for n in names[v]:
                if isinstance(n.ctx, ast.Store):
                    st = write_stmt(n)
                    if not pure(st.value, cand):
                        ok = False
                    continue
                # a read: inside a logging call's arguments, or inside the value of a write to a candidate
                cur, fine = n, False
                while cur is not None and cur is not fn:
                    p = par.get(id(cur))
                    if isinstance(p, ast.Call) and _is_log_call(p) and cur is not p.func:
                        fine = True
                        break
                    if isinstance(p, (ast.Assign, ast.AugAssign, ast.AnnAssign)) and cur is p.value:
                        t = p.targets[0] if isinstance(p, ast.Assign) and len(p.targets) == 1 else getattr(p, "target", None)
                        fine = isinstance(t, ast.Name) and t.id in cand
                        break
                    if isinstance(p, ast.stmt):
                        break
                    cur = p
                if not fine:
                    ok = False
            if not ok:
                cand.discard(v)
                changed = True
    # only worth doing for locals that are actually logged somewhere (otherwise they are dead stores of another kind)
    cand = {v for v in cand if any(isinstance(n.ctx, ast.Load) for n in names[v])}
    if not cand:
        return False
    kill = {id(write_stmt(n)) for v in cand for n in names[v] if isinstance(n.ctx, ast.Store)}

    def rec(stmts):
        out = []
        for st in stmts:
            if id(st) in kill:
                continue
            for field in ("body", "orelse", "finalbody"):
                blk = getattr(st, field, None)
                if isinstance(blk, list) and blk and isinstance(blk[0], ast.stmt):
                    nb = rec(blk)
                    if not nb and field == "body":
                        nb = [ast.copy_location(ast.Pass(), st)]
                    setattr(st, field, nb)
            if isinstance(st, ast.Try):
                for h in st.handlers:
                    h.body = rec(h.body) or [ast.copy_location(ast.Pass(), h)]
            out.append(st)
        return out

    fn.body = rec(fn.body) or [ast.Pass()]
    # the logging calls that mention the removed locals keep only their constant text
    class L(ast.NodeTransformer):
        def visit_Call(self, n):
            if _is_log_call(n) and any(isinstance(x, ast.Name) and x.id in cand for x in ast.walk(n)):
                n.args = [a if not any(isinstance(x, ast.Name) and x.id in cand for x in ast.walk(a)) else ast.copy_location(ast.Constant(value="<log-only>"), a) for a in n.args]
                n.keywords = [k for k in n.keywords if not any(isinstance(x, ast.Name) and x.id in cand for x in ast.walk(k.value))]
                return n
            return self.generic_visit(n)

    fn.body = [L().visit(st) for st in fn.body]
    ast.fix_missing_locations(fn)
    if log is not None:
        log.append(f"log-only locals removed {where}:{fn.name} {sorted(cand)}")
    return True


def flag_to_condition(fn, log=None, where=""):
    """A boolean flag that is set in a guarded block and tested right after is the conjunction it stands for:
        f = False
        if G:                       ->   if G and E[a := A]:
            a = A                            ...
            f = E
        if f: ...
    (G and the A's are pure; the locals of the block that are used nowhere else are inlined into E, the others stay in the
    guarded block).  `if not f` becomes `if not (G and E)`."""
    done = []

    def pure(e):
        for x in ast.walk(e):
            if isinstance(x, ast.Call) and not (ast.unparse(x.func) in _PURE_CALLS or (isinstance(x.func, ast.Attribute) and x.func.attr in ("total_seconds", "get", "gap", "intersects", "contains", "startswith", "endswith", "lower", "upper", "strip") )):
                return False
            if isinstance(x, (ast.Await, ast.Yield, ast.YieldFrom, ast.NamedExpr, ast.Lambda)):
                return False
        return True

    counts = {}
    for n in ast.walk(fn):
        if isinstance(n, ast.Name):
            counts.setdefault(n.id, []).append(n)

    def rec(stmts):
        out = list(stmts)
        i = 0
        while i + 2 < len(out) + 0:
            a, b, c = out[i], out[i + 1] if i + 1 < len(out) else None, out[i + 2] if i + 2 < len(out) else None
            hit = False
            if isinstance(a, ast.Assign) and len(a.targets) == 1 and isinstance(a.targets[0], ast.Name) and isinstance(a.value, ast.Constant) and a.value.value is False and isinstance(b, ast.If) and not b.orelse and isinstance(c, ast.If):
                F = a.targets[0].id
                neg = isinstance(c.test, ast.UnaryOp) and isinstance(c.test.op, ast.Not) and isinstance(c.test.operand, ast.Name) and c.test.operand.id == F
                pos = isinstance(c.test, ast.Name) and c.test.id == F
                blk = b.body
                simple = all(isinstance(x, ast.Assign) and len(x.targets) == 1 and isinstance(x.targets[0], ast.Name) and pure(x.value) for x in blk)
                if (pos or neg) and simple and blk and blk[-1].targets[0].id == F and pure(b.test) and sum(1 for x in blk if x.targets[0].id == F) == 1:
                    uses_F = counts.get(F, [])
                    # F: stored twice (False, E), read once (the test)
                    if len([n for n in uses_F if isinstance(n.ctx, ast.Store)]) == 2 and len([n for n in uses_F if isinstance(n.ctx, ast.Load)]) == 1:
                        assigned = {x.targets[0].id for x in blk}
                        g_names = {n.id for n in ast.walk(b.test) if isinstance(n, ast.Name)}
                        if not (assigned & g_names):
                            E = blk[-1].value
                            keep = []
                            env = {}
                            for x in blk[:-1]:
                                nm = x.targets[0].id
                                val = _subst_names(x.value, env)
                                stores = [n for n in counts.get(nm, []) if isinstance(n.ctx, ast.Store)]
                                loads = [n for n in counts.get(nm, []) if isinstance(n.ctx, ast.Load)]
                                inside = [n for n in loads if any(n is y for z in blk for y in ast.walk(z))]
                                if len(stores) == 1 and len(inside) == len(loads):
                                    env[nm] = val
                                else:
                                    x.value = val
                                    keep.append(x)
                            E2 = _subst_names(E, env)
                            vals = [b.test] + (list(E2.values) if isinstance(E2, ast.BoolOp) and isinstance(E2.op, ast.And) else [E2])
                            if isinstance(b.test, ast.BoolOp) and isinstance(b.test.op, ast.And):
                                vals = list(b.test.values) + vals[1:]
                            test = ast.BoolOp(op=ast.And(), values=[ast.parse(ast.unparse(v), mode="eval").body for v in vals])
                            c.test = ast.copy_location(ast.UnaryOp(op=ast.Not(), operand=test) if neg else test, c.test)
                            new = []
                            if keep:
                                b.body = keep
                                new.append(b)
                            new.append(c)
                            out[i : i + 3] = new
                            done.append(F)
                            hit = True
            if not hit:
                i += 1
        for st in out:
            for field in ("body", "orelse", "finalbody"):
                blk = getattr(st, field, None)
                if isinstance(blk, list) and blk and isinstance(blk[0], ast.stmt) and not isinstance(st, (ast.FunctionDef, ast.AsyncFunctionDef, ast.ClassDef)):
                    setattr(st, field, rec(blk))
            if isinstance(st, ast.Try):
                for h in st.handlers:
                    h.body = rec(h.body)
        return out

    fn.body = rec(fn.body)
    if done:
        ast.fix_missing_locations(fn)
        if log is not None:
            log.append(f"flag variable -> condition {where}:{fn.name} {done}")
    return bool(done)


def _subst_names(e, env):
    if not env:
        return e

    class R(ast.NodeTransformer):
        def visit_Name(self, n):
            if isinstance(n.ctx, ast.Load) and n.id in env:
                return ast.copy_location(ast.parse(ast.unparse(env[n.id]), mode="eval").body, n)
            return n

    return R().visit(ast.parse(ast.unparse(e), mode="eval").body)


def filter_loop_to_comprehension(fn, log=None, where=""):
    """A loop that only selects elements into a fresh list is the comprehension:
        acc = []
        for t in xs:                      ->   acc = [E for t in xs if not C1 if C2]
            if C1: continue
            if C2: acc.append(E)          (or a bare acc.append(E) after the guards)
    Only loops with at least one guard; nothing else in the body; `acc = []` directly in front of the loop."""
    done = []

    def pure_test(e):
        return not any(isinstance(x, (ast.NamedExpr, ast.Await, ast.Yield, ast.YieldFrom)) for x in ast.walk(e))

    def rec(stmts):
        out = []
        i = 0
        while i < len(stmts):
            st = stmts[i]
            nxt = stmts[i + 1] if i + 1 < len(stmts) else None
            hit = False
            if isinstance(st, (ast.Assign, ast.AnnAssign)) and isinstance(nxt, ast.For) and not nxt.orelse:
                tg = st.targets[0] if isinstance(st, ast.Assign) and len(st.targets) == 1 else getattr(st, "target", None)
                v = st.value
                empty = (isinstance(v, ast.List) and not v.elts) or (isinstance(v, ast.Call) and isinstance(v.func, ast.Name) and v.func.id == "list" and not v.args and not v.keywords)
                if isinstance(tg, ast.Name) and empty:
                    acc = tg.id
                    conds, elt, ok = [], None, True
                    body = [b for b in nxt.body if not (isinstance(b, ast.Expr) and isinstance(b.value, ast.Constant))]
                    for k, b in enumerate(body):
                        last = k == len(body) - 1
                        if isinstance(b, ast.If) and not b.orelse and len(b.body) == 1 and isinstance(b.body[0], ast.Continue) and not last and pure_test(b.test):
                            conds.append(ast.UnaryOp(op=ast.Not(), operand=b.test))
                            continue
                        app = b
                        if last and isinstance(b, ast.If) and not b.orelse and len(b.body) == 1 and pure_test(b.test):
                            conds.append(b.test)
                            app = b.body[0]
                        if last and isinstance(app, ast.Expr) and isinstance(app.value, ast.Call) and isinstance(app.value.func, ast.Attribute) and app.value.func.attr == "append" and isinstance(app.value.func.value, ast.Name) and app.value.func.value.id == acc and len(app.value.args) == 1 and not app.value.keywords:
                            elt = app.value.args[0]
                        else:
                            ok = False
                        break
                    uses_acc = sum(1 for x in ast.walk(nxt) if isinstance(x, ast.Name) and x.id == acc)
                    if ok and elt is not None and conds and uses_acc == 1 and not any(isinstance(x, (ast.Break, ast.Return)) for x in ast.walk(nxt)):
                        comp = ast.ListComp(elt=elt, generators=[ast.comprehension(target=nxt.target, iter=nxt.iter, ifs=[_push_not(c) for c in conds], is_async=0)])
                        new = ast.Assign(targets=[ast.Name(id=acc, ctx=ast.Store())], value=comp)
                        ast.copy_location(new, nxt)
                        ast.copy_location(comp, nxt)
                        out.append(new)
                        done.append(acc)
                        i += 2
                        hit = True
            if not hit:
                for field in ("body", "orelse", "finalbody"):
                    blk = getattr(st, field, None)
                    if isinstance(blk, list) and blk and isinstance(blk[0], ast.stmt) and not isinstance(st, (ast.FunctionDef, ast.AsyncFunctionDef, ast.ClassDef)):
                        setattr(st, field, rec(blk))
                if isinstance(st, ast.Try):
                    for h in st.handlers:
                        h.body = rec(h.body)
                out.append(st)
                i += 1
        return out

    fn.body = rec(fn.body)
    if done:
        ast.fix_missing_locations(fn)
        if log is not None:
            log.append(f"selecting loop -> comprehension {where}:{fn.name} {done}")
    return bool(done)


def _push_not(e):
    """not (a is None) -> a is not None, not (not a) -> a, not (a == b) -> a != b ..."""
    if isinstance(e, ast.UnaryOp) and isinstance(e.op, ast.Not):
        x = e.operand
        if isinstance(x, ast.UnaryOp) and isinstance(x.op, ast.Not):
            return x.operand
        if isinstance(x, ast.Compare) and len(x.ops) == 1:
            flip = {ast.Is: ast.IsNot, ast.IsNot: ast.Is, ast.Eq: ast.NotEq, ast.NotEq: ast.Eq, ast.In: ast.NotIn, ast.NotIn: ast.In, ast.Lt: ast.GtE, ast.GtE: ast.Lt, ast.Gt: ast.LtE, ast.LtE: ast.Gt}
            t = type(x.ops[0])
            if t in (ast.Is, ast.IsNot, ast.Eq, ast.NotEq, ast.In, ast.NotIn):
                return ast.copy_location(ast.Compare(left=x.left, ops=[flip[t]()], comparators=x.comparators), x)
    return e


def keywords_to_positional(modules, log):
    """obj.method(a=x, b=y) for a method of the packages whose REQUIRED parameters are (a, b, ...) in every class that defines
    it is obj.method(x, y): required parameters are written positionally (the form the rules read); optional ones stay keywords."""
    sigs = {}
    for mi in modules.values():
        for st in mi.tree.body:
            if isinstance(st, ast.ClassDef):
                for c in st.body:
                    if isinstance(c, (ast.FunctionDef, ast.AsyncFunctionDef)) and not c.name.startswith("__"):
                        a = c.args
                        if a.posonlyargs or a.vararg:
                            sigs.setdefault(c.name, []).append(None)
                            continue
                        names = [x.arg for x in a.args]
                        if names and names[0] in ("self", "cls") and not any(ast.unparse(d) == "staticmethod" for d in c.decorator_list):
                            names = names[1:]
                        req = names[: len(names) - len(a.defaults)] if a.defaults else names
                        sigs.setdefault(c.name, []).append((tuple(req), frozenset(names + [x.arg for x in a.kwonlyargs]), a.kwarg is not None))
    # module-level functions of the packages, called by their bare name (or module.name)
    fsigs = {}
    for mi in modules.values():
        for st in mi.tree.body:
            if isinstance(st, (ast.FunctionDef, ast.AsyncFunctionDef)):
                a = st.args
                if a.posonlyargs or a.vararg:
                    fsigs.setdefault(st.name, []).append(None)
                    continue
                names = [x.arg for x in a.args]
                req = names[: len(names) - len(a.defaults)] if a.defaults else names
                fsigs.setdefault(st.name, []).append((tuple(req), frozenset(names + [x.arg for x in a.kwonlyargs]), a.kwarg is not None))
    STD = {"re.compile": (("pattern",), frozenset(("pattern", "flags")), False), "re.search": (("pattern", "string"), frozenset(("pattern", "string", "flags")), False), "re.match": (("pattern", "string"), frozenset(("pattern", "string", "flags")), False), "json.dumps": (("obj",), frozenset(("obj",)), True), "json.loads": (("s",), frozenset(("s",)), True), "copy.deepcopy": (("x",), frozenset(("x", "memo")), False), "deepcopy": (("x",), frozenset(("x", "memo")), False), "sorted": (("iterable",), frozenset(("iterable",)), True), "Timeslot": (("start", "end"), frozenset(("start", "end")), False)}
    for mi in modules.values():
        for c in ast.walk(mi.tree):
            if not (isinstance(c, ast.Call) and c.keywords and not any(isinstance(a_, ast.Starred) for a_ in c.args) and not any(k.arg is None for k in c.keywords)):
                continue
            dn = ast.unparse(c.func) if isinstance(c.func, (ast.Name, ast.Attribute)) else None
            cand = None
            if dn in STD:
                cand = [STD[dn]]
            elif isinstance(c.func, ast.Name) and c.func.id in fsigs and None not in fsigs[c.func.id]:
                cand = fsigs[c.func.id]
            if not cand:
                continue
            kw = {k.arg: k for k in c.keywords}
            fits = {sg[0] for sg in cand if (set(kw) <= sg[1] or sg[2]) and set(kw) & set(sg[0])}
            if len(fits) != 1:
                continue
            req = next(iter(fits))
            moved, i = [], len(c.args)
            while i < len(req) and req[i] in kw:
                moved.append(kw[req[i]])
                i += 1
            if not moved or any(k.arg in req and k not in moved for k in c.keywords):
                continue
            # optional parameters that directly follow, in order, are moved too when the rules know them positionally (re.compile(p, flags))
            c.args = list(c.args) + [k.value for k in moved]
            c.keywords = [k for k in c.keywords if k not in moved]
            if dn in ("re.compile", "re.search", "re.match") and len(c.keywords) == 1 and c.keywords[0].arg == "flags" and len(c.args) == len(req):
                c.args.append(c.keywords[0].value)
                c.keywords = []
            log.append(f"keyword arguments of required parameters written positionally {mi.name}:{c.lineno} {dn}({', '.join(k.arg for k in moved)})")
    for mi in modules.values():
        for c in ast.walk(mi.tree):
            if not (isinstance(c, ast.Call) and isinstance(c.func, ast.Attribute) and c.func.attr in sigs and c.keywords):
                continue
            if None in sigs[c.func.attr]:
                continue
            if any(isinstance(a_, ast.Starred) for a_ in c.args) or any(k.arg is None for k in c.keywords):
                continue
            kw = {k.arg: k for k in c.keywords}
            # the definitions this call can be addressed to: those that know every keyword it uses
            fits = {sg[0] for sg in sigs[c.func.attr] if set(kw) <= sg[1] and not sg[2]}
            if len(fits) != 1:
                continue
            req = next(iter(fits))
            if not req:
                continue
            if not (set(kw) & set(req)) or len(c.args) > len(req):
                continue
            moved = []
            i = len(c.args)
            while i < len(req) and req[i] in kw:
                moved.append(kw[req[i]])
                i += 1
            # every required parameter given by keyword must be movable (a contiguous run right after the positionals)
            if not moved or any(k.arg in req and k not in moved for k in c.keywords):
                continue
            c.args = list(c.args) + [k.value for k in moved]
            c.keywords = [k for k in c.keywords if k not in moved]
            log.append(f"keyword arguments of required parameters written positionally {mi.name}:{c.lineno} .{c.func.attr}({', '.join(k.arg for k in moved)})")


def enumerate_start_to_counter(fn, log=None, where=""):
    """for i, x in enumerate(xs, start=i + 1): BODY   ->   for x in xs: i += 1; BODY
    (also start=K when the statement in front of the loop is `i = K - 1`): the counter keeps the same values, also after the
    loop and when the loop body never runs."""
    done = []

    def rec(stmts):
        for k, st in enumerate(stmts):
            for field in ("body", "orelse", "finalbody"):
                blk = getattr(st, field, None)
                if isinstance(blk, list) and blk and isinstance(blk[0], ast.stmt) and not isinstance(st, (ast.FunctionDef, ast.AsyncFunctionDef, ast.ClassDef)):
                    rec(blk)
            if isinstance(st, ast.Try):
                for h in st.handlers:
                    rec(h.body)
            if not (isinstance(st, ast.For) and isinstance(st.target, ast.Tuple) and len(st.target.elts) == 2 and isinstance(st.target.elts[0], ast.Name) and isinstance(st.iter, ast.Call) and isinstance(st.iter.func, ast.Name) and st.iter.func.id == "enumerate" and st.iter.args):
                continue
            c = st.iter
            start = c.args[1] if len(c.args) == 2 else next((kw.value for kw in c.keywords if kw.arg == "start"), None)
            if start is None or len(c.args) > 2 or any(kw.arg != "start" for kw in c.keywords):
                continue
            I = st.target.elts[0].id
            ok = False
            if isinstance(start, ast.BinOp) and isinstance(start.op, ast.Add) and isinstance(start.left, ast.Name) and start.left.id == I and isinstance(start.right, ast.Constant) and start.right.value == 1:
                ok = True
            elif isinstance(start, ast.Constant) and isinstance(start.value, int) and k > 0:
                # the nearest statement in front of the loop (same block) that binds the counter
                for prev in reversed(stmts[:k]):
                    if any(isinstance(n, ast.Name) and n.id == I and isinstance(n.ctx, ast.Store) for n in ast.walk(prev)):
                        ok = isinstance(prev, ast.Assign) and len(prev.targets) == 1 and isinstance(prev.targets[0], ast.Name) and prev.targets[0].id == I and isinstance(prev.value, ast.Constant) and prev.value.value == start.value - 1
                        break
                    if isinstance(prev, (ast.For, ast.While, ast.If, ast.Try, ast.With)):
                        break
            if not ok:
                continue
            # the counter must not be re-bound inside the body (enumerate would overwrite it at the next round)
            if any(isinstance(n, ast.Name) and n.id == I and isinstance(n.ctx, ast.Store) for b in st.body for n in ast.walk(b)):
                continue
            st.iter = c.args[0]
            st.target = st.target.elts[1]
            bump = ast.AugAssign(target=ast.Name(id=I, ctx=ast.Store()), op=ast.Add(), value=ast.Constant(value=1))
            ast.copy_location(bump, st.body[0])
            st.body.insert(0, bump)
            done.append(I)

    rec(fn.body)
    if done:
        ast.fix_missing_locations(fn)
        if log is not None:
            log.append(f"enumerate(start=...) -> counter {where}:{fn.name} {done}")
    return bool(done)


def dict_items_to_pairs(fn, log=None, where=""):
    """A local dict that is only ever walked through .items() is the list of its (key, value) pairs:
        d = {"a": x, "b": y}                          ->  d = [("a", x), ("b", y)]
        s = {k: v for k, v in d.items() if v ...}     ->  s = [(k, v) for k, v in d if v ...]
        f(*s.items()) / for k, v in s.items()         ->  s
    (distinct constant keys; iteration order is insertion order either way)."""
    par = {}
    for n in ast.walk(fn):
        for c in ast.iter_child_nodes(n):
            par[id(c)] = n
    done = []
    changed = True
    rounds = 0
    while changed and rounds < 4:
        changed = False
        rounds += 1
        for st in [x for x in ast.walk(fn) if isinstance(x, (ast.Assign, ast.AnnAssign))]:
            tg = st.targets[0] if isinstance(st, ast.Assign) and len(st.targets) == 1 else getattr(st, "target", None)
            v = st.value
            if not isinstance(tg, ast.Name) or v is None:
                continue
            name = tg.id
            lit = isinstance(v, ast.Dict) and v.keys and all(isinstance(k, ast.Constant) for k in v.keys) and len({k.value for k in v.keys}) == len(v.keys)
            comp = isinstance(v, ast.DictComp) and len(v.generators) == 1 and isinstance(v.generators[0].target, ast.Tuple) and len(v.generators[0].target.elts) == 2 and all(isinstance(t, ast.Name) for t in v.generators[0].target.elts) and isinstance(v.key, ast.Name) and isinstance(v.value, ast.Name) and [v.key.id, v.value.id] == [t.id for t in v.generators[0].target.elts] and isinstance(v.generators[0].iter, ast.Name)
            if not (lit or comp):
                continue
            uses = [n for n in ast.walk(fn) if isinstance(n, ast.Name) and n.id == name and n is not tg]
            if not uses or any(isinstance(n.ctx, ast.Store) for n in uses):
                continue
            ok = True
            for n in uses:
                p = par.get(id(n))
                pp = par.get(id(p)) if p is not None else None
                if not (isinstance(p, ast.Attribute) and p.attr == "items" and isinstance(pp, ast.Call) and pp.func is p and not pp.args):
                    ok = False
            if not ok:
                continue
            if lit:
                st.value = ast.copy_location(ast.List(elts=[ast.Tuple(elts=[k, x], ctx=ast.Load()) for k, x in zip(v.keys, v.values)], ctx=ast.Load()), v)
            else:
                g = v.generators[0]
                st.value = ast.copy_location(ast.ListComp(elt=ast.Tuple(elts=[ast.Name(id=v.key.id, ctx=ast.Load()), ast.Name(id=v.value.id, ctx=ast.Load())], ctx=ast.Load()), generators=[g]), v)
            if isinstance(st, ast.AnnAssign):
                st.annotation = ast.Name(id="list", ctx=ast.Load())

            class R(ast.NodeTransformer):
                def visit_Call(self, c):
                    self.generic_visit(c)
                    if isinstance(c.func, ast.Attribute) and c.func.attr == "items" and isinstance(c.func.value, ast.Name) and c.func.value.id == name and not c.args:
                        return ast.copy_location(ast.Name(id=name, ctx=ast.Load()), c)
                    return c

            fn.body = [R().visit(b) for b in fn.body]
            ast.fix_missing_locations(fn)
            par = {}
            for n in ast.walk(fn):
                for c in ast.iter_child_nodes(n):
                    par[id(c)] = n
            done.append(name)
            changed = True
            break
    if done and log is not None:
        log.append(f"dict walked only through .items() -> list of pairs {where}:{fn.name} {done}")
    return bool(done)


def scan_to_extremum(fn, log=None, where=""):
    """A hand-written scan for the greatest / least element is the library call it spells out:
        best = xs[0]
        for x in xs[1:]:                    ->   best = sorted(xs, key=lambda e: e.K)[-1]    (>=: the last of equal keys)
            if x.K >= best.K: best = x           best = max(xs, key=lambda e: e.K)           (>:  the first of equal keys)
    (<= / < likewise with [0] / min).  Both raise IndexError / ValueError on an empty list."""
    done = []

    def keyof(e, var):
        """e is var.K / var["K"] -> K"""
        if isinstance(e, ast.Attribute) and isinstance(e.value, ast.Name) and e.value.id == var:
            return ("attr", e.attr)
        if isinstance(e, ast.Subscript) and isinstance(e.value, ast.Name) and e.value.id == var and isinstance(e.slice, ast.Constant):
            return ("item", e.slice.value)
        return None

    def rec(stmts):
        out = []
        i = 0
        while i < len(stmts):
            a = stmts[i]
            b = stmts[i + 1] if i + 1 < len(stmts) else None
            hit = False
            if isinstance(a, ast.Assign) and len(a.targets) == 1 and isinstance(a.targets[0], ast.Name) and isinstance(a.value, ast.Subscript) and isinstance(a.value.slice, ast.Constant) and a.value.slice.value == 0 and isinstance(b, ast.For) and not b.orelse and isinstance(b.target, ast.Name) and len(b.body) == 1 and isinstance(b.body[0], ast.If) and not b.body[0].orelse and len(b.body[0].body) == 1:
                B, S = a.targets[0].id, ast.unparse(a.value.value)
                it = b.iter
                over = ast.unparse(it.value) if isinstance(it, ast.Subscript) and isinstance(it.slice, ast.Slice) and it.slice.upper is None and it.slice.step is None and isinstance(it.slice.lower, ast.Constant) and it.slice.lower.value == 1 else ast.unparse(it)
                x = b.target.id
                iff = b.body[0]
                asg = iff.body[0]
                t = iff.test
                if over == S and isinstance(asg, ast.Assign) and len(asg.targets) == 1 and isinstance(asg.targets[0], ast.Name) and asg.targets[0].id == B and isinstance(asg.value, ast.Name) and asg.value.id == x and isinstance(t, ast.Compare) and len(t.ops) == 1:
                    l, r, op = t.left, t.comparators[0], t.ops[0]
                    kx, kb = keyof(l, x), keyof(r, B)
                    if kx is None:
                        kx, kb = keyof(r, x), keyof(l, B)
                        op = {ast.Lt: ast.Gt, ast.Gt: ast.Lt, ast.LtE: ast.GtE, ast.GtE: ast.LtE}.get(type(op), type(None))()
                    if kx is not None and kx == kb and isinstance(op, (ast.Gt, ast.GtE, ast.Lt, ast.LtE)):
                        kexpr = f"e.{kx[1]}" if kx[0] == "attr" else f"e[{kx[1]!r}]"
                        if isinstance(op, ast.GtE):
                            txt = f"sorted({S}, key=lambda e: {kexpr})[-1]"
                        elif isinstance(op, ast.Gt):
                            txt = f"max({S}, key=lambda e: {kexpr})"
                        elif isinstance(op, ast.Lt):
                            txt = f"min({S}, key=lambda e: {kexpr})"
                        else:
                            txt = f"sorted({S}, key=lambda e: {kexpr}, reverse=True)[-1]"
                        new = ast.parse(f"{B} = {txt}").body[0]
                        ast.copy_location(new, a)
                        for z in ast.walk(new):
                            ast.copy_location(z, a)
                        out.append(new)
                        done.append(B)
                        i += 2
                        hit = True
            if not hit:
                for field in ("body", "orelse", "finalbody"):
                    blk = getattr(a, field, None)
                    if isinstance(blk, list) and blk and isinstance(blk[0], ast.stmt) and not isinstance(a, (ast.FunctionDef, ast.AsyncFunctionDef, ast.ClassDef)):
                        setattr(a, field, rec(blk))
                if isinstance(a, ast.Try):
                    for h in a.handlers:
                        h.body = rec(h.body)
                out.append(a)
                i += 1
        return out

    fn.body = rec(fn.body)
    if done:
        ast.fix_missing_locations(fn)
        if log is not None:
            log.append(f"extremum scan -> sorted()/max()/min() {where}:{fn.name} {done}")
    return bool(done)


def eafp_to_lbyl(fn, log=None, where=""):
    """try: x = d[k] / return d[k] ... except KeyError: <raise E>     ->     if k not in d: <raise E> ; x = d[k]
    for a plain mapping d reached through self / a name (the membership test has no effect of its own); the handler does not
    use the exception object and ends in a raise of its own."""
    done = []

    def rec(stmts):
        out = []
        for st in stmts:
            for field in ("body", "orelse", "finalbody"):
                blk = getattr(st, field, None)
                if isinstance(blk, list) and blk and isinstance(blk[0], ast.stmt) and not isinstance(st, (ast.FunctionDef, ast.AsyncFunctionDef, ast.ClassDef)):
                    setattr(st, field, rec(blk))
            if isinstance(st, ast.Try):
                for h in st.handlers:
                    h.body = rec(h.body)
            if isinstance(st, ast.Try) and len(st.body) == 1 and len(st.handlers) == 1 and not st.orelse and not st.finalbody and isinstance(st.body[0], (ast.Assign, ast.Return, ast.AnnAssign)):
                h = st.handlers[0]
                hn = ast.unparse(h.type) if h.type is not None else ""
                last = h.body[-1] if h.body else None
                subs = [x for x in ast.walk(st.body[0]) if isinstance(x, ast.Subscript) and isinstance(x.ctx, ast.Load) and not isinstance(x.slice, ast.Slice)]
                calls = [x for x in ast.walk(st.body[0]) if isinstance(x, ast.Call)]
                if hn == "KeyError" and h.name is None and isinstance(last, ast.Raise) and last.exc is not None and len(subs) == 1 and not calls and isinstance(subs[0].value, (ast.Name, ast.Attribute)) and isinstance(subs[0].slice, (ast.Name, ast.Constant, ast.Attribute)):
                    test = ast.Compare(left=subs[0].slice, ops=[ast.NotIn()], comparators=[subs[0].value])
                    last.cause = None
                    guard = ast.If(test=test, body=h.body, orelse=[])
                    ast.copy_location(guard, st)
                    ast.copy_location(test, st)
                    out += [guard, st.body[0]]
                    done.append(ast.unparse(subs[0]))
                    continue
            out.append(st)
        return out

    fn.body = rec(fn.body)
    if done:
        ast.fix_missing_locations(fn)
        if log is not None:
            log.append(f"try/except KeyError -> membership test {where}:{fn.name} {done}")
    return bool(done)


def first_match_to_loop(fn, log=None, where=""):
    """g = (E for x in xs if C) ; f = next(g, D)      ->      f = D ; for x in xs: if C: f = E ; break
    (g is used nowhere else; also next((E for x in xs if C), D) written in one piece)."""
    done = []
    uses = {}
    for n in ast.walk(fn):
        if isinstance(n, ast.Name):
            uses.setdefault(n.id, []).append(n)

    def gen_of(e, stmts, k):
        """the generator expression next() is applied to, and the statement that bound it (to be dropped)"""
        if isinstance(e, ast.GeneratorExp):
            return e, None
        if isinstance(e, ast.Name) and len(uses.get(e.id, [])) == 2:
            for prev in stmts[:k]:
                if isinstance(prev, ast.Assign) and len(prev.targets) == 1 and isinstance(prev.targets[0], ast.Name) and prev.targets[0].id == e.id and isinstance(prev.value, ast.GeneratorExp):
                    return prev.value, prev
        return None, None

    def rec(stmts):
        stmts = list(stmts)
        k = 0
        while k < len(stmts):
            st = stmts[k]
            for field in ("body", "orelse", "finalbody"):
                blk = getattr(st, field, None)
                if isinstance(blk, list) and blk and isinstance(blk[0], ast.stmt) and not isinstance(st, (ast.FunctionDef, ast.AsyncFunctionDef, ast.ClassDef)):
                    setattr(st, field, rec(blk))
            if isinstance(st, ast.Try):
                for h in st.handlers:
                    h.body = rec(h.body)
            if isinstance(st, ast.Assign) and len(st.targets) == 1 and isinstance(st.targets[0], ast.Name) and isinstance(st.value, ast.Call) and isinstance(st.value.func, ast.Name) and st.value.func.id == "next" and len(st.value.args) == 2 and not st.value.keywords:
                g, binder = gen_of(st.value.args[0], stmts, k)
                if g is not None and len(g.generators) == 1 and not g.generators[0].is_async:
                    gen = g.generators[0]
                    F = st.targets[0].id
                    init = ast.Assign(targets=[ast.Name(id=F, ctx=ast.Store())], value=st.value.args[1])
                    hitb = [ast.Assign(targets=[ast.Name(id=F, ctx=ast.Store())], value=g.elt), ast.Break()]
                    body = hitb
                    if gen.ifs:
                        cond = gen.ifs[0] if len(gen.ifs) == 1 else ast.BoolOp(op=ast.And(), values=list(gen.ifs))
                        body = [ast.If(test=cond, body=hitb, orelse=[])]
                    loop = ast.For(target=gen.target, iter=gen.iter, body=body, orelse=[], type_comment=None)
                    for x in (init, loop):
                        ast.copy_location(x, st)
                        for z in ast.walk(x):
                            if not hasattr(z, "lineno"):
                                ast.copy_location(z, st)
                    for z in ast.walk(gen.target):
                        if isinstance(z, ast.Name):
                            z.ctx = ast.Store()
                    new = [init, loop]
                    if binder is not None:
                        stmts.remove(binder)
                        k -= 1
                    stmts[k : k + 1] = new
                    done.append(F)
                    k += 2
                    continue
            k += 1
        return stmts

    fn.body = rec(fn.body)
    if done:
        ast.fix_missing_locations(fn)
        if log is not None:
            log.append(f"next(generator, default) -> first-match loop {where}:{fn.name} {done}")
    return bool(done)


def last_alias_to_index(fn, log=None, where=""):
    """A local that always holds the element appended last to a list IS that list's last element:
        last = None ... last = E ; acc.append(last)     (every binding of `last`, every append to `acc`)
        last is not None  ->  len(acc) > 0        last is None  ->  len(acc) == 0        last.x  ->  acc[-1].x"""
    par = {}
    for n in ast.walk(fn):
        for c in ast.iter_child_nodes(n):
            par[id(c)] = n
    done = []
    inits = [st for st in fn.body if isinstance(st, (ast.Assign, ast.AnnAssign)) and isinstance(getattr(st, "value", None), ast.Constant) and st.value.value is None and isinstance(st.targets[0] if isinstance(st, ast.Assign) and len(st.targets) == 1 else getattr(st, "target", None), ast.Name)]
    for init in inits:
        L = (init.targets[0] if isinstance(init, ast.Assign) else init.target).id
        stores = [n for n in ast.walk(fn) if isinstance(n, ast.Name) and n.id == L and isinstance(n.ctx, ast.Store) and par.get(id(n)) is not init]
        if not stores:
            continue
        acc = None
        pairs = []
        ok = True
        for sn in stores:
            asg = par.get(id(sn))
            blk_owner = par.get(id(asg))
            if not (isinstance(asg, ast.Assign) and len(asg.targets) == 1 and asg.targets[0] is sn):
                ok = False
                break
            nxt = None
            for field in ("body", "orelse", "finalbody"):
                blk = getattr(blk_owner, field, None)
                if isinstance(blk, list) and any(b is asg for b in blk):
                    i_ = [k for k, b in enumerate(blk) if b is asg][0]
                    nxt = blk[i_ + 1] if i_ + 1 < len(blk) else None
            if not (isinstance(nxt, ast.Expr) and isinstance(nxt.value, ast.Call) and isinstance(nxt.value.func, ast.Attribute) and nxt.value.func.attr == "append" and isinstance(nxt.value.func.value, ast.Name) and len(nxt.value.args) == 1 and isinstance(nxt.value.args[0], ast.Name) and nxt.value.args[0].id == L):
                ok = False
                break
            a_ = nxt.value.func.value.id
            if acc not in (None, a_):
                ok = False
                break
            acc = a_
            pairs.append((asg, nxt))
        if not ok or acc is None:
            continue
        # the list starts empty, is only appended to, and only with `last`
        acc_defs = [st for st in fn.body if isinstance(st, (ast.Assign, ast.AnnAssign)) and isinstance(st.targets[0] if isinstance(st, ast.Assign) and len(st.targets) == 1 else getattr(st, "target", None), ast.Name) and (st.targets[0] if isinstance(st, ast.Assign) else st.target).id == acc]
        if len(acc_defs) != 1 or not (isinstance(acc_defs[0].value, ast.List) and not acc_defs[0].value.elts):
            continue
        bad = False
        for n in ast.walk(fn):
            if isinstance(n, ast.Name) and n.id == acc:
                p = par.get(id(n))
                if isinstance(n.ctx, ast.Store) and par.get(id(n)) is not acc_defs[0]:
                    bad = True
                if isinstance(p, ast.Attribute) and p.attr in ("append", "extend", "insert", "pop", "remove", "clear", "sort", "reverse") and not any(p is pr[1].value.func for pr in pairs):
                    bad = True
                if isinstance(p, ast.Subscript) and isinstance(p.ctx, (ast.Store, ast.Del)):
                    bad = True
        if bad:
            continue
        protected = {id(x) for asg, app in pairs for x in list(ast.walk(asg.targets[0])) + list(ast.walk(app))}

        def acc_last():
            return ast.Subscript(value=ast.Name(id=acc, ctx=ast.Load()), slice=ast.UnaryOp(op=ast.USub(), operand=ast.Constant(value=1)), ctx=ast.Load())

        def acc_len(op, k):
            return ast.Compare(left=ast.Call(func=ast.Name(id="len", ctx=ast.Load()), args=[ast.Name(id=acc, ctx=ast.Load())], keywords=[]), ops=[op], comparators=[ast.Constant(value=k)])

        class R(ast.NodeTransformer):
            def visit_Compare(self, n):
                if len(n.ops) == 1 and isinstance(n.left, ast.Name) and n.left.id == L and isinstance(n.comparators[0], ast.Constant) and n.comparators[0].value is None and isinstance(n.ops[0], (ast.Is, ast.IsNot)):
                    return ast.copy_location(acc_len(ast.Gt() if isinstance(n.ops[0], ast.IsNot) else ast.Eq(), 0), n)
                return self.generic_visit(n)

            def visit_Name(self, n):
                if n.id == L and isinstance(n.ctx, ast.Load) and id(n) not in protected:
                    return ast.copy_location(acc_last(), n)
                return n

        fn.body = [R().visit(st) for st in fn.body if st is not init]
        done.append(f"{L}->{acc}[-1]")
        ast.fix_missing_locations(fn)
        break
    if done and log is not None:
        log.append(f"last-appended alias -> list[-1] {where}:{fn.name} {done}")
    return bool(done)


def work_then_continue_to_else(fn, log=None, where=""):
    """for ...: if C: WORK ; continue ; REST      ->      for ...: if C: WORK else: REST
    (only when the branch does something besides `continue`: a bare guard stays a guard)."""
    done = []
    for lp in [n for n in ast.walk(fn) if isinstance(n, (ast.For, ast.While))]:
        body = lp.body
        for k, st in enumerate(body):
            # (a branch that only logs before `continue` is still a bare guard)
            only_logs = all(isinstance(b, ast.Expr) and isinstance(b.value, ast.Call) and _is_log_call(b.value) for b in st.body[:-1]) if isinstance(st, ast.If) else False
            if isinstance(st, ast.If) and not only_logs and not st.orelse and len(st.body) >= 2 and isinstance(st.body[-1], ast.Continue) and k + 1 < len(body) and not any(isinstance(x, ast.Continue) for b in st.body[:-1] for x in ast.walk(b)):
                rest = body[k + 1 :]
                st.body = st.body[:-1]
                st.orelse = rest
                lp.body = body[: k + 1]
                done.append(st.lineno)
                break
    if done:
        ast.fix_missing_locations(fn)
        if log is not None:
            log.append(f"work-then-continue -> if/else {where}:{fn.name} lines {done}")
    return bool(done)


def truth_alias(fn, log=None, where=""):
    """f = bool(x) (bound once; x a name that is not re-bound) and f only ever tested for truth  ->  the tests read x"""
    par = {}
    for n in ast.walk(fn):
        for c in ast.iter_child_nodes(n):
            par[id(c)] = n
    done = []
    for st in [x for x in ast.walk(fn) if isinstance(x, ast.Assign)]:
        if not (len(st.targets) == 1 and isinstance(st.targets[0], ast.Name) and isinstance(st.value, ast.Call) and isinstance(st.value.func, ast.Name) and st.value.func.id == "bool" and len(st.value.args) == 1 and isinstance(st.value.args[0], ast.Name) and not st.value.keywords):
            continue
        F, X = st.targets[0].id, st.value.args[0].id
        f_nodes = [n for n in ast.walk(fn) if isinstance(n, ast.Name) and n.id == F]
        x_stores = [n for n in ast.walk(fn) if isinstance(n, ast.Name) and n.id == X and isinstance(n.ctx, ast.Store)]
        if len([n for n in f_nodes if isinstance(n.ctx, ast.Store)]) != 1 or len(x_stores) > 1:
            continue
        ok = True
        for n in f_nodes:
            if isinstance(n.ctx, ast.Store):
                continue
            p = par.get(id(n))
            in_test = (isinstance(p, (ast.If, ast.While, ast.IfExp)) and p.test is n) or (isinstance(p, ast.UnaryOp) and isinstance(p.op, ast.Not)) or isinstance(p, ast.BoolOp)
            if isinstance(p, ast.BoolOp):
                # the value of `a and f` may be f itself: only when the BoolOp is itself a test
                pp = par.get(id(p))
                in_test = (isinstance(pp, (ast.If, ast.While, ast.IfExp)) and pp.test is p) or (isinstance(pp, ast.UnaryOp) and isinstance(pp.op, ast.Not))
            if not in_test:
                ok = False
        if not ok:
            continue
        for n in f_nodes:
            if isinstance(n.ctx, ast.Load):
                n.id = X
        holder = par.get(id(st))
        for field in ("body", "orelse", "finalbody"):
            blk = getattr(holder, field, None)
            if isinstance(blk, list) and any(b is st for b in blk):
                blk.remove(st)
                if not blk and field == "body":
                    blk.append(ast.copy_location(ast.Pass(), st))
        done.append(f"{F}->{X}")
    if done and log is not None:
        log.append(f"truth alias removed {where}:{fn.name} {done}")
    return bool(done)


def canonical_imports(modules, log):
    """`from peewee import fn` ... `fn.julianday(x)`  ->  `peewee.fn.julianday(x)` (the spelling the rules read), when the module
    does not bind `peewee` to something else; likewise `from datetime import datetime as dt`-style aliases are left alone."""
    for mi in modules.values():
        tree = mi.tree
        has_peewee = any(isinstance(st, ast.Import) and any(a.name == "peewee" and a.asname is None for a in st.names) for st in tree.body)
        names = {}
        for st in tree.body:
            if isinstance(st, ast.ImportFrom) and st.module == "peewee" and st.level == 0:
                for a in st.names:
                    if a.name in ("fn", "DoesNotExist", "IntegrityError", "OperationalError") and a.asname is None:
                        names[a.name] = st
        if not names:
            continue
        if any(isinstance(n, ast.Name) and n.id in names and isinstance(n.ctx, ast.Store) for n in ast.walk(tree)):
            continue

        class R(ast.NodeTransformer):
            def visit_Name(self, n):
                if n.id in names and isinstance(n.ctx, ast.Load):
                    return ast.copy_location(ast.Attribute(value=ast.Name(id="peewee", ctx=ast.Load()), attr=n.id, ctx=ast.Load()), n)
                return n

        mi.tree = R().visit(tree)
        if not has_peewee:
            imp = ast.Import(names=[ast.alias(name="peewee", asname=None)])
            ast.copy_location(imp, tree.body[0])
            mi.tree.body.insert(0, imp)
        ast.fix_missing_locations(mi.tree)
        log.append(f"names imported from peewee written as peewee.<name> {mi.name}: {sorted(names)}")


def logged_result_to_return(fn, log=None, where=""):
    """x = E ; <logging statements that mention x> ; return x      ->      <logging statements> ; return E
    (x bound once, read only by those logging calls and by the one return that follows them in the same block)."""
    par = {}
    for n in ast.walk(fn):
        for c in ast.iter_child_nodes(n):
            par[id(c)] = n
    done = []
    for ret in [n for n in ast.walk(fn) if isinstance(n, ast.Return) and isinstance(n.value, ast.Name)]:
        x = ret.value.id
        holder = par.get(id(ret))
        blk = None
        for field in ("body", "orelse", "finalbody"):
            b = getattr(holder, field, None)
            if isinstance(b, list) and any(s_ is ret for s_ in b):
                blk = b
        if blk is None:
            continue
        k = [i for i, s_ in enumerate(blk) if s_ is ret][0]
        j = k - 1
        while j >= 0 and isinstance(blk[j], ast.Expr) and isinstance(blk[j].value, ast.Call) and _is_log_call(blk[j].value):
            j -= 1
        if j < 0 or j == k - 1:
            continue
        asg = blk[j]
        nodes = [n for n in ast.walk(fn) if isinstance(n, ast.Name) and n.id == x]
        stores = [n for n in nodes if isinstance(n.ctx, ast.Store)]
        two = isinstance(asg, ast.If) and len(asg.body) == 1 and len(asg.orelse) == 1 and all(isinstance(b_, ast.Assign) and len(b_.targets) == 1 and isinstance(b_.targets[0], ast.Name) and b_.targets[0].id == x for b_ in (asg.body[0], asg.orelse[0])) and len(stores) == 2
        if two:
            # if c: x = A else: x = B ; <logs> ; return x     ->     <logs> ; if c: return A else: return B
            logs = blk[j + 1 : k]
            inside = {id(n) for l in logs for n in ast.walk(l)} | {id(ret.value), id(asg.body[0].targets[0]), id(asg.orelse[0].targets[0])}
            if any(id(n) not in inside for n in nodes):
                continue
            asg.body = [ast.copy_location(ast.Return(value=asg.body[0].value), asg.body[0])]
            asg.orelse = [ast.copy_location(ast.Return(value=asg.orelse[0].value), asg.orelse[0])]
            for l in logs:
                c = l.value
                c.args = [a if not any(isinstance(y, ast.Name) and y.id == x for y in ast.walk(a)) else ast.copy_location(ast.Constant(value="<log-only>"), a) for a in c.args]
                c.keywords = [kw for kw in c.keywords if not any(isinstance(y, ast.Name) and y.id == x for y in ast.walk(kw.value))]
            blk[j : k + 1] = logs + [asg]
            done.append(x)
            continue
        if not (isinstance(asg, ast.Assign) and len(asg.targets) == 1 and isinstance(asg.targets[0], ast.Name) and asg.targets[0].id == x):
            continue
        if len(stores) != 1:
            continue
        logs = blk[j + 1 : k]
        inside = {id(n) for l in logs for n in ast.walk(l)} | {id(ret.value), id(asg.targets[0])}
        if any(id(n) not in inside for n in nodes):
            continue
        ret.value = asg.value
        for l in logs:
            c = l.value
            c.args = [a if not any(isinstance(y, ast.Name) and y.id == x for y in ast.walk(a)) else ast.copy_location(ast.Constant(value="<log-only>"), a) for a in c.args]
            c.keywords = [kw for kw in c.keywords if not any(isinstance(y, ast.Name) and y.id == x for y in ast.walk(kw.value))]
        blk.remove(asg)
        done.append(x)
    if done:
        ast.fix_missing_locations(fn)
        if log is not None:
            log.append(f"logged result returned directly {where}:{fn.name} {done}")
    return bool(done)


def push_negations(fn, log=None, where=""):
    """if not (a and b): ...  ->  if not a or not b: ... ; not (x == y) -> x != y ; not (not x) -> x   (tests of if / while only)"""
    n_done = [0]

    def neg(e):
        if isinstance(e, ast.UnaryOp) and isinstance(e.op, ast.Not):
            return e.operand
        if isinstance(e, ast.BoolOp):
            n_done[0] += 1
            return ast.copy_location(ast.BoolOp(op=ast.Or() if isinstance(e.op, ast.And) else ast.And(), values=[neg(v) for v in e.values]), e)
        if isinstance(e, ast.Compare) and len(e.ops) == 1:
            flip = {ast.Is: ast.IsNot, ast.IsNot: ast.Is, ast.Eq: ast.NotEq, ast.NotEq: ast.Eq, ast.In: ast.NotIn, ast.NotIn: ast.In}
            t = type(e.ops[0])
            if t in flip:
                n_done[0] += 1
                return ast.copy_location(ast.Compare(left=e.left, ops=[flip[t]()], comparators=e.comparators), e)
        return ast.copy_location(ast.UnaryOp(op=ast.Not(), operand=e), e)

    for st in [n for n in ast.walk(fn) if isinstance(n, (ast.If, ast.While))]:
        t = st.test
        if isinstance(t, ast.UnaryOp) and isinstance(t.op, ast.Not) and isinstance(t.operand, (ast.BoolOp, ast.Compare, ast.UnaryOp)):
            st.test = neg(t.operand)
    if n_done[0]:
        ast.fix_missing_locations(fn)
        if log is not None:
            log.append(f"negations pushed inwards {where}:{fn.name} ({n_done[0]})")
    return bool(n_done[0])


def inline_single_use_temps(fn, log=None, where=""):
    """t__h = E ; if not t__h: ...   ->   if not E: ...     (a temporary the helper expansion introduced for an argument, read
    exactly once, by the statement that follows it)"""
    done = []

    def rec(stmts):
        out = []
        i = 0
        while i < len(stmts):
            st = stmts[i]
            nxt = stmts[i + 1] if i + 1 < len(stmts) else None
            if isinstance(st, ast.Assign) and len(st.targets) == 1 and isinstance(st.targets[0], ast.Name) and st.targets[0].id.endswith("__h") and nxt is not None:
                nm = st.targets[0].id
                # reads of THIS binding: up to the next binding of the same temporary in the block (expansions reuse the name)
                uses_all = []
                for later in stmts[i + 1 :]:
                    if later is not nxt and isinstance(later, ast.Assign) and len(later.targets) == 1 and isinstance(later.targets[0], ast.Name) and later.targets[0].id == nm:
                        # the re-binding's own right-hand side still reads THIS binding
                        uses_all += [n for n in ast.walk(later.value) if isinstance(n, ast.Name) and n.id == nm and isinstance(n.ctx, ast.Load)]
                        break
                    uses_all += [n for n in ast.walk(later) if isinstance(n, ast.Name) and n.id == nm and isinstance(n.ctx, ast.Load)]
                if not any(isinstance(later, ast.Assign) and len(later.targets) == 1 and isinstance(later.targets[0], ast.Name) and later.targets[0].id == nm for later in stmts[i + 2 :]):
                    # last binding in this block: the name must not be read anywhere else in the function either
                    stores_ = [n for n in ast.walk(fn) if isinstance(n, ast.Name) and n.id == nm and isinstance(n.ctx, ast.Store)]
                    loads_ = [n for n in ast.walk(fn) if isinstance(n, ast.Name) and n.id == nm and isinstance(n.ctx, ast.Load)]
                    if len(loads_) > len(stores_):
                        uses_all = uses_all + [None]
                head = nxt.test if isinstance(nxt, (ast.If, ast.While)) else (nxt.value if isinstance(nxt, (ast.Assign, ast.Expr, ast.Return)) and getattr(nxt, "value", None) is not None else None)
                uses_head = [n for n in ast.walk(head) if isinstance(n, ast.Name) and n.id == nm] if head is not None else []
                if len(uses_all) == 1 and len(uses_head) == 1 and not isinstance(nxt, ast.While):
                    class R(ast.NodeTransformer):
                        def visit_Name(self, n):
                            if n.id == nm and isinstance(n.ctx, ast.Load):
                                return ast.copy_location(ast.parse(ast.unparse(st.value), mode="eval").body, n)
                            return n
                    if isinstance(nxt, ast.If):
                        nxt.test = R().visit(nxt.test)
                    else:
                        nxt.value = R().visit(nxt.value)
                    ast.fix_missing_locations(nxt)
                    done.append(nm)
                    i += 1
                    continue
            for field in ("body", "orelse", "finalbody"):
                blk = getattr(st, field, None)
                if isinstance(blk, list) and blk and isinstance(blk[0], ast.stmt) and not isinstance(st, (ast.FunctionDef, ast.AsyncFunctionDef, ast.ClassDef)):
                    setattr(st, field, rec(blk))
            if isinstance(st, ast.Try):
                for h in st.handlers:
                    h.body = rec(h.body)
            out.append(st)
            i += 1
        return out

    fn.body = rec(fn.body)
    if done and log is not None:
        log.append(f"single-use temporaries of an expansion substituted {where}:{fn.name} {done}")
    return bool(done)


ROLE_LOCALS = {
    # (module, function) -> [(what the local is bound to once: callee text, the name the rules use)]
    ("aw_datastore.migration", "peewee_v2_to_sqlite_v1"): [("PeeweeStorage", "pw_db")],
    ("aw_datastore.migration", "check_for_migration"): [],
}


def role_named_locals(modules, log):
    """a local that is bound once to a call of a given constructor gets the name the rules know it by (a rename of locals is
    invisible to behaviour; the rules speak of `pw_db`, the legacy store object)"""
    for (mod, fname), table in ROLE_LOCALS.items():
        mi = modules.get(mod)
        if mi is None or not table:
            continue
        for fn in [n for n in ast.walk(mi.tree) if isinstance(n, (ast.FunctionDef, ast.AsyncFunctionDef)) and n.name == fname]:
            for callee, want in table:
                binds = [st for st in ast.walk(fn) if isinstance(st, ast.Assign) and len(st.targets) == 1 and isinstance(st.targets[0], ast.Name) and isinstance(st.value, ast.Call) and ast.unparse(st.value.func).split(".")[-1] == callee]
                if len(binds) != 1:
                    continue
                have = binds[0].targets[0].id
                if have == want or any(isinstance(n, ast.Name) and n.id == want for n in ast.walk(fn)):
                    continue
                if sum(1 for n in ast.walk(fn) if isinstance(n, ast.Name) and n.id == have and isinstance(n.ctx, ast.Store)) != 1:
                    continue
                for n in ast.walk(fn):
                    if isinstance(n, ast.Name) and n.id == have:
                        n.id = want
                log.append(f"local named by its role {mod}:{fname} {have} -> {want}")


def known_modules():
    return set(_lines("known_modules.txt"))


def known_imports():
    return set(_lines("known_imports.txt"))


_BUILTIN_NAMES = set(dir(__import__("builtins")))


def copy_new_imported_helpers(modules, known_funcs, log):
    """`from .sibling import helper` that the tree the rules were written against did not have, where `helper` is a plain
    function whose body is a single `return <expression>` over its parameters (and other such helpers): the importer gets a
    private copy (suffix __i) in place of the imported name, which the expansion of new helpers then writes out at each use"""
    ki = known_imports()
    km = known_modules()

    def simple(fd, S):
        body = [st for st in fd.body if not (isinstance(st, ast.Expr) and isinstance(st.value, ast.Constant))]
        if fd.decorator_list or len(body) != 1 or not isinstance(body[0], ast.Return) or body[0].value is None:
            return None
        if fd.args.vararg or fd.args.kwarg or fd.args.kwonlyargs:
            return None
        params = {a.arg for a in fd.args.args}
        inner = {x.id for x in ast.walk(body[0].value) if isinstance(x, ast.Name) and isinstance(x.ctx, ast.Store)} | {a.arg for l in ast.walk(body[0].value) if isinstance(l, ast.Lambda) for a in l.args.args}
        free = {x.id for x in ast.walk(body[0].value) if isinstance(x, ast.Name) and isinstance(x.ctx, ast.Load)} - params - inner - _BUILTIN_NAMES
        return free

    for mn, M in list(modules.items()):
        if mn not in km:
            continue
        pkg = mn.rsplit(".", 1)[0] if "." in mn else ""
        newbody, changed = [], False
        renames = {}
        for st in M.tree.body:
            if not (isinstance(st, ast.ImportFrom) and st.module):
                newbody.append(st)
                continue
            sname = (pkg + "." + st.module if pkg else st.module) if st.level == 1 else (st.module if st.level == 0 else None)
            S = modules.get(sname) if sname else None
            if S is None or S is M:
                newbody.append(st)
                continue
            sdefs = {x.name: x for x in S.tree.body if isinstance(x, ast.FunctionDef)}
            simports = {(a.asname or a.name).split(".")[0]: x for x in S.tree.body if isinstance(x, (ast.Import, ast.ImportFrom)) for a in x.names}
            keep, copied = [], []
            for a in st.names:
                if f"{mn}:{a.name}" in ki or a.asname not in (None, a.name) or a.name not in sdefs:
                    keep.append(a)
                    continue
                # closure of simple helpers
                work, seen, ok, need_imports = [a.name], [], True, []
                while work and ok:
                    w = work.pop(0)
                    if w in seen:
                        continue
                    fr = simple(sdefs[w], S) if w in sdefs else None
                    if fr is None:
                        ok = False
                        break
                    seen.append(w)
                    for nm in sorted(fr):
                        if nm in sdefs:
                            work.append(nm)
                        elif nm in simports:
                            if isinstance(simports[nm], ast.ImportFrom) and simports[nm].level >= 1:
                                ok = False
                            need_imports.append(simports[nm])
                        else:
                            ok = False
                if not ok:
                    keep.append(a)
                    continue
                copied.append((a.name, seen, need_imports))
            if not copied:
                newbody.append(st)
                continue
            changed = True
            if keep:
                newbody.append(ast.copy_location(ast.ImportFrom(module=st.module, names=keep, level=st.level), st))
            done = set()
            for nm, seen, need_imports in copied:
                for imp in need_imports:
                    t = ast.unparse(imp)
                    if t not in done:
                        done.add(t)
                        newbody += ast.parse(t).body
                for w in seen:
                    if w in done:
                        continue
                    done.add(w)
                    fd = ast.parse(ast.unparse(sdefs[w])).body[0]
                    fd.name = w + "__i"
                    for x in ast.walk(fd):
                        if isinstance(x, ast.Name) and x.id in seen:
                            x.id = x.id + "__i"
                    newbody.append(fd)
                    renames[w] = w + "__i"
                log.append(f"new import of a one-expression helper copied {mn} <- {sname}.{nm} (with {seen[1:]})")
        if changed:
            M.tree.body = newbody
            for fn_ in [x for x in ast.walk(M.tree) if isinstance(x, (ast.FunctionDef, ast.AsyncFunctionDef)) and not x.name.endswith("__i")]:
                for x in ast.walk(fn_):
                    if isinstance(x, ast.Name) and x.id in renames and isinstance(x.ctx, ast.Load):
                        x.id = renames[x.id]
            ast.fix_missing_locations(M.tree)


def merge_new_modules(modules, known_funcs, log):
    """A module that did not exist when the rules were written and now holds definitions a known module of the same package
    used to hold (the known module imports them back: `from .tokens import QList, ...`) is merged back into that module:
    its body takes the place of the import; other importers are pointed at the known module."""
    km = known_modules()
    kc = set(known_constants())
    for name in sorted(m for m in modules if m not in km):
        N = modules[name]
        pkg = name.rsplit(".", 1)[0] if "." in name else ""
        defined = {st.name for st in N.tree.body if isinstance(st, (ast.FunctionDef, ast.AsyncFunctionDef, ast.ClassDef))}
        defined |= {t.id for st in N.tree.body if isinstance(st, (ast.Assign, ast.AnnAssign)) for t in (st.targets if isinstance(st, ast.Assign) else [st.target]) if isinstance(t, ast.Name)}
        home, best = None, 0
        for mname, M in modules.items():
            if mname == name or mname not in km or (mname.rsplit(".", 1)[0] if "." in mname else "") != pkg:
                continue
            imp = [st for st in M.tree.body if isinstance(st, ast.ImportFrom) and st.level == 1 and st.module == name.rsplit(".", 1)[-1]]
            if not imp:
                continue
            owned = sum(1 for d in defined if any(q == f"{mname}.{d}" or q.startswith(f"{mname}.{d}.") for q in known_funcs) or f"{mname}:{d}" in kc)
            if owned > best:
                home, best = mname, owned
        if home is None:
            # a private helper module used by exactly one known module of the package
            users = [mn for mn, M_ in modules.items() if mn != name and any(isinstance(st, ast.ImportFrom) and ((st.level == 1 and st.module == name.rsplit(".", 1)[-1] and (mn.rsplit(".", 1)[0] if "." in mn else "") == pkg) or st.module == name) for st in ast.walk(M_.tree))]
            if len(users) == 1 and users[0] in km and (users[0].rsplit(".", 1)[0] if "." in users[0] else "") == pkg:
                home = users[0]
        if home is None:
            # a new module of plain helper functions (no classes, no module state) shared by several known modules: every
            # importer gets its own copy of the functions it imports (and of those they call), in place of the import
            plain = all(
                isinstance(st, (ast.Import, ast.ImportFrom, ast.FunctionDef))
                or (isinstance(st, ast.Expr) and isinstance(st.value, ast.Constant))
                or (isinstance(st, ast.Assign) and any(isinstance(t, ast.Name) and t.id in ("logger", "__all__") for t in st.targets))
                for st in N.tree.body
            )
            fdefs = {st.name: st for st in N.tree.body if isinstance(st, ast.FunctionDef)}
            users = [mn for mn, M_ in modules.items() if mn != name and mn in km and any(isinstance(st, ast.ImportFrom) and ((st.level == 1 and st.module == name.rsplit(".", 1)[-1] and (mn.rsplit(".", 1)[0] if "." in mn else "") == pkg) or st.module == name) for st in M_.tree.body)]
            others = [mn for mn, M_ in modules.items() if mn != name and mn not in users and any((isinstance(st, ast.ImportFrom) and st.module is not None and (st.module == name or st.module.endswith("." + name.rsplit(".", 1)[-1]) or (st.level >= 1 and st.module == name.rsplit(".", 1)[-1]))) or (isinstance(st, ast.Import) and any(a.name == name for a in st.names)) for st in ast.walk(M_.tree))]
            if plain and fdefs and len(users) > 1 and not others and not any(st.decorator_list for st in fdefs.values()):
                imports_src = [ast.unparse(st) for st in N.tree.body if isinstance(st, (ast.Import, ast.ImportFrom)) and not (isinstance(st, ast.ImportFrom) and st.level >= 1)]
                for mn in users:
                    M_ = modules[mn]
                    newb = []
                    for st in M_.tree.body:
                        if isinstance(st, ast.ImportFrom) and ((st.level == 1 and st.module == name.rsplit(".", 1)[-1]) or st.module == name):
                            want = [a.name for a in st.names if a.name in fdefs and a.asname in (None, a.name)]
                            if len(want) != len(st.names):
                                newb.append(st)
                                continue
                            work, seen = list(want), []
                            while work:
                                w = work.pop(0)
                                if w in seen:
                                    continue
                                seen.append(w)
                                work += [x.id for x in ast.walk(fdefs[w]) if isinstance(x, ast.Name) and x.id in fdefs and x.id not in seen]
                            have = {x.name for x in M_.tree.body if isinstance(x, (ast.FunctionDef, ast.ClassDef))}
                            if any(w in have for w in seen):
                                newb.append(st)
                                continue
                            src = "\n".join(imports_src + [ast.unparse(fdefs[w]) for w in seen])
                            newb += ast.parse(src).body
                            continue
                        newb.append(st)
                    M_.tree.body = newb
                    ast.fix_missing_locations(M_.tree)
                del modules[name]
                log.append(f"new helper module {name} copied into its importers {users} ({sorted(fdefs)})")
            continue
        M = modules[home]
        body = []
        for st in N.tree.body:
            if isinstance(st, ast.ImportFrom) and st.level == 1 and st.module == home.rsplit(".", 1)[-1]:
                continue  # circular import back into the home module
            if isinstance(st, ast.Expr) and isinstance(st.value, ast.Constant) and isinstance(st.value.value, str):
                continue
            if isinstance(st, (ast.Assign,)) and any(isinstance(t, ast.Name) and t.id in ("logger", "__all__") for t in st.targets):
                continue
            body.append(st)
        newbody, done = [], False
        for st in M.tree.body:
            if isinstance(st, ast.ImportFrom) and st.level == 1 and st.module == name.rsplit(".", 1)[-1]:
                if not done:
                    newbody += body
                    done = True
                continue
            newbody.append(st)
        M.tree.body = newbody
        ast.fix_missing_locations(M.tree)
        for other in modules.values():
            for st in ast.walk(other.tree):
                if isinstance(st, ast.ImportFrom) and st.module is not None and (st.module == name or (st.level == 1 and st.module == name.rsplit(".", 1)[-1] and (other.name.rsplit(".", 1)[0] if "." in other.name else "") == pkg)):
                    st.module = home if st.level == 0 else home.rsplit(".", 1)[-1]
        del modules[name]
        log.append(f"new module {name} merged back into {home} ({best} known definitions)")


def fold_new_bases(modules, known_funcs, log):
    """A base class / mixin that did not exist when the rules were written, defined in the same module as a known class that
    inherits from it, is folded back: its methods and class-level constants are copied into the subclass (first base wins,
    the subclass's own definitions win over all), class-level string / number constants read through self / cls in the copied
    methods are replaced by the subclass's values, and the base is dropped from the bases list."""
    known_cls = {q.rsplit(".", 2)[0] + "." + q.rsplit(".", 2)[1] for q in known_funcs if q.count(".") >= 2}
    for mi in modules.values():
        classes = {st.name: st for st in mi.tree.body if isinstance(st, ast.ClassDef)}

        def is_known(cn):
            return f"{mi.name}.{cn}" in known_cls

        def members(cn, seen=()):
            """own members first, then those of unknown bases (in base order)"""
            c = classes[cn]
            out = [x for x in c.body if isinstance(x, (ast.FunctionDef, ast.AsyncFunctionDef, ast.Assign, ast.AnnAssign))]
            for b in c.bases:
                bn = ast.unparse(b)
                if bn in classes and not is_known(bn) and bn not in seen:
                    out += members(bn, seen + (cn,))
            return out

        folded = set()
        for cn, c in list(classes.items()):
            if not is_known(cn):
                continue
            newb = [b for b in c.bases if ast.unparse(b) in classes and not is_known(ast.unparse(b))]
            if not newb:
                continue
            own_names = set()
            for x in c.body:
                if isinstance(x, (ast.FunctionDef, ast.AsyncFunctionDef)):
                    own_names.add(_fname(x))
                elif isinstance(x, ast.Assign):
                    own_names |= {t.id for t in x.targets if isinstance(t, ast.Name)}
                elif isinstance(x, ast.AnnAssign) and isinstance(x.target, ast.Name):
                    own_names.add(x.target.id)
            add = []
            for b in newb:
                for x in members(ast.unparse(b)):
                    nm = _fname(x) if isinstance(x, (ast.FunctionDef, ast.AsyncFunctionDef)) else (x.targets[0].id if isinstance(x, ast.Assign) and isinstance(x.targets[0], ast.Name) else x.target.id if isinstance(x, ast.AnnAssign) and isinstance(x.target, ast.Name) else None)
                    if nm is None or nm in own_names:
                        continue
                    own_names.add(nm)
                    add.append(ast.parse(ast.unparse(x)).body[0])
                    for y in ast.walk(add[-1]):
                        if hasattr(y, "lineno"):
                            pass
                    ast.copy_location(add[-1], x)
                    for src_n, dst_n in zip(ast.walk(x), ast.walk(add[-1])):
                        if hasattr(src_n, "lineno") and hasattr(dst_n, "lineno"):
                            dst_n.lineno, dst_n.col_offset = src_n.lineno, src_n.col_offset
                            dst_n.end_lineno, dst_n.end_col_offset = getattr(src_n, "end_lineno", src_n.lineno), getattr(src_n, "end_col_offset", src_n.col_offset)
                folded.add(ast.unparse(b))
                stack_ = [ast.unparse(b)]
                while stack_:
                    cur_ = stack_.pop()
                    for bb in classes[cur_].bases:
                        bbn = ast.unparse(bb)
                        if bbn in classes and not is_known(bbn) and bbn not in folded:
                            folded.add(bbn)
                            stack_.append(bbn)
            # remaining bases: the unknown bases' own (known / external) bases are inherited instead
            keep = []
            for b in c.bases:
                bn = ast.unparse(b)
                if bn in classes and not is_known(bn):
                    for bb in classes[bn].bases:
                        if ast.unparse(bb) not in [ast.unparse(k) for k in keep] and not (ast.unparse(bb) in classes and not is_known(ast.unparse(bb))) and ast.unparse(bb) not in ("object",):
                            keep.append(bb)
                elif bn not in [ast.unparse(k) for k in keep]:
                    keep.append(b)
            c.bases = keep
            c.body = [x for x in c.body if not isinstance(x, ast.Pass)] + add or [ast.Pass()]
            # class-level literal constants of the subclass read through self / cls in the folded methods
            consts = {}
            for x in c.body:
                if isinstance(x, ast.Assign) and len(x.targets) == 1 and isinstance(x.targets[0], ast.Name) and isinstance(x.value, ast.Constant) and isinstance(x.value.value, (str, int, float)) and not isinstance(x.value.value, bool):
                    consts[x.targets[0].id] = x.value
            stored = {y.attr for x in c.body for y in ast.walk(x) if isinstance(y, ast.Attribute) and isinstance(y.ctx, ast.Store)}
            if consts:
                class R(ast.NodeTransformer):
                    def visit_Attribute(self, n):
                        self.generic_visit(n)
                        if isinstance(n.ctx, ast.Load) and isinstance(n.value, ast.Name) and n.value.id in ("self", "cls") and n.attr in consts and n.attr not in stored and n.attr.startswith("_"):
                            return ast.copy_location(ast.Constant(value=consts[n.attr].value), n)
                        return n

                for x in add:
                    R().visit(x)
            log.append(f"new base class(es) {[ast.unparse(b) for b in newb]} folded into {mi.name}.{cn} ({len(add)} members)")
        while folded:
            # a folded base goes away unless something other than folded bases still refers to it
            still = {ast.unparse(b) for st in mi.tree.body if isinstance(st, ast.ClassDef) and st.name not in folded for b in st.bases} | {x.id for st in mi.tree.body if not (isinstance(st, ast.ClassDef) and st.name in folded) for x in ast.walk(st) if isinstance(x, ast.Name)}
            gone = {f for f in folded if f not in still}
            if not gone:
                break
            mi.tree.body = [st for st in mi.tree.body if not (isinstance(st, ast.ClassDef) and st.name in gone)]
            folded -= gone
            # unknown bases of the removed classes that were only inherited through them are folded classes too
            for st in list(mi.tree.body):
                pass
            break
        ast.fix_missing_locations(mi.tree)


def singledispatch_chains(modules, log):
    """functools.singledispatch / singledispatchmethod families are written as the isinstance chain they implement:
       registrations first (a registered class is more specific than the `object` default), the generic body last."""
    for mi in modules.values():
        for holder in [mi.tree] + [c for c in mi.tree.body if isinstance(c, ast.ClassDef)]:
            gens = {}
            for st in holder.body:
                if isinstance(st, ast.FunctionDef) and any(ast.unparse(d).split(".")[-1] in ("singledispatch", "singledispatchmethod") for d in st.decorator_list):
                    gens[st.name] = (st, [])
            if not gens:
                continue
            for st in holder.body:
                if not isinstance(st, ast.FunctionDef):
                    continue
                for d in st.decorator_list:
                    t = ast.unparse(d)
                    for gname in gens:
                        if t == f"{gname}.register" or t.startswith(f"{gname}.register("):
                            gens[gname][1].append((st, d))
            for gname, (gen, regs) in gens.items():
                method = any(ast.unparse(d).split(".")[-1] == "singledispatchmethod" for d in gen.decorator_list)
                k = 1 if method else 0
                if len(gen.args.args) <= k:
                    continue
                x = gen.args.args[k].arg
                branches = []
                ok = True
                for fn, d in regs:
                    if len(fn.args.args) <= k:
                        ok = False
                        break
                    p0 = fn.args.args[k]
                    ty = d.args[0] if isinstance(d, ast.Call) and d.args else p0.annotation
                    if ty is None:
                        ok = False
                        break
                    ren = {a.arg: g.arg for a, g in zip(fn.args.args, gen.args.args) if a.arg != g.arg}
                    body = [ast.parse(ast.unparse(b)).body[0] for b in fn.body if not (isinstance(b, ast.Expr) and isinstance(b.value, ast.Constant))]
                    if ren:
                        for b in body:
                            for y in ast.walk(b):
                                if isinstance(y, ast.Name) and y.id in ren:
                                    y.id = ren[y.id]
                    for b, src_b in zip(body, [b for b in fn.body if not (isinstance(b, ast.Expr) and isinstance(b.value, ast.Constant))]):
                        ast.copy_location(b, src_b)
                        for y in ast.walk(b):
                            if not hasattr(y, "lineno"):
                                ast.copy_location(y, src_b)
                    branches.append((ty, body))
                if not ok or not branches:
                    continue
                default = [b for b in gen.body if not (isinstance(b, ast.Expr) and isinstance(b.value, ast.Constant))]
                node = None
                for ty, body in reversed(branches):
                    test = ast.Call(func=ast.Name(id="isinstance", ctx=ast.Load()), args=[ast.Name(id=x, ctx=ast.Load()), ty], keywords=[])
                    node = ast.If(test=test, body=body, orelse=[node] if node is not None else default)
                ast.copy_location(node, gen)
                ast.fix_missing_locations(node)
                gen.body = [node]
                gen.decorator_list = [d for d in gen.decorator_list if ast.unparse(d).split(".")[-1] not in ("singledispatch", "singledispatchmethod")]
                drop = {id(fn) for fn, _ in regs}
                holder.body = [st for st in holder.body if id(st) not in drop]
                log.append(f"singledispatch family {mi.name}.{gname} written as an isinstance chain ({len(branches)} registrations)")
        ast.fix_missing_locations(mi.tree)


def dissolve_method_objects(modules, known_funcs, log):
    """A class introduced by a refactoring that only bundles a few values with the functions using them -- no base class,
    fields set once in __init__ from its arguments and never re-assigned, instances created and used on the spot
    (`K(a).m(x)`, or `k = K(a)` followed only by `k.m(x)` / `k.prop`) -- is taken apart: every method becomes a module-level
    function `K__m(<constructor parameters>, <its own parameters>)` that first re-computes the fields as locals; uses are
    rewritten to calls of those functions.  (They are then expanded like any helper introduced by a refactoring.)"""
    known_cls = {q.rsplit(".", 2)[0] + "." + q.rsplit(".", 2)[1] for q in known_funcs if q.count(".") >= 2}
    for mi in modules.values():
        for K in [st for st in mi.tree.body if isinstance(st, ast.ClassDef)]:
            if f"{mi.name}.{K.name}" in known_cls or any(ast.unparse(b) != "object" for b in K.bases) or K.decorator_list or K.keywords:
                continue
            meths = {c.name: c for c in K.body if isinstance(c, ast.FunctionDef)}
            consts = {c.targets[0].id: c.value for c in K.body if isinstance(c, ast.Assign) and len(c.targets) == 1 and isinstance(c.targets[0], ast.Name) and isinstance(c.value, ast.Constant)}
            other = [c for c in K.body if not isinstance(c, (ast.FunctionDef, ast.Pass)) and not (isinstance(c, ast.Expr) and isinstance(c.value, ast.Constant)) and not (isinstance(c, ast.Assign) and len(c.targets) == 1 and isinstance(c.targets[0], ast.Name) and c.targets[0].id in consts) and not (isinstance(c, ast.AnnAssign) and c.value is None)]
            init = meths.get("__init__")
            if other or init is None or init.args.vararg or init.args.kwarg or init.args.kwonlyargs:
                continue
            if any(n.startswith("__") and n != "__init__" for n in meths):
                continue
            # __init__: local assignments and field assignments only
            cparams = [a.arg for a in init.args.args[1:]]
            init_body = [x for x in init.body if not (isinstance(x, ast.Expr) and isinstance(x.value, ast.Constant))]
            fields, ok = [], True
            for st in init_body:
                if isinstance(st, (ast.Assign, ast.AnnAssign)) and (st.value is not None):
                    t = st.targets[0] if isinstance(st, ast.Assign) and len(st.targets) == 1 else st.target if isinstance(st, ast.AnnAssign) else None
                    if isinstance(t, ast.Attribute) and isinstance(t.value, ast.Name) and t.value.id == "self":
                        fields.append(t.attr)
                        continue
                    if isinstance(t, ast.Name):
                        continue
                ok = False
            if not ok or not fields:
                continue
            # fields that merely hold a constructor parameter (never re-bound in __init__) are read as that parameter
            direct = {}
            stored_in_init = [y.id for y in ast.walk(init) if isinstance(y, ast.Name) and isinstance(y.ctx, ast.Store)]
            for st in init_body:
                t = st.targets[0] if isinstance(st, ast.Assign) and len(st.targets) == 1 else getattr(st, "target", None)
                if isinstance(t, ast.Attribute) and isinstance(st.value, ast.Name) and st.value.id in cparams and st.value.id not in stored_in_init:
                    direct[t.attr] = st.value.id
            # immutable: no other method stores into self.<anything>
            if any(isinstance(y, ast.Attribute) and isinstance(y.ctx, (ast.Store, ast.Del)) and isinstance(y.value, ast.Name) and y.value.id == "self" for n_, m in meths.items() if n_ != "__init__" for y in ast.walk(m)):
                continue
            # `self` is used only as self.<field|const|method|property>
            props = {n for n, m in meths.items() if any(ast.unparse(d) == "property" for d in m.decorator_list)}
            statics = {n for n, m in meths.items() if any(ast.unparse(d) == "staticmethod" for d in m.decorator_list)}
            if any(d for n, m in meths.items() for d in m.decorator_list if ast.unparse(d) not in ("property", "staticmethod")):
                continue
            bad_self = False
            for n_, m in meths.items():
                for y in ast.walk(m):
                    if isinstance(y, ast.Name) and y.id == "self" and isinstance(y.ctx, ast.Load):
                        pass
                for y in ast.walk(m):
                    if isinstance(y, ast.Attribute) and isinstance(y.value, ast.Name) and y.value.id == "self" and y.attr not in fields and y.attr not in consts and y.attr not in meths:
                        bad_self = True
                names_self = [y for y in ast.walk(m) if isinstance(y, ast.Name) and y.id == "self"]
                attrs_self = [y for y in ast.walk(m) if isinstance(y, ast.Attribute) and isinstance(y.value, ast.Name) and y.value.id == "self"]
                if len(names_self) != len(attrs_self) + (0 if n_ in statics else 0):
                    bad_self = True
            if bad_self:
                continue
            # uses of K in the module
            uses_ok = True
            inst_vars = {}  # (function node id, var) -> ctor call
            for fn in [x for x in ast.walk(mi.tree) if isinstance(x, (ast.FunctionDef, ast.AsyncFunctionDef))] + [mi.tree]:
                pass
            parents = {}
            for node in ast.walk(mi.tree):
                for ch in ast.iter_child_nodes(node):
                    parents[id(ch)] = node
            refs = [x for x in ast.walk(mi.tree) if isinstance(x, ast.Name) and x.id == K.name and not any(x is y for y in ast.walk(K))]
            ctor_calls = []
            for r in refs:
                pr = parents.get(id(r))
                if not (isinstance(pr, ast.Call) and pr.func is r):
                    uses_ok = False
                    break
                ctor_calls.append(pr)
            if not uses_ok or not ctor_calls:
                continue

            def full_args(call, params, defaults):
                if any(isinstance(a, ast.Starred) for a in call.args) or any(k.arg is None for k in call.keywords) or len(call.args) > len(params):
                    return None
                m_ = dict(zip(params, call.args))
                for k in call.keywords:
                    m_[k.arg] = k.value
                for pn, dv in zip(reversed(params), reversed(defaults)):
                    m_.setdefault(pn, dv)
                if set(m_) != set(params):
                    return None
                return [m_[p_] for p_ in params]

            plan = []  # (kind, node, ...)
            for c in ctor_calls:
                cargs = full_args(c, cparams, init.args.defaults)
                pr = parents.get(id(c))
                if cargs is None:
                    uses_ok = False
                    break
                if isinstance(pr, ast.Attribute) and pr.value is c and pr.attr in meths:
                    plan.append(("direct", c, pr, cargs))
                elif isinstance(pr, ast.Assign) and len(pr.targets) == 1 and isinstance(pr.targets[0], ast.Name) and all(isinstance(a, (ast.Name, ast.Constant, ast.Attribute)) for a in cargs):
                    # k = K(a): every other use of k in the enclosing function is k.<member>
                    encl = pr
                    while encl is not None and not isinstance(encl, (ast.FunctionDef, ast.AsyncFunctionDef, ast.Module)):
                        encl = parents.get(id(encl))
                    v = pr.targets[0].id
                    occ = [x for x in ast.walk(encl) if isinstance(x, ast.Name) and x.id == v]
                    if sum(1 for x in occ if isinstance(x.ctx, ast.Store)) != 1 or any(not (isinstance(parents.get(id(x)), ast.Attribute) and parents[id(x)].attr in meths) for x in occ if isinstance(x.ctx, ast.Load)):
                        uses_ok = False
                        break
                    argnames = {n.id for a in cargs for n in ast.walk(a) if isinstance(n, ast.Name)}
                    if any(isinstance(x, ast.Name) and x.id in argnames and isinstance(x.ctx, ast.Store) and getattr(x, "lineno", 0) > pr.lineno for x in ast.walk(encl) if not isinstance(encl, ast.Module)):
                        uses_ok = False
                        break
                    plan.append(("var", c, pr, cargs, encl, v))
                else:
                    uses_ok = False
                    break
            if not uses_ok:
                continue
            # ---- build the functions
            def fname(m_):
                return f"{K.name}__{m_}"

            def rewrite_self(node):
                class R(ast.NodeTransformer):
                    def visit_Call(self, n):
                        self.generic_visit(n)
                        f_ = n.func
                        if isinstance(f_, ast.Attribute) and isinstance(f_.value, ast.Name) and f_.value.id == "self" and f_.attr in meths and f_.attr not in props:
                            pre_ = [] if f_.attr in statics else [ast.Name(id=p_, ctx=ast.Load()) for p_ in cparams]
                            return ast.copy_location(ast.Call(func=ast.Name(id=fname(f_.attr), ctx=ast.Load()), args=pre_ + n.args, keywords=n.keywords), n)
                        return n

                    def visit_Attribute(self, n):
                        self.generic_visit(n)
                        if isinstance(n.value, ast.Name) and n.value.id == "self" and isinstance(n.ctx, ast.Load):
                            if n.attr in direct:
                                return ast.copy_location(ast.Name(id=direct[n.attr], ctx=ast.Load()), n)
                            if n.attr in fields:
                                return ast.copy_location(ast.Name(id=n.attr + "__s", ctx=ast.Load()), n)
                            if n.attr in consts:
                                return ast.copy_location(_copy(consts[n.attr]), n)
                            if n.attr in props:
                                return ast.copy_location(ast.Call(func=ast.Name(id=fname(n.attr), ctx=ast.Load()), args=[ast.Name(id=p_, ctx=ast.Load()) for p_ in cparams], keywords=[]), n)
                        return n

                return R().visit(node)

            new_funcs = []
            for n_, m in meths.items():
                if n_ == "__init__":
                    continue
                own = m.args.args[(0 if n_ in statics else 1):]
                pre_stmts = []
                if n_ not in statics:
                    used_fields = {y.attr for y in ast.walk(m) if isinstance(y, ast.Attribute) and isinstance(y.value, ast.Name) and y.value.id == "self" and y.attr in fields and y.attr not in direct}
                    if used_fields:
                        for st in init_body:
                            t0 = st.targets[0] if isinstance(st, ast.Assign) and len(st.targets) == 1 else getattr(st, "target", None)
                            if isinstance(t0, ast.Attribute) and t0.attr in direct:
                                continue
                            st2 = ast.parse(ast.unparse(st)).body[0]
                            t = st2.targets[0] if isinstance(st2, ast.Assign) else st2.target
                            if isinstance(t, ast.Attribute):
                                new_t = ast.Name(id=t.attr + "__s", ctx=ast.Store())
                                st2 = ast.Assign(targets=[new_t], value=st2.value)
                            elif isinstance(st2, ast.AnnAssign):
                                st2 = ast.Assign(targets=[st2.target], value=st2.value)
                            st2 = rewrite_self(st2)
                            ast.copy_location(st2, st)
                            for y in ast.walk(st2):
                                if not hasattr(y, "lineno"):
                                    ast.copy_location(y, st)
                            pre_stmts.append(st2)
                body = [rewrite_self(ast.parse(ast.unparse(b)).body[0]) for b in m.body]
                for b, src_b in zip(body, m.body):
                    for y_dst, y_src in zip(ast.walk(b), ast.walk(src_b)):
                        if hasattr(y_src, "lineno"):
                            y_dst.lineno, y_dst.col_offset = y_src.lineno, y_src.col_offset
                            y_dst.end_lineno, y_dst.end_col_offset = getattr(y_src, "end_lineno", y_src.lineno), getattr(y_src, "end_col_offset", y_src.col_offset)
                args = ast.arguments(posonlyargs=[], args=([] if n_ in statics else [ast.arg(arg=p_) for p_ in cparams]) + [ast.arg(arg=a.arg, annotation=a.annotation) for a in own], kwonlyargs=[], kw_defaults=[], defaults=list(m.args.defaults), vararg=m.args.vararg, kwarg=m.args.kwarg)
                f_new = ast.FunctionDef(name=fname(n_), args=args, body=pre_stmts + body, decorator_list=[], returns=None)
                ast.copy_location(f_new, m)
                ast.fix_missing_locations(f_new)
                new_funcs.append(f_new)
            # ---- rewrite the uses
            for item in plan:
                if item[0] == "direct":
                    _, c, attr, cargs = item
                    call = parents.get(id(attr))
                    if attr.attr in props:
                        new = ast.Call(func=ast.Name(id=fname(attr.attr), ctx=ast.Load()), args=cargs, keywords=[])
                        _replace_node(parents, attr, new)
                    elif isinstance(call, ast.Call) and call.func is attr:
                        call.func = ast.copy_location(ast.Name(id=fname(attr.attr), ctx=ast.Load()), attr)
                        call.args = ([] if attr.attr in statics else [_copy(a) for a in cargs]) + call.args
                else:
                    _, c, asg, cargs, encl, v = item
                    for x in [x for x in ast.walk(encl) if isinstance(x, ast.Name) and x.id == v and isinstance(x.ctx, ast.Load)]:
                        attr = parents[id(x)]
                        call = parents.get(id(attr))
                        if attr.attr in props:
                            _replace_node(parents, attr, ast.Call(func=ast.Name(id=fname(attr.attr), ctx=ast.Load()), args=[_copy(a) for a in cargs], keywords=[]))
                        elif isinstance(call, ast.Call) and call.func is attr:
                            call.func = ast.copy_location(ast.Name(id=fname(attr.attr), ctx=ast.Load()), attr)
                            call.args = ([] if attr.attr in statics else [_copy(a) for a in cargs]) + call.args
                    # drop `k = K(a)`
                    holder = parents.get(id(asg))
                    for field in ("body", "orelse", "finalbody"):
                        blk = getattr(holder, field, None)
                        if isinstance(blk, list) and any(b is asg for b in blk):
                            nb = [b for b in blk if b is not asg] or [ast.copy_location(ast.Pass(), asg)]
                            setattr(holder, field, nb)
            idx = mi.tree.body.index(K)
            mi.tree.body[idx : idx + 1] = new_funcs
            ast.fix_missing_locations(mi.tree)
            log.append(f"method-object class {mi.name}.{K.name} taken apart into {len(new_funcs)} functions")


def _replace_node(parents, old, new):
    p = parents.get(id(old))
    ast.copy_location(new, old)
    ast.fix_missing_locations(new)
    for f_, v in ast.iter_fields(p):
        if v is old:
            setattr(p, f_, new)
        elif isinstance(v, list):
            for i, x in enumerate(v):
                if x is old:
                    v[i] = new
    parents[id(new)] = p


def absorb_thin_wrappers(modules, known_funcs, log):
    """A known module-level function W that has become a thin wrapper `return F(<its own parameters / constants>)` around a
    function F introduced by a refactoring: every other call F(b...) in the module whose arguments can be mapped back onto
    W's parameters is written as the call W(...) it is equivalent to (F's body then belongs to W alone and is expanded there)."""
    for mi in modules.values():
        top = {st.name: st for st in mi.tree.body if isinstance(st, ast.FunctionDef)}
        for wname, W in top.items():
            if f"{mi.name}.{wname}" not in known_funcs:
                continue
            body = [x for x in W.body if not (isinstance(x, ast.Expr) and isinstance(x.value, ast.Constant))]
            if len(body) != 1 or not isinstance(body[0], (ast.Return, ast.Expr)) or not isinstance(body[0].value, ast.Call):
                continue
            call = body[0].value
            if not isinstance(call.func, ast.Name) or call.func.id not in top or f"{mi.name}.{call.func.id}" in known_funcs or call.keywords or any(isinstance(a, ast.Starred) for a in call.args):
                continue
            F = top[call.func.id]
            fparams = [a.arg for a in F.args.args]
            wparams = [a.arg for a in W.args.args]
            if len(call.args) != len(fparams) or W.args.vararg or W.args.kwarg or F.args.vararg or F.args.kwarg:
                continue
            used = {n.id for n in ast.walk(F) if isinstance(n, ast.Name) and n.id in fparams}
            pos_of = {}  # W param -> position in F's argument list
            ok = True
            for j, a in enumerate(call.args):
                if isinstance(a, ast.Name) and a.id in wparams and a.id not in pos_of:
                    pos_of[a.id] = j
                elif fparams[j] in used:
                    ok = False
            n_def = len(W.args.defaults)
            required = wparams[: len(wparams) - n_def] if n_def else wparams
            if not ok or any(p_ not in pos_of for p_ in required):
                continue
            n = 0
            for holder in ast.walk(mi.tree):
                if holder is W or holder is F:
                    continue
                for c in [x for x in ast.iter_child_nodes(holder)]:
                    pass
            for c in [x for x in ast.walk(mi.tree) if isinstance(x, ast.Call) and isinstance(x.func, ast.Name) and x.func.id == F.name]:
                if c is call or any(c is y for y in ast.walk(F)):
                    continue
                if c.keywords or len(c.args) != len(fparams) or any(isinstance(a, ast.Starred) for a in c.args):
                    continue
                new_args = []
                for p_ in wparams:
                    if p_ in pos_of:
                        new_args.append(c.args[pos_of[p_]])
                    else:
                        break
                if len(new_args) < len(required):
                    continue
                c.func = ast.copy_location(ast.Name(id=wname, ctx=ast.Load()), c.func)
                c.args = new_args
                n += 1
            if n:
                log.append(f"{n} call(s) of {mi.name}.{F.name} written as calls of the known wrapper {wname}")


def recover_nested_renames(modules, known_funcs, log):
    """closures: a known nested function `outer.inner` that is gone while `outer` has exactly one nested function (at that
    level) that no known name accounts for is that function renamed; names are put back (definition and uses inside outer),
    outermost level first so that deeper levels are looked up under the restored names"""
    def nested_defs(fn):
        return [x for x in fn.body if isinstance(x, (ast.FunctionDef, ast.AsyncFunctionDef))]

    for mi in modules.values():
        tops = {st.name: st for st in mi.tree.body if isinstance(st, (ast.FunctionDef, ast.AsyncFunctionDef))}
        for st in mi.tree.body:
            if isinstance(st, ast.ClassDef):
                for c in st.body:
                    if isinstance(c, (ast.FunctionDef, ast.AsyncFunctionDef)):
                        tops[f"{st.name}.{_fname(c)}"] = c
        work = [(f"{mi.name}.{n}", fn) for n, fn in tops.items()]
        while work:
            q, fn = work.pop(0)
            kids = nested_defs(fn)
            want = sorted({k[len(q) + 1 :].split(".")[0] for k in known_funcs if k.startswith(q + ".") and ".<" not in k})
            have = {k.name for k in kids}
            missing = [w for w in want if w not in have]
            extra = [k for k in kids if k.name not in want]
            if len(missing) == 1 and len(extra) == 1:
                old, newn = extra[0].name, missing[0]
                extra[0].name = newn
                for y in ast.walk(fn):
                    if isinstance(y, ast.Name) and y.id == old:
                        y.id = newn
                log.append(f"rename {q}.{old} -> {q}.{newn} (only unknown closure of {q})")
            for k in nested_defs(fn):
                work.append((f"{q}.{k.name}", k))


def recover_moved_methods(modules, known_funcs, log):
    """A known method Cls.m that is gone, while its module now has an unknown module-level function m with the method's
    parameters minus `self` (the method never used self and was moved out of the class): the function is put back as
    a method and the calls m(...) inside the class become self.m(...)."""
    for mi in modules.values():
        top = {st.name: st for st in mi.tree.body if isinstance(st, ast.FunctionDef)}
        for cls in [st for st in mi.tree.body if isinstance(st, ast.ClassDef)]:
            have = {c.name for c in cls.body if isinstance(c, (ast.FunctionDef, ast.AsyncFunctionDef))}
            for q in known_funcs:
                pre = f"{mi.name}.{cls.name}."
                if not q.startswith(pre):
                    continue
                m = q[len(pre):]
                if "." in m or m in have or m not in top or f"{mi.name}.{m}" in known_funcs:
                    continue
                fn = top[m]
                if fn.decorator_list or any(isinstance(x, ast.Name) and x.id in ("self", "cls") for x in ast.walk(fn)):
                    continue
                meth = ast.parse(ast.unparse(fn)).body[0]
                meth.args.args.insert(0, ast.arg(arg="self"))
                ast.copy_location(meth, fn)
                for x in ast.walk(meth):
                    if not hasattr(x, "lineno"):
                        ast.copy_location(x, fn)
                ast.increment_lineno(meth, 0)
                cls.body.append(meth)
                for c in cls.body:
                    if isinstance(c, (ast.FunctionDef, ast.AsyncFunctionDef)) and c is not meth and c.args.args and c.args.args[0].arg == "self" and not any(isinstance(d, ast.Name) and d.id == "staticmethod" for d in c.decorator_list):
                        for x in ast.walk(c):
                            if isinstance(x, ast.Call) and isinstance(x.func, ast.Name) and x.func.id == m:
                                x.func = ast.copy_location(ast.Attribute(value=ast.Name(id="self", ctx=ast.Load()), attr=m, ctx=ast.Load()), x.func)
                still = any(isinstance(x, ast.Name) and x.id == m for st in mi.tree.body if st is not fn for x in ast.walk(st))
                if not still:
                    mi.tree.body = [st for st in mi.tree.body if st is not fn]
                ast.fix_missing_locations(mi.tree)
                log.append(f"module-level function {mi.name}.{m} put back as method {cls.name}.{m}")


def classmethod_constructors(modules, log):
    """In a classmethod of a class without subclasses in the packages, `cls(...)` constructs that class; a classmethod that
    uses `cls` for nothing else is the staticmethod it could have been (first parameter dropped)."""
    subclassed = set()
    fps = known_fingerprints()
    for mi in modules.values():
        for st in ast.walk(mi.tree):
            if isinstance(st, ast.ClassDef):
                for b in st.bases:
                    subclassed.add(ast.unparse(b).split(".")[-1])
    for mi in modules.values():
        for cls in [st for st in ast.walk(mi.tree) if isinstance(st, ast.ClassDef) and st.name not in subclassed]:
            for fn in [c for c in cls.body if isinstance(c, ast.FunctionDef)]:
                if [ast.unparse(d) for d in fn.decorator_list] != ["classmethod"] or not fn.args.args:
                    continue
                # only where the function is known to have had one parameter fewer when the rules were written
                if fps.get(f"{mi.name}.{cls.name}.{fn.name}#arity") != len(fn.args.args) - 1:
                    continue
                c0 = fn.args.args[0].arg
                uses = [x for x in ast.walk(fn) if isinstance(x, ast.Name) and x.id == c0]
                calls = [x for x in ast.walk(fn) if isinstance(x, ast.Call) and isinstance(x.func, ast.Name) and x.func.id == c0]
                if len(uses) != len(calls):
                    continue
                for x in calls:
                    x.func.id = cls.name
                fn.args.args = fn.args.args[1:]
                fn.decorator_list = [ast.copy_location(ast.Name(id="staticmethod", ctx=ast.Load()), fn.decorator_list[0])]
                log.append(f"classmethod {mi.name}.{cls.name}.{fn.name} uses cls only as constructor: read as staticmethod building {cls.name}")


def composed_decorators(modules, known_funcs, log):
    """A decorator (factory) introduced by a refactoring that only stacks decorators --

        def both(x=None):                    def both(f):
            reg = outer(x)                       return outer(inner(f))
            def h(f):
                return reg(inner(f))
            return h

    -- is written out where it is used:  @both(a)  ->  @outer(a) / @inner ."""
    for mi in modules.values():
        table = {}
        for st in mi.tree.body:
            if not isinstance(st, ast.FunctionDef) or f"{mi.name}.{st.name}" in known_funcs or st.decorator_list:
                continue
            body = [x for x in st.body if not (isinstance(x, ast.Expr) and isinstance(x.value, ast.Constant))]
            a = st.args
            if a.vararg or a.kwarg or a.kwonlyargs:
                continue
            params = [x.arg for x in a.args]

            def chain(e, fparam, binds):
                """outer(inner(f)) -> [outer, inner] (expressions), or None"""
                out = []
                while True:
                    if isinstance(e, ast.Name) and e.id == fparam:
                        return out
                    if isinstance(e, ast.Call) and len(e.args) == 1 and not e.keywords:
                        fn = e.func
                        if isinstance(fn, ast.Name) and fn.id in binds:
                            fn = binds[fn.id]
                        out.append(fn)
                        e = e.args[0]
                        continue
                    return None

            if len(params) == 1 and len(body) == 1 and isinstance(body[0], ast.Return) and body[0].value is not None:
                ch = chain(body[0].value, params[0], {})
                if ch and len(ch) >= 2:
                    table[st.name] = ("plain", params, [], ch)
                continue
            binds = {}
            ok = True
            inner = None
            for x in body[:-1]:
                if isinstance(x, ast.Assign) and len(x.targets) == 1 and isinstance(x.targets[0], ast.Name) and isinstance(x.value, ast.Call) and inner is None:
                    binds[x.targets[0].id] = x.value
                elif isinstance(x, ast.FunctionDef) and inner is None:
                    inner = x
                else:
                    ok = False
            if not ok or inner is None or not body or not (isinstance(body[-1], ast.Return) and isinstance(body[-1].value, ast.Name) and body[-1].value.id == inner.name):
                continue
            ib = [x for x in inner.body if not (isinstance(x, ast.Expr) and isinstance(x.value, ast.Constant))]
            if len(inner.args.args) != 1 or inner.decorator_list or len(ib) != 1 or not isinstance(ib[0], ast.Return) or ib[0].value is None:
                continue
            ch = chain(ib[0].value, inner.args.args[0].arg, binds)
            if ch:
                table[st.name] = ("factory", params, a.defaults, ch)
        if not table:
            continue
        for fn in [x for x in ast.walk(mi.tree) if isinstance(x, (ast.FunctionDef, ast.AsyncFunctionDef, ast.ClassDef))]:
            newd = []
            for d in fn.decorator_list:
                name = d.id if isinstance(d, ast.Name) else d.func.id if isinstance(d, ast.Call) and isinstance(d.func, ast.Name) else None
                ent = table.get(name)
                if ent is None or (ent[0] == "plain") != isinstance(d, ast.Name):
                    newd.append(d)
                    continue
                kind, params, defaults, ch = ent
                mapping = {}
                if kind == "factory":
                    if d.keywords and any(k.arg is None for k in d.keywords) or any(isinstance(x, ast.Starred) for x in d.args) or len(d.args) > len(params):
                        newd.append(d)
                        continue
                    for pn, dv in zip(reversed(params), reversed(defaults)):
                        mapping[pn] = dv
                    for pn, av in zip(params, d.args):
                        mapping[pn] = av
                    for k in d.keywords:
                        mapping[k.arg] = k.value
                    if any(pn not in mapping for pn in params):
                        newd.append(d)
                        continue
                for c in ch:
                    e = ast.parse(ast.unparse(c), mode="eval").body
                    if mapping:
                        e = _NameSubst(mapping).visit(e)
                    # outer(None) written with the default left out reads outer()
                    ast.copy_location(e, d)
                    for y in ast.walk(e):
                        ast.copy_location(y, d)
                    newd.append(e)
                log.append(f"composed decorator @{name} written out on {mi.name}.{fn.name}")
            fn.decorator_list = newd
        used_names = {x.id for x in ast.walk(mi.tree) if isinstance(x, ast.Name)}
        mi.tree.body = [st for st in mi.tree.body if not (isinstance(st, ast.FunctionDef) and st.name in table and st.name not in used_names)]


class _NameSubst(ast.NodeTransformer):
    def __init__(self, mapping):
        self.mapping = mapping

    def visit_Name(self, n):
        if isinstance(n.ctx, ast.Load) and n.id in self.mapping:
            return ast.copy_location(ast.parse(ast.unparse(self.mapping[n.id]), mode="eval").body, n)
        return n


def drop_local_annotations(modules, log):
    """inside functions, `x: T = v` is `x = v` and a bare `x: T` declares nothing (class-level annotated attributes are kept:
    whether a container is declared on the class or bound per instance is what INSTANCE-STATE looks at)"""
    n = 0
    for mi in modules.values():
        for fn in [x for x in ast.walk(mi.tree) if isinstance(x, (ast.FunctionDef, ast.AsyncFunctionDef))]:
            for holder in ast.walk(fn):
                for field in ("body", "orelse", "finalbody"):
                    blk = getattr(holder, field, None)
                    if not (isinstance(blk, list) and blk and isinstance(blk[0], ast.stmt)):
                        continue
                    new = []
                    for st in blk:
                        if isinstance(st, ast.AnnAssign) and isinstance(st.target, (ast.Name, ast.Attribute)):
                            n += 1
                            if st.value is None:
                                continue
                            a = ast.Assign(targets=[st.target], value=st.value)
                            ast.copy_location(a, st)
                            new.append(a)
                        else:
                            new.append(st)
                    if not new:
                        new = [ast.copy_location(ast.Pass(), blk[0])]
                    setattr(holder, field, new)
        ast.fix_missing_locations(mi.tree)
    if n:
        log.append(f"{n} local annotated assignments read as plain assignments")


def property_calls_to_decorators(modules, log):
    """class body `x = property(_get_x, _set_x)` with both accessors plain methods of the same class, used for nothing else
    except direct calls `self._set_x(v)` / `self._get_x()`: the decorator spelling (`@property def x` / `@x.setter def x`),
    and the direct accessor calls become attribute reads / writes (that is what they do)"""
    for mi in modules.values():
        for cls in [st for st in ast.walk(mi.tree) if isinstance(st, ast.ClassDef)]:
            meth = {c.name: c for c in cls.body if isinstance(c, ast.FunctionDef)}
            props = {}
            for st in cls.body:
                if isinstance(st, ast.Assign) and len(st.targets) == 1 and isinstance(st.targets[0], ast.Name) and isinstance(st.value, ast.Call) and ast.unparse(st.value.func) == "property" and 1 <= len(st.value.args) <= 2 and not st.value.keywords and all(isinstance(a, ast.Name) and a.id in meth and not meth[a.id].decorator_list for a in st.value.args):
                    props[st.targets[0].id] = (st, [a.id for a in st.value.args])
            if not props:
                continue
            acc = {}
            for pn, (st, names) in props.items():
                if pn in meth or any(n in acc for n in names):
                    acc = None
                    break
                acc[names[0]] = (pn, "get")
                if len(names) == 2:
                    acc[names[1]] = (pn, "set")
            if not acc:
                continue
            # other mentions of the accessors must be self._get_x() / self._set_x(v) calls inside the class
            ok = True
            for n in ast.walk(mi.tree):
                if isinstance(n, ast.Attribute) and n.attr in acc and not (isinstance(n.value, ast.Name) and n.value.id == "self"):
                    ok = False
                if isinstance(n, ast.Name) and n.id in acc and not any(n in st.value.args for st, _ in props.values()):
                    ok = False
            if not ok:
                continue

            class R(ast.NodeTransformer):
                def visit_Expr(self, n):
                    v = n.value
                    if isinstance(v, ast.Call) and isinstance(v.func, ast.Attribute) and v.func.attr in acc and acc[v.func.attr][1] == "set" and len(v.args) == 1 and not v.keywords:
                        new = ast.Assign(targets=[ast.Attribute(value=v.func.value, attr=acc[v.func.attr][0], ctx=ast.Store())], value=self.visit(v.args[0]))
                        ast.copy_location(new, n)
                        return ast.fix_missing_locations(new)
                    return self.generic_visit(n)

                def visit_Call(self, n):
                    self.generic_visit(n)
                    if isinstance(n.func, ast.Attribute) and n.func.attr in acc and acc[n.func.attr][1] == "get" and not n.args and not n.keywords:
                        return ast.copy_location(ast.Attribute(value=n.func.value, attr=acc[n.func.attr][0], ctx=ast.Load()), n)
                    return n

            newbody = []
            for st in cls.body:
                if any(st is p_[0] for p_ in props.values()):
                    continue
                if isinstance(st, ast.FunctionDef) and st.name in acc:
                    pn, kind = acc[st.name]
                    st.name = pn
                    st.decorator_list = [ast.Name(id="property", ctx=ast.Load())] if kind == "get" else [ast.Attribute(value=ast.Name(id=pn, ctx=ast.Load()), attr="setter", ctx=ast.Load())]
                newbody.append(st)
            # getters must come before their setters (decorator order)
            getters = [st for st in newbody if isinstance(st, ast.FunctionDef) and st.decorator_list and ast.unparse(st.decorator_list[0]) == "property" and st.name in props]
            gpos = {st.name: newbody.index(st) for st in getters}
            if any(isinstance(st, ast.FunctionDef) and st.decorator_list and ast.unparse(st.decorator_list[0]).endswith(".setter") and st.name in gpos and newbody.index(st) < gpos[st.name] for st in newbody):
                continue
            cls.body = newbody
            R().visit(cls)
            ast.fix_missing_locations(cls)
            log.append(f"property(getter, setter) assignments written as decorators {mi.name}.{cls.name} {sorted(props)}")


def expand_descriptors(modules, log):
    """A data-descriptor class of the packages (__set_name__ remembering the attribute name, __get__, __set__) bound as a class
    attribute `x = Desc(args)` is the property it implements: getter / setter are written out with the descriptor's state
    (constructor arguments, the bound name) substituted, `obj` renamed to `self`."""
    for mi in modules.values():
        descs = {}
        for cls in [st for st in mi.tree.body if isinstance(st, ast.ClassDef)]:
            meth = {c.name: c for c in cls.body if isinstance(c, ast.FunctionDef)}
            if not {"__get__", "__set__", "__set_name__"} <= set(meth) or set(meth) - {"__get__", "__set__", "__set_name__", "__init__"}:
                continue
            state = {}  # attribute of the descriptor -> ("param", name) | ("name",)
            ok = True
            if "__init__" in meth:
                ini = meth["__init__"]
                for st in [x for x in ini.body if not (isinstance(x, ast.Expr) and isinstance(x.value, ast.Constant))]:
                    if isinstance(st, ast.Assign) and len(st.targets) == 1 and isinstance(st.targets[0], ast.Attribute) and ast.unparse(st.targets[0].value) == "self" and isinstance(st.value, ast.Name) and st.value.id in [a.arg for a in ini.args.args[1:]]:
                        state[st.targets[0].attr] = ("param", st.value.id)
                    else:
                        ok = False
            sn = meth["__set_name__"]
            snb = [x for x in sn.body if not (isinstance(x, ast.Expr) and isinstance(x.value, ast.Constant))]
            if len(sn.args.args) != 3 or len(snb) != 1 or not (isinstance(snb[0], ast.Assign) and isinstance(snb[0].targets[0], ast.Attribute) and ast.unparse(snb[0].targets[0].value) == "self" and isinstance(snb[0].value, ast.Name) and snb[0].value.id == sn.args.args[2].arg):
                continue
            state[snb[0].targets[0].attr] = ("name",)
            g, t = meth["__get__"], meth["__set__"]
            gb = [x for x in g.body if not (isinstance(x, ast.Expr) and isinstance(x.value, ast.Constant))]
            if len(g.args.args) < 2 or len(t.args.args) != 3:
                continue
            obj = g.args.args[1].arg
            if gb and isinstance(gb[0], ast.If) and ast.unparse(gb[0].test) == f"{obj} is None" and not gb[0].orelse:
                gb = gb[1:]
            if not ok or len(gb) != 1 or not isinstance(gb[0], ast.Return) or gb[0].value is None:
                continue
            descs[cls.name] = (meth.get("__init__"), state, obj, gb[0].value, t)
        if not descs:
            continue
        used = set()
        for cls in [st for st in ast.walk(mi.tree) if isinstance(st, ast.ClassDef)]:
            newbody = []
            for st in cls.body:
                v = st.value if isinstance(st, ast.Assign) and len(st.targets) == 1 and isinstance(st.targets[0], ast.Name) else None
                if not (isinstance(v, ast.Call) and isinstance(v.func, ast.Name) and v.func.id in descs):
                    newbody.append(st)
                    continue
                ini, state, obj, getexpr, setter = descs[v.func.id]
                attr = st.targets[0].id
                args = {}
                if ini is not None:
                    ps = [a.arg for a in ini.args.args[1:]]
                    for pn, av in zip(ps, v.args):
                        args[pn] = av
                    for k in v.keywords:
                        if k.arg:
                            args[k.arg] = k.value
                    for pn, dv in zip(reversed(ps), reversed(ini.args.defaults)):
                        args.setdefault(pn, dv)

                def subst(node, objname, valname=None):
                    class R(ast.NodeTransformer):
                        def visit_Attribute(self, n):
                            self.generic_visit(n)
                            if isinstance(n.value, ast.Name) and n.value.id == "self" and n.attr in state:
                                k = state[n.attr]
                                if k[0] == "name":
                                    return ast.copy_location(ast.Constant(value=attr), n)
                                if k[1] in args:
                                    return ast.copy_location(ast.parse(ast.unparse(args[k[1]]), mode="eval").body, n)
                            return n

                        def visit_Name(self, n):
                            if n.id == objname:
                                return ast.copy_location(ast.Name(id="self", ctx=n.ctx), n)
                            return n

                        def visit_Call(self, n):
                            self.generic_visit(n)
                            # (lambda: E)()  ->  E ;  dict() -> {} ; list() -> []
                            if isinstance(n.func, ast.Lambda) and not n.args and not n.keywords and not n.func.args.args:
                                return n.func.body
                            if isinstance(n.func, ast.Name) and n.func.id in ("dict", "list") and not n.args and not n.keywords:
                                return ast.copy_location(ast.Dict(keys=[], values=[]) if n.func.id == "dict" else ast.List(elts=[], ctx=ast.Load()), n)
                            return n

                    # the descriptor's own `self` must be replaced before obj is renamed to self: two passes
                    tmp = R()
                    objn = objname
                    node = ast.parse(ast.unparse(node)).body[0] if isinstance(node, ast.stmt) else ast.parse(ast.unparse(node), mode="eval").body
                    class A(ast.NodeTransformer):
                        def visit_Attribute(self, n):
                            return tmp.visit_Attribute(n) if isinstance(n.value, ast.Name) and n.value.id == "self" else self.generic_visit(n)
                    node = A().visit(node)
                    class B(ast.NodeTransformer):
                        def visit_Name(self, n):
                            return tmp.visit_Name(n)
                        def visit_Call(self, n):
                            return tmp.visit_Call(n)
                    return B().visit(node)

                src = f"@property\ndef {attr}(self):\n    return {ast.unparse(subst(getexpr, obj))}\n"
                sobj, sval = setter.args.args[1].arg, setter.args.args[2].arg
                sbody = "\n".join("    " + ln for x in setter.body if not (isinstance(x, ast.Expr) and isinstance(x.value, ast.Constant)) for ln in ast.unparse(subst(x, sobj)).splitlines())
                src += f"@{attr}.setter\ndef {attr}(self, {sval}):\n{sbody}\n"
                for nd in ast.parse(src).body:
                    for y in ast.walk(nd):
                        ast.copy_location(y, st)
                    newbody.append(nd)
                used.add(v.func.id)
                log.append(f"descriptor {v.func.id} bound as {mi.name}.{cls.name}.{attr} written out as a property")
            cls.body = newbody
        ast.fix_missing_locations(mi.tree)


def inline_context_managers(modules, known_funcs, log):
    """`with cm(args) [as v]: BODY` for a @contextmanager generator introduced by a refactoring (module-level function or
    method called on self, one yield, optionally inside one try) is written out: the code before the yield, BODY in the place
    of the yield (inside the generator's try / except / finally if it has one), the code after it."""
    shared = {}  # module-level context managers, usable from modules that import them by name
    own = {}
    for mi in modules.values():
        cms = own.setdefault(mi.name, {})
        for holder, cls in [(mi.tree, None)] + [(c, c) for c in mi.tree.body if isinstance(c, ast.ClassDef)]:
            for fn in [x for x in holder.body if isinstance(x, ast.FunctionDef)]:
                q = f"{mi.name}.{cls.name + '.' if cls else ''}{fn.name}"
                if q in known_funcs or not any(ast.unparse(d).split(".")[-1] == "contextmanager" for d in fn.decorator_list):
                    continue
                ys = [n for n in ast.walk(fn) if isinstance(n, (ast.Yield, ast.YieldFrom))]
                if len(ys) != 1 or isinstance(ys[0], ast.YieldFrom):
                    continue
                body = [x for x in fn.body if not (isinstance(x, ast.Expr) and isinstance(x.value, ast.Constant))]
                # locate the statement holding the yield: top level, or top level of one try body
                where = None
                for i, st in enumerate(body):
                    if isinstance(st, ast.Expr) and st.value is ys[0]:
                        where = ("top", i, None)
                    elif isinstance(st, ast.Try):
                        for j, t in enumerate(st.body):
                            if isinstance(t, ast.Expr) and t.value is ys[0]:
                                where = ("try", i, j)
                if where is None or any(isinstance(n, ast.Return) and n.value is not None for n in ast.walk(fn)):
                    continue
                cms[(cls.name if cls else None, fn.name)] = (fn, body, where, ys[0])
                if cls is None:
                    shared[(None, fn.name)] = (fn, body, where, ys[0])
    for mi in modules.values():
        imported = {a.asname or a.name for st in mi.tree.body if isinstance(st, ast.ImportFrom) for a in st.names}
        cms = dict(own.get(mi.name, {}))
        cms.update({k_: v_ for k_, v_ in shared.items() if k_[1] in imported})
        if not cms:
            continue

        def expand(w, owner_cls):
            if len(w.items) != 1:
                return None
            it = w.items[0]
            c = it.context_expr
            if not isinstance(c, ast.Call):
                return None
            key = None
            if isinstance(c.func, ast.Name) and (None, c.func.id) in cms:
                key = (None, c.func.id)
            elif isinstance(c.func, ast.Attribute) and isinstance(c.func.value, ast.Name) and c.func.value.id == "self" and owner_cls is not None and (owner_cls, c.func.attr) in cms:
                key = (owner_cls, c.func.attr)
            if key is None:
                return None
            fn, body, where, y = cms[key]
            params = [a.arg for a in fn.args.args]
            if key[0] is not None and params and params[0] == "self":
                params = params[1:]
            if any(isinstance(a, ast.Starred) for a in c.args) or any(k.arg is None for k in c.keywords) or fn.args.vararg or fn.args.kwarg:
                return None
            mapping = {}
            for pn, av in zip(params, c.args):
                mapping[pn] = av
            for k in c.keywords:
                mapping[k.arg] = k.value
            for pn, dv in zip(reversed(params), reversed(fn.args.defaults)):
                mapping.setdefault(pn, dv)
            uses_ = {}
            for x_ in ast.walk(fn):
                if isinstance(x_, ast.Name) and x_.id in params:
                    uses_[x_.id] = uses_.get(x_.id, 0) + 1
            if set(mapping) != set(params) or not all(isinstance(v, (ast.Name, ast.Constant, ast.Attribute)) or uses_.get(k_, 0) <= 1 for k_, v in mapping.items()):
                return None
            stored = {n.id for n in ast.walk(fn) if isinstance(n, ast.Name) and isinstance(n.ctx, ast.Store)}
            if stored & set(params):
                return None

            def clone(st):
                return _NameSubst(mapping).visit(ast.parse(ast.unparse(st)).body[0])

            inner = list(w.body)
            if it.optional_vars is not None and y.value is not None:
                inner = [ast.Assign(targets=[it.optional_vars], value=_NameSubst(mapping).visit(ast.parse(ast.unparse(y.value), mode="eval").body))] + inner
            kind, i, j = where
            pre = [clone(x) for x in body[:i]]
            post = [clone(x) for x in body[i + 1 :]]
            if kind == "top":
                out = pre + inner + post
            else:
                t = clone(body[i])
                t.body = t.body[:j] + inner + t.body[j + 1 :]
                out = pre + [t] + post
            # what comes from the generator sits at the `with` line (before / after the block's own lines keep theirs):
            # statements before the yield at the with line, statements after it at the last line of the block
            last = max([getattr(z, "end_lineno", None) or getattr(z, "lineno", w.lineno) for b_ in w.body for z in ast.walk(b_) if hasattr(z, "lineno")] + [w.lineno])
            own_ids = {id(z) for b_ in w.body for z in ast.walk(b_)}
            seen_body = False
            for x in out:
                if id(x) in own_ids:
                    seen_body = True
                    continue
                at = last if seen_body else w.lineno
                for z in ast.walk(x):
                    if id(z) in own_ids:
                        continue
                    if hasattr(z, "lineno") or isinstance(z, (ast.stmt, ast.expr)):
                        z.lineno, z.col_offset, z.end_lineno, z.end_col_offset = at, 0, at, 0
                if isinstance(x, ast.Try):
                    seen_body = True
            log.append(f"context manager {key[1]} written out {mi.name}:{w.lineno}")
            return out

        def rec(stmts, owner_cls):
            out = []
            for st in stmts:
                for field in ("body", "orelse", "finalbody"):
                    blk = getattr(st, field, None)
                    if isinstance(blk, list) and blk and isinstance(blk[0], ast.stmt) and not isinstance(st, ast.ClassDef):
                        setattr(st, field, rec(blk, owner_cls))
                if isinstance(st, ast.Try):
                    for h in st.handlers:
                        h.body = rec(h.body, owner_cls)
                if isinstance(st, ast.With):
                    ex = expand(st, owner_cls)
                    if ex is not None:
                        out += ex
                        continue
                out.append(st)
            return out

        for st in mi.tree.body:
            if isinstance(st, ast.FunctionDef) and (None, st.name) not in cms:
                st.body = rec(st.body, None)
            elif isinstance(st, ast.ClassDef):
                for m in st.body:
                    if isinstance(m, ast.FunctionDef) and (st.name, m.name) not in cms:
                        m.body = rec(m.body, st.name)
        # drop the generators that are no longer referenced (anywhere)
        names = {x.id for m_ in modules.values() for x in ast.walk(m_.tree) if isinstance(x, ast.Name)} | {x.attr for x in ast.walk(mi.tree) if isinstance(x, ast.Attribute)}
        for (cn, fnname), (fn, *_r) in cms.items():
            if fnname in names or not any(fn is y for y in ast.walk(mi.tree)):
                continue
            if cn is None:
                mi.tree.body = [x for x in mi.tree.body if x is not fn]
            else:
                for c in mi.tree.body:
                    if isinstance(c, ast.ClassDef) and c.name == cn:
                        c.body = [x for x in c.body if x is not fn] or [ast.Pass()]
        ast.fix_missing_locations(mi.tree)


def prefix_decorators(modules, known_funcs, log):
    """A decorator introduced by a refactoring whose wrapper only runs some statements and then calls the wrapped function
    with the same arguments --

        def deco(method):
            @functools.wraps(method)
            def wrapper(self, *args, **kwargs):
                <prefix statements>
                return method(self, *args, **kwargs)
            return wrapper

    -- is applied by hand: the prefix goes to the top of every function decorated with it (first parameter renamed),
    the decorator is dropped.  Decorators that existed when the rules were written are left alone."""
    for mi in modules.values():
        decos = {}
        for st in mi.tree.body:
            if not isinstance(st, ast.FunctionDef) or f"{mi.name}.{st.name}" in known_funcs:
                continue
            a = st.args
            if len(a.args) != 1 or a.vararg or a.kwarg or a.kwonlyargs:
                continue
            body = [x for x in st.body if not (isinstance(x, ast.Expr) and isinstance(x.value, ast.Constant))]
            if len(body) != 2 or not isinstance(body[0], ast.FunctionDef) or not (isinstance(body[1], ast.Return) and isinstance(body[1].value, ast.Name) and body[1].value.id == body[0].name):
                continue
            w = body[0]
            wa = w.args
            if not (wa.vararg and wa.kwarg and not wa.kwonlyargs and not wa.defaults and len(wa.args) <= 1):
                continue
            if any(ast.unparse(d) not in (f"functools.wraps({a.args[0].arg})", f"wraps({a.args[0].arg})") for d in w.decorator_list):
                continue
            wb = [x for x in w.body if not (isinstance(x, ast.Expr) and isinstance(x.value, ast.Constant))]
            first = wa.args[0].arg if wa.args else None
            want = f"return {a.args[0].arg}({first + ', ' if first else ''}*{wa.vararg.arg}, **{wa.kwarg.arg})"
            if not wb or ast.unparse(wb[-1]) != want:
                continue
            prefix = wb[:-1]
            if any(isinstance(x, (ast.Return, ast.Yield, ast.YieldFrom, ast.FunctionDef, ast.Lambda)) for p_ in prefix for x in ast.walk(p_)):
                continue
            used = {x.id for p_ in prefix for x in ast.walk(p_) if isinstance(x, ast.Name)}
            if used & {wa.vararg.arg, wa.kwarg.arg, a.args[0].arg}:
                continue
            decos[st.name] = (first, prefix)
        if not decos:
            continue
        for fn in [x for x in ast.walk(mi.tree) if isinstance(x, (ast.FunctionDef, ast.AsyncFunctionDef))]:
            keep = []
            for d in fn.decorator_list:
                if isinstance(d, ast.Name) and d.id in decos:
                    first, prefix = decos[d.id]
                    if first is not None and not fn.args.args:
                        keep.append(d)
                        continue
                    new = [ast.parse(ast.unparse(x)).body[0] for x in prefix]
                    if first is not None and fn.args.args[0].arg != first:
                        for x in new:
                            for y in ast.walk(x):
                                if isinstance(y, ast.Name) and y.id == first:
                                    y.id = fn.args.args[0].arg
                    for x in new:
                        ast.copy_location(x, fn.body[0])
                        for y in ast.walk(x):
                            ast.copy_location(y, fn.body[0])
                    at = 1 if fn.body and isinstance(fn.body[0], ast.Expr) and isinstance(fn.body[0].value, ast.Constant) and isinstance(fn.body[0].value.value, str) else 0
                    fn.body[at:at] = new
                    log.append(f"prefix decorator @{d.id} applied to {mi.name}.{fn.name}")
                else:
                    keep.append(d)
            fn.decorator_list = keep
        used_names = {x.id for x in ast.walk(mi.tree) if isinstance(x, ast.Name)}
        mi.tree.body = [st for st in mi.tree.body if not (isinstance(st, ast.FunctionDef) and st.name in decos and st.name not in used_names)]


def intenum_members(modules, log):
    """`Cls.MEMBER` of an IntEnum class whose members are integer literals reads as that integer (row[_Col.ID] is row[0])"""
    table = {}
    for mi in modules.values():
        for st in mi.tree.body:
            if isinstance(st, ast.ClassDef) and any(ast.unparse(b) in ("IntEnum", "enum.IntEnum") for b in st.bases):
                mem = {}
                for c in st.body:
                    if isinstance(c, ast.Assign) and len(c.targets) == 1 and isinstance(c.targets[0], ast.Name) and isinstance(c.value, ast.Constant) and isinstance(c.value.value, int) and not isinstance(c.value.value, bool):
                        mem[c.targets[0].id] = c.value.value
                if mem:
                    table[(mi.name, st.name)] = mem
    if not table:
        return
    for mi in modules.values():
        visible = {cn: mem for (mn, cn), mem in table.items() if mn == mi.name}
        for st in ast.walk(mi.tree):
            if isinstance(st, ast.ImportFrom):
                for a in st.names:
                    for (mn, cn), mem in table.items():
                        if a.name == cn and (st.module or "").split(".")[-1] == mn.split(".")[-1]:
                            visible[a.asname or a.name] = mem
        if not visible:
            continue

        class R(ast.NodeTransformer):
            def visit_Attribute(self, n):
                self.generic_visit(n)
                if isinstance(n.ctx, ast.Load) and isinstance(n.value, ast.Name) and n.value.id in visible and n.attr in visible[n.value.id]:
                    log.append(f"IntEnum member {n.value.id}.{n.attr} -> {visible[n.value.id][n.attr]} in {mi.name}:{n.lineno}")
                    return ast.copy_location(ast.Constant(value=visible[n.value.id][n.attr]), n)
                if isinstance(n.ctx, ast.Load) and n.attr == "value" and isinstance(n.value, ast.Constant) and isinstance(n.value.value, int):
                    return n.value  # Cls.MEMBER.value
                return n

        mi.tree = R().visit(mi.tree)
        ast.fix_missing_locations(mi.tree)


def peewee_shortcuts(modules, log):
    """peewee's primary-key shortcuts are written out as the queries they are defined as (peewee/Model):
         M.get_by_id(k)        ->  M.get(M.<pk> == k)
         M.delete_by_id(k)     ->  M.delete().where(M.<pk> == k).execute()
         [return | v =] M.get_or_none(c1, c2)  ->  try: ... M.select().where(c1).where(c2).get()  except DoesNotExist: ... None"""
    pks = {}
    for mi in modules.values():
        for st in mi.tree.body:
            if isinstance(st, ast.ClassDef):
                for c in st.body:
                    if isinstance(c, ast.Assign) and len(c.targets) == 1 and isinstance(c.targets[0], ast.Name) and isinstance(c.value, ast.Call):
                        fn = ast.unparse(c.value.func)
                        if fn.split(".")[-1] == "AutoField" or any(k.arg == "primary_key" and isinstance(k.value, ast.Constant) and k.value.value is True for k in c.value.keywords):
                            pks[st.name] = c.targets[0].id
    if not pks:
        return

    def pk_eq(model, arg):
        return ast.Compare(left=ast.Attribute(value=ast.Name(id=model, ctx=ast.Load()), attr=pks[model], ctx=ast.Load()), ops=[ast.Eq()], comparators=[arg])

    for mi in modules.values():
        has_peewee = any(isinstance(st, ast.Import) and any(a.name == "peewee" and a.asname is None for a in st.names) for st in mi.tree.body)

        class R(ast.NodeTransformer):
            def visit_Call(self, n):
                self.generic_visit(n)
                f = n.func
                if isinstance(f, ast.Attribute) and isinstance(f.value, ast.Name) and f.value.id in pks and len(n.args) == 1 and not n.keywords:
                    m = f.value.id
                    if f.attr == "get_by_id":
                        log.append(f"{m}.get_by_id written out in {mi.name}:{n.lineno}")
                        return ast.copy_location(ast.Call(func=ast.Attribute(value=ast.Name(id=m, ctx=ast.Load()), attr="get", ctx=ast.Load()), args=[pk_eq(m, n.args[0])], keywords=[]), n)
                    if f.attr == "delete_by_id":
                        log.append(f"{m}.delete_by_id written out in {mi.name}:{n.lineno}")
                        d = ast.Call(func=ast.Attribute(value=ast.Name(id=m, ctx=ast.Load()), attr="delete", ctx=ast.Load()), args=[], keywords=[])
                        w = ast.Call(func=ast.Attribute(value=d, attr="where", ctx=ast.Load()), args=[pk_eq(m, n.args[0])], keywords=[])
                        return ast.copy_location(ast.Call(func=ast.Attribute(value=w, attr="execute", ctx=ast.Load()), args=[], keywords=[]), n)
                return n

        mi.tree = R().visit(mi.tree)

        def gon(e):
            return isinstance(e, ast.Call) and isinstance(e.func, ast.Attribute) and e.func.attr == "get_or_none" and isinstance(e.func.value, ast.Name) and e.func.value.id in pks and e.args and not e.keywords

        def chain(e):
            m = e.func.value.id
            q = ast.Call(func=ast.Attribute(value=ast.Name(id=m, ctx=ast.Load()), attr="select", ctx=ast.Load()), args=[], keywords=[])
            for c in e.args:
                q = ast.Call(func=ast.Attribute(value=q, attr="where", ctx=ast.Load()), args=[c], keywords=[])
            return ast.Call(func=ast.Attribute(value=q, attr="get", ctx=ast.Load()), args=[], keywords=[])

        def exc(e):
            return ast.parse("peewee.DoesNotExist" if has_peewee else f"{e.func.value.id}.DoesNotExist", mode="eval").body

        def rec(stmts):
            out = []
            for st in stmts:
                for field in ("body", "orelse", "finalbody"):
                    blk = getattr(st, field, None)
                    if isinstance(blk, list) and blk and isinstance(blk[0], ast.stmt):
                        setattr(st, field, rec(blk))
                if isinstance(st, ast.Try):
                    for h in st.handlers:
                        h.body = rec(h.body)
                v = getattr(st, "value", None)
                if isinstance(st, ast.Return) and gon(v):
                    new = ast.Try(body=[ast.Return(value=chain(v))], handlers=[ast.ExceptHandler(type=exc(v), name=None, body=[ast.Return(value=ast.Constant(value=None))])], orelse=[], finalbody=[])
                elif isinstance(st, ast.Assign) and len(st.targets) == 1 and isinstance(st.targets[0], ast.Name) and gon(v):
                    t = st.targets[0].id
                    new = ast.Try(body=[ast.Assign(targets=[ast.Name(id=t, ctx=ast.Store())], value=chain(v))], handlers=[ast.ExceptHandler(type=exc(v), name=None, body=[ast.Assign(targets=[ast.Name(id=t, ctx=ast.Store())], value=ast.Constant(value=None))])], orelse=[], finalbody=[])
                else:
                    out.append(st)
                    continue
                ast.copy_location(new, st)
                for x in ast.walk(new):
                    if not hasattr(x, "lineno") or x.lineno is None:
                        ast.copy_location(x, st)
                log.append(f"get_or_none written out in {mi.name}:{st.lineno}")
                out.append(new)
            return out

        for fn in [x for x in ast.walk(mi.tree) if isinstance(x, (ast.FunctionDef, ast.AsyncFunctionDef))]:
            fn.body = rec(fn.body)
        ast.fix_missing_locations(mi.tree)


_KNOWN_FUNCS: set = set()


def iter_temp_to_for(fn, log, modname):
    """x = <iterable expression>        ->   for t in <iterable expression>:
       for t in x:                            (x bound once, read once, by the loop that follows the binding directly)"""
    stores, loads = {}, {}
    for n in ast.walk(fn):
        if isinstance(n, ast.Name):
            (stores if isinstance(n.ctx, ast.Store) else loads).setdefault(n.id, []).append(n)
    done = []

    def block(stmts):
        out = []
        i = 0
        while i < len(stmts):
            st = stmts[i]
            nxt = stmts[i + 1] if i + 1 < len(stmts) else None
            if isinstance(st, ast.Assign) and len(st.targets) == 1 and isinstance(st.targets[0], ast.Name) and isinstance(nxt, ast.For) and isinstance(nxt.iter, ast.Name) and nxt.iter.id == st.targets[0].id and isinstance(st.value, ast.Call):
                x = st.targets[0].id
                if len(stores.get(x, [])) == 1 and len(loads.get(x, [])) == 1 and not any(isinstance(y, (ast.NamedExpr, ast.Yield, ast.Await)) for y in ast.walk(st.value)):
                    nxt.iter = st.value
                    done.append(x)
                    i += 1
                    continue
            for f_ in ("body", "orelse", "finalbody"):
                if hasattr(st, f_) and isinstance(getattr(st, f_), list) and not isinstance(st, (ast.FunctionDef, ast.AsyncFunctionDef, ast.ClassDef)):
                    setattr(st, f_, block(getattr(st, f_)))
            out.append(st)
            i += 1
        return out

    fn.body = block(fn.body)
    if done:
        log.append(f"iterable held in a single-use local written into its loop {modname}:{fn.name} {done}")


_PURE_TEST_CALLS = ("datetime.now", "datetime.datetime.now", "time.time", "time.monotonic", "len", "timedelta", "datetime.timedelta", "isinstance")


def test_temps_to_condition(fn, log, modname):
    """a = <comparison>; b = <comparison>; if a or b: ...   ->   if <comparison> or <comparison>: ...
    (locals bound once to a comparison over pure / clock reads, read once, by the `if` that follows the bindings directly)"""
    stores, loads = {}, {}
    for n in ast.walk(fn):
        if isinstance(n, ast.Name):
            (stores if isinstance(n.ctx, ast.Store) else loads).setdefault(n.id, []).append(n)
    done = []

    def pure(v):
        if not isinstance(v, (ast.Compare, ast.BoolOp)):
            return False
        for y in ast.walk(v):
            if isinstance(y, (ast.NamedExpr, ast.Yield, ast.Await, ast.Lambda)):
                return False
            if isinstance(y, ast.Call) and not (ast.unparse(y.func) in _PURE_TEST_CALLS or (isinstance(y.func, ast.Attribute) and y.func.attr in ("total_seconds", "timestamp"))):
                return False
        return True

    def block(stmts):
        out = list(stmts)
        i = 0
        while i < len(out):
            st = out[i]
            if isinstance(st, ast.If):
                # the run of qualifying bindings directly above the `if`
                j = i
                env = {}
                while j > 0:
                    p_ = out[j - 1]
                    if isinstance(p_, ast.Assign) and len(p_.targets) == 1 and isinstance(p_.targets[0], ast.Name) and pure(p_.value):
                        x = p_.targets[0].id
                        in_test = [n for n in ast.walk(st.test) if isinstance(n, ast.Name) and n.id == x]
                        if len(stores.get(x, [])) == 1 and len(loads.get(x, [])) == 1 and len(in_test) == 1:
                            env[x] = p_.value
                            j -= 1
                            continue
                    break
                if env:
                    class R(ast.NodeTransformer):
                        def visit_Name(self, n):
                            return ast.copy_location(ast.parse(ast.unparse(env[n.id]), mode="eval").body, n) if n.id in env and isinstance(n.ctx, ast.Load) else n

                    st.test = R().visit(st.test)
                    ast.fix_missing_locations(st)
                    del out[j:i]
                    i = j
                    done.extend(sorted(env))
            for f_ in ("body", "orelse", "finalbody"):
                if hasattr(st, f_) and isinstance(getattr(st, f_), list) and not isinstance(st, (ast.FunctionDef, ast.AsyncFunctionDef, ast.ClassDef)):
                    setattr(st, f_, block(getattr(st, f_)))
            i += 1
        return out

    fn.body = block(fn.body)
    if done:
        log.append(f"comparison temporaries written into the test they feed {modname}:{fn.name} {done}")


def two_arm_to_ifexp(fn, log, modname):
    """`if c: x = A` / `else: x = B` with x a local bound nowhere else and read exactly once afterwards  ->  `x = A if c else B`
    (the spelled-out form of a conditional expression; the single read lets the temporary be written back in place later)"""
    stores = {}
    loads = {}
    for n in ast.walk(fn):
        if isinstance(n, ast.Name):
            (stores if isinstance(n.ctx, ast.Store) else loads).setdefault(n.id, []).append(n)
    params = {a.arg for a in fn.args.posonlyargs + fn.args.args + fn.args.kwonlyargs}

    def block(stmts):
        out = []
        for st in stmts:
            for f_ in ("body", "orelse", "finalbody"):
                if hasattr(st, f_) and isinstance(getattr(st, f_), list) and not isinstance(st, (ast.FunctionDef, ast.AsyncFunctionDef, ast.ClassDef)):
                    setattr(st, f_, block(getattr(st, f_)))
            if isinstance(st, ast.If) and len(st.body) == 1 and len(st.orelse) == 1 and all(isinstance(x, ast.Assign) and len(x.targets) == 1 and isinstance(x.targets[0], ast.Name) for x in (st.body[0], st.orelse[0])):
                a, b = st.body[0], st.orelse[0]
                x = a.targets[0].id
                if b.targets[0].id == x and x not in params and len(stores.get(x, [])) == 2 and len(loads.get(x, [])) == 1 and not any(isinstance(y, (ast.NamedExpr, ast.Yield, ast.Await, ast.IfExp)) for v in (a.value, b.value, st.test) for y in ast.walk(v)) and not any(isinstance(y, ast.Name) and y.id == x for v in (a.value, b.value, st.test) for y in ast.walk(v)):
                    new = ast.Assign(targets=[ast.Name(id=x, ctx=ast.Store())], value=ast.IfExp(test=st.test, body=a.value, orelse=b.value))
                    ast.copy_location(new, st)
                    ast.copy_location(new.value, st)
                    ast.fix_missing_locations(new)
                    out.append(new)
                    log.append(f"two-armed binding written as a conditional expression {modname}:{fn.name} {x}")
                    continue
            out.append(st)
        return out

    fn.body = block(fn.body)


class _Beta(ast.NodeTransformer):
    """(lambda p: BODY)(arg) -> BODY[p := arg]: an immediately applied lambda, as left by the expansion of a helper that was
    handed a function (each parameter read at most once, or the argument is a plain name / constant)"""

    def __init__(self, log, modname):
        self.log, self.modname = log, modname

    def visit_Call(self, n):
        self.generic_visit(n)
        f = n.func
        if isinstance(f, ast.Lambda) and not n.keywords and not f.args.defaults and not f.args.vararg and not f.args.kwarg and not f.args.kwonlyargs and len(n.args) == len(f.args.args) and not any(isinstance(a, ast.Starred) for a in n.args):
            params = [a.arg for a in f.args.args]
            if any(isinstance(x, (ast.Lambda, ast.ListComp, ast.SetComp, ast.DictComp, ast.GeneratorExp)) for x in ast.walk(f.body)):
                return n
            mapping = {}
            for p_, a in zip(params, n.args):
                reads = sum(1 for x in ast.walk(f.body) if isinstance(x, ast.Name) and x.id == p_)
                if reads > 1 and not isinstance(a, (ast.Name, ast.Constant)):
                    return n
                mapping[p_] = a
            free_in_args = {x.id for a in n.args for x in ast.walk(a) if isinstance(x, ast.Name)}

            class S(ast.NodeTransformer):
                def visit_Name(self, x):
                    return mapping[x.id] if x.id in mapping and isinstance(x.ctx, ast.Load) else x

            body = S().visit(ast.parse(ast.unparse(f.body), mode="eval").body)
            ast.copy_location(body, n)
            for x in ast.walk(body):
                if not hasattr(x, "lineno"):
                    ast.copy_location(x, n)
            self.log.append(f"immediately applied lambda reduced {self.modname}:{n.lineno}")
            return body
        return n


def arms_to_ifexp_after_expansion(fn, log, modname):
    """after a helper with guard clauses was expanded at `if helper(...):`
        if C: v__h = K            (K a literal)
        else: [t = E1;] v__h = E2  (t read once, by E2)
    becomes `v__h = K if C else E2[t := E1]`, which the single-use pass then writes into the test it feeds"""

    def arm_value(arm, nm):
        if len(arm) == 1 and isinstance(arm[0], ast.Assign) and len(arm[0].targets) == 1 and isinstance(arm[0].targets[0], ast.Name) and arm[0].targets[0].id == nm:
            return arm[0].value
        if len(arm) == 2 and all(isinstance(x, ast.Assign) and len(x.targets) == 1 and isinstance(x.targets[0], ast.Name) for x in arm) and arm[1].targets[0].id == nm:
            t = arm[0].targets[0].id
            reads = [x for x in ast.walk(fn) if isinstance(x, ast.Name) and x.id == t and isinstance(x.ctx, ast.Load)]
            stores = [x for x in ast.walk(fn) if isinstance(x, ast.Name) and x.id == t and isinstance(x.ctx, ast.Store)]
            inside = [x for x in ast.walk(arm[1].value) if isinstance(x, ast.Name) and x.id == t]
            if len(reads) == 1 and len(stores) == 1 and len(inside) == 1 and not any(isinstance(y, (ast.NamedExpr, ast.Yield, ast.Await)) for y in ast.walk(arm[0].value)):
                class R(ast.NodeTransformer):
                    def visit_Name(self, n):
                        return ast.parse(ast.unparse(arm[0].value), mode="eval").body if n.id == t and isinstance(n.ctx, ast.Load) else n
                return R().visit(ast.parse(ast.unparse(arm[1].value), mode="eval").body)
        return None

    def block(stmts):
        out = []
        for st in stmts:
            for f_ in ("body", "orelse", "finalbody"):
                if hasattr(st, f_) and isinstance(getattr(st, f_), list) and not isinstance(st, (ast.FunctionDef, ast.AsyncFunctionDef, ast.ClassDef)):
                    setattr(st, f_, block(getattr(st, f_)))
            if isinstance(st, ast.If) and st.body and st.orelse:
                last = st.body[-1]
                nm = last.targets[0].id if isinstance(last, ast.Assign) and len(last.targets) == 1 and isinstance(last.targets[0], ast.Name) else None
                if nm and nm.endswith("__h"):
                    a, b = arm_value(st.body, nm), arm_value(st.orelse, nm)
                    if a is not None and b is not None and (isinstance(a, ast.Constant) or isinstance(b, ast.Constant)):
                        new = ast.Assign(targets=[ast.Name(id=nm, ctx=ast.Store())], value=ast.IfExp(test=st.test, body=a, orelse=b))
                        ast.copy_location(new, st)
                        ast.fix_missing_locations(new)
                        for x in ast.walk(new):
                            if not hasattr(x, "lineno"):
                                ast.copy_location(x, st)
                        out.append(new)
                        log.append(f"expanded guard clauses written as one conditional expression {modname}:{fn.name} {nm}")
                        continue
            out.append(st)
        return out

    fn.body = block(fn.body)


class _BoolIfExp(ast.NodeTransformer):
    """in a test:  (False if C else E) -> (not C) and E ;  (True if C else E) -> C or E ;  (E if C else False) -> C and E"""

    def visit_If(self, n):
        self.generic_visit(n)
        n.test = self._t(n.test)
        return n

    visit_While = visit_If

    def _t(self, e):
        if isinstance(e, ast.UnaryOp) and isinstance(e.op, ast.Not):
            e.operand = self._t(e.operand)
            return e
        if isinstance(e, ast.BoolOp):
            e.values = [self._t(v) for v in e.values]
            return e
        if isinstance(e, ast.IfExp):
            k_body = e.body.value if isinstance(e.body, ast.Constant) and isinstance(e.body.value, bool) else None
            k_else = e.orelse.value if isinstance(e.orelse, ast.Constant) and isinstance(e.orelse.value, bool) else None
            new = None
            if k_body is False:
                new = ast.BoolOp(op=ast.And(), values=[ast.UnaryOp(op=ast.Not(), operand=e.test), self._t(e.orelse)])
            elif k_body is True:
                new = ast.BoolOp(op=ast.Or(), values=[e.test, self._t(e.orelse)])
            elif k_else is False:
                new = ast.BoolOp(op=ast.And(), values=[e.test, self._t(e.body)])
            elif k_else is True:
                new = ast.BoolOp(op=ast.Or(), values=[ast.UnaryOp(op=ast.Not(), operand=e.test), self._t(e.body)])
            if new is not None:
                ast.copy_location(new, e)
                for x in ast.walk(new):
                    if not hasattr(x, "lineno"):
                        ast.copy_location(x, e)
                # flatten nested and
                if isinstance(new.op, ast.And):
                    flat = []
                    for v in new.values:
                        flat += v.values if isinstance(v, ast.BoolOp) and isinstance(v.op, ast.And) else [v]
                    new.values = flat
                return new
        return e


def prefix_slice_to_token(fn, log, modname):
    """T = ""; for c in S: (T += c | break)   ...   S[:len(T)]  ->  T
    T is, by construction, the leading len(T) characters of S (every round either appends the current character or stops)"""
    inits = {}
    for n in ast.walk(fn):
        if isinstance(n, ast.Assign) and len(n.targets) == 1 and isinstance(n.targets[0], ast.Name) and isinstance(n.value, ast.Constant) and n.value.value == "":
            inits.setdefault(n.targets[0].id, []).append(n)
    # a temporary of an expansion that holds len(<local>) is written back (len of a str local is pure and cheap)
    for n in list(ast.walk(fn)):
        if isinstance(n, ast.Assign) and len(n.targets) == 1 and isinstance(n.targets[0], ast.Name) and n.targets[0].id.endswith("__h") and isinstance(n.value, ast.Call) and ast.unparse(n.value.func) == "len" and len(n.value.args) == 1 and isinstance(n.value.args[0], ast.Name) and n.value.args[0].id in inits:
            X, Tn = n.targets[0].id, n.value.args[0].id
            if sum(1 for x in ast.walk(fn) if isinstance(x, ast.Name) and x.id == X and isinstance(x.ctx, ast.Store)) != 1:
                continue
            # the local is not re-bound between the temporary and its reads: only `+=` inside the scanning loop, which is over
            later_store = [x for x in ast.walk(fn) if isinstance(x, ast.Name) and x.id == Tn and isinstance(x.ctx, ast.Store) and getattr(x, "lineno", 0) > n.lineno]
            if later_store:
                continue

            class L(ast.NodeTransformer):
                def visit_Name(self, x):
                    if x.id == X and isinstance(x.ctx, ast.Load):
                        return ast.copy_location(ast.parse(f"len({Tn})", mode="eval").body, x)
                    return x

            L().visit(fn)

            class D(ast.NodeTransformer):
                def visit_Assign(self, a):
                    return None if a is n else a

            D().visit(fn)
            ast.fix_missing_locations(fn)
    done = []
    for T, ini in inits.items():
        if len(ini) != 1:
            continue
        stores = [x for x in ast.walk(fn) if isinstance(x, ast.Name) and x.id == T and isinstance(x.ctx, ast.Store)]
        augs = [x for x in ast.walk(fn) if isinstance(x, ast.AugAssign) and isinstance(x.target, ast.Name) and x.target.id == T]
        if len(stores) != 1 + len(augs) or not augs:
            continue
        loops = [l for l in ast.walk(fn) if isinstance(l, ast.For) and any(a is x for x in ast.walk(l) for a in augs)]
        if len(loops) != 1 or loops[0].orelse:
            continue
        lp = loops[0]
        S = c = None
        if isinstance(lp.target, ast.Name) and isinstance(lp.iter, ast.Name):
            S, c = lp.iter.id, lp.target.id
        elif isinstance(lp.target, ast.Tuple) and len(lp.target.elts) == 2 and all(isinstance(e, ast.Name) for e in lp.target.elts) and isinstance(lp.iter, ast.Call) and ast.unparse(lp.iter.func) == "enumerate" and len(lp.iter.args) == 1 and isinstance(lp.iter.args[0], ast.Name):
            S, c = lp.iter.args[0].id, lp.target.elts[1].id
        if S is None or any(isinstance(x, ast.Name) and x.id == S and isinstance(x.ctx, ast.Store) for x in ast.walk(fn)):
            continue
        if any(isinstance(x, ast.Continue) for x in ast.walk(lp)):
            continue

        def ok(block):
            block = [b for b in block if not (isinstance(b, ast.Expr) and isinstance(b.value, ast.Constant))]
            if len(block) == 1 and isinstance(block[0], ast.If):
                return ok(block[0].body) and bool(block[0].orelse) and ok(block[0].orelse)
            if block and isinstance(block[-1], (ast.Break, ast.Return, ast.Raise)) and not any(a is x for b in block for x in ast.walk(b) for a in augs):
                return True
            if len(block) == 1 and isinstance(block[0], ast.AugAssign) and block[0] in augs and isinstance(block[0].op, ast.Add) and isinstance(block[0].value, ast.Name) and block[0].value.id == c:
                return True
            return False

        if not ok(lp.body):
            continue
        want = f"{S}[:len({T})]"
        in_loop = {id(x) for x in ast.walk(lp)}
        # ... and the loop is followed by no other loop that could run before the slice is taken with a longer T: T is only
        # ever extended inside this loop, so after it T is final

        class R(ast.NodeTransformer):
            def visit_Subscript(self, n):
                self.generic_visit(n)
                if ast.unparse(n) == want and id(n) not in in_loop:
                    done.append(want)
                    return ast.copy_location(ast.Name(id=T, ctx=ast.Load()), n)
                return n

        R().visit(fn)
    if done:
        log.append(f"slice that re-takes the scanned prefix read as the token {modname}:{fn.name} {sorted(set(done))}")


PW_BUILDERS = ("where", "order_by", "limit", "offset")


def refine_last(fn, log, modname):
    """peewee: `q = self._where_range(CHAIN, s, e).order_by(k).limit(n)` -> `q = CHAIN.order_by(k).limit(n)` followed by
    `q = self._where_range(q, s, e)`; `return self._where_range(CHAIN, s, e).count()` -> the three statements the rules
    know.  _where_range only adds where() conjuncts to the query it is given and the builder calls of a select commute
    (WHERE / ORDER BY / LIMIT clauses of one statement), so both spellings build the same statement"""
    if not modname.endswith("peewee"):
        return

    def split(v):
        """v = ROOT.m1(..).m2(..) with ROOT = self._where_range(A, ...)  ->  (root call, [outer calls, innermost first])"""
        outer = []
        n = v
        while isinstance(n, ast.Call) and isinstance(n.func, ast.Attribute):
            if ast.unparse(n.func) == "self._where_range":
                return n, outer[::-1]
            outer.append(n)
            n = n.func.value
        return None, None

    def block(stmts):
        out = []
        for st in stmts:
            for f_ in ("body", "orelse", "finalbody"):
                if hasattr(st, f_) and isinstance(getattr(st, f_), list) and not isinstance(st, (ast.FunctionDef, ast.AsyncFunctionDef, ast.ClassDef)):
                    setattr(st, f_, block(getattr(st, f_)))
            v = st.value if isinstance(st, (ast.Assign, ast.Return)) else None
            root, outer = split(v) if v is not None else (None, None)
            if root is None or not root.args or isinstance(root.args[0], ast.Name) and not outer:
                out.append(st)
                continue
            tail_count = bool(outer) and outer[-1].func.attr in ("count", "execute") and isinstance(st, ast.Return)
            builders = outer[:-1] if tail_count else outer
            if not all(c.func.attr in PW_BUILDERS for c in builders) or (isinstance(st, ast.Return) and not tail_count):
                out.append(st)
                continue
            if isinstance(st, ast.Assign) and not (len(st.targets) == 1 and isinstance(st.targets[0], ast.Name)):
                out.append(st)
                continue
            q = st.targets[0].id if isinstance(st, ast.Assign) else "q"
            chain = ast.unparse(root.args[0])
            for c in builders:
                chain = f"({chain}).{c.func.attr}({', '.join([ast.unparse(a) for a in c.args] + [ast.unparse(k) for k in c.keywords])})"
            rest = ", ".join([ast.unparse(a) for a in root.args[1:]] + [ast.unparse(k) for k in root.keywords])
            src = f"{q} = {chain}\n{q} = self._where_range({q}{', ' + rest if rest else ''})\n"
            if tail_count:
                c = outer[-1]
                src += f"return {q}.{c.func.attr}({', '.join(ast.unparse(a) for a in c.args)})\n"
            new = ast.parse(src).body
            for x in new:
                ast.copy_location(x, st)
                for y in ast.walk(x):
                    if not hasattr(y, "lineno") or True:
                        y.lineno, y.col_offset = st.lineno, getattr(y, "col_offset", 0)
                        y.end_lineno, y.end_col_offset = st.lineno, getattr(y, "end_col_offset", 0)
            out += new
            log.append(f"window refinement written as its own statement {modname}:{fn.name}")
        return out

    fn.body = block(fn.body)


def post_inline(modules):
    log = []
    for mi in modules.values():
        mi.tree = _Beta(log, mi.name).visit(mi.tree)
        mi.tree = _Misc(log, mi.name).visit(mi.tree)
        ast.fix_missing_locations(mi.tree)
        for n in ast.walk(mi.tree):
            if isinstance(n, (ast.FunctionDef, ast.AsyncFunctionDef)):
                dict_items_to_pairs(n, log, mi.name)
                filter_loop_to_comprehension(n, log, mi.name)
                truth_alias(n, log, mi.name)
                arms_to_ifexp_after_expansion(n, log, mi.name)
                inline_single_use_temps(n, log, mi.name)
                _BoolIfExp().visit(n)
                push_negations(n, log, mi.name)
                refine_last(n, log, mi.name)
                prefix_slice_to_token(n, log, mi.name)
        mi.tree = _Beta(log, mi.name).visit(mi.tree)
        ast.fix_missing_locations(mi.tree)
    return [f"(after expansion) {l}" for l in log]


def run(modules, known_funcs):
    """normalise all module trees in place; returns the list of rewrites performed"""
    log = []
    _KNOWN_FUNCS.clear()
    _KNOWN_FUNCS.update(known_funcs)
    merge_new_modules(modules, known_funcs, log)
    copy_new_imported_helpers(modules, known_funcs, log)
    property_calls_to_decorators(modules, log)
    fold_new_bases(modules, known_funcs, log)
    singledispatch_chains(modules, log)
    dissolve_method_objects(modules, known_funcs, log)
    absorb_thin_wrappers(modules, known_funcs, log)
    recover_renames(modules, known_funcs, log)
    recover_nested_renames(modules, known_funcs, log)
    drop_local_annotations(modules, log)
    expand_descriptors(modules, log)
    recover_moved_methods(modules, known_funcs, log)
    classmethod_constructors(modules, log)
    composed_decorators(modules, known_funcs, log)
    prefix_decorators(modules, known_funcs, log)
    inline_context_managers(modules, known_funcs, log)
    canonical_imports(modules, log)
    role_named_locals(modules, log)
    specialise_new_parameters(modules, known_funcs, log)
    keywords_to_positional(modules, log)
    inline_constants(modules, log)
    intenum_members(modules, log)
    peewee_shortcuts(modules, log)
    namedtuple_fields(modules, log)
    for mi in modules.values():
        for _pass in range(2):  # statements produced by one rewrite are themselves rewritten in the second pass
            mi.tree = _Misc(log, mi.name).visit(mi.tree)
            ast.fix_missing_locations(mi.tree)
        for n in ast.walk(mi.tree):
            if isinstance(n, (ast.FunctionDef, ast.AsyncFunctionDef)):
                rows_comprehension_to_loop(n, log, mi.name)
                deque_to_index(n, log, mi.name)
                iterator_to_index(n, log, mi.name)
                prefix_scanner_to_token(n, log, mi.name)
                drop_log_only_locals(n, log, mi.name)
                logged_result_to_return(n, log, mi.name)
                flag_to_condition(n, log, mi.name)
                filter_loop_to_comprehension(n, log, mi.name)
                enumerate_start_to_counter(n, log, mi.name)
                dict_items_to_pairs(n, log, mi.name)
                scan_to_extremum(n, log, mi.name)
                first_match_to_loop(n, log, mi.name)
                last_alias_to_index(n, log, mi.name)
                work_then_continue_to_else(n, log, mi.name)
                truth_alias(n, log, mi.name)
                eafp_to_lbyl(n, log, mi.name)
                iter_temp_to_for(n, log, mi.name)
                test_temps_to_condition(n, log, mi.name)
    # spelled-out conditional expressions: only in functions that changed since the rules were written (the rules know the
    # statement form where the original has it)
    fps = known_fingerprints()
    for mi in modules.values():
        for q, node, _scope in iter_functions(mi.tree, mi.name):
            if fps.get(q) is not None:
                try:
                    same = fps.get(q) == fingerprint(node)
                except Exception:
                    same = False
                if same:
                    continue
            two_arm_to_ifexp(node, log, mi.name)
    return log
