"""E1 — statement-level control-flow graph with branch literals.

One node per simple statement, one branch node per *atomic* condition (``and`` / ``or`` /
``not`` / chained comparisons are expanded into branch edges, so every edge out of a
branch node carries one literal with its polarity), loop heads for ``while`` / ``for``,
handler nodes for ``except``.  Queries: reachability avoiding a node set (must-pass-
through), dominators / post-dominators, and acyclic path enumeration with the literals
assumed along each path.
"""
from __future__ import annotations

import ast
import copy

from .core import AnalysisError
from .model import parent, src


class Node:
    __slots__ = ("id", "kind", "ast", "line")

    def __init__(self, id, kind, ast_node=None):
        self.id = id
        self.kind = kind  # entry exit raise stmt branch loophead for except
        self.ast = ast_node
        self.line = getattr(ast_node, "lineno", None)

    def __repr__(self):
        t = ""
        if self.ast is not None:
            try:
                t = " ".join(ast.unparse(self.ast).split())[:60]
            except Exception:
                t = "?"
        return f"<{self.id}:{self.kind}@{self.line} {t}>"


class _Loop:
    def __init__(self, head):
        self.head = head
        self.breaks = []


class CFG:
    def __init__(self, fnode, body=None):
        """fnode: FunctionDef, or None with `body` = a statement list (e.g. a loop body, where
        `continue` / `break` leave through the normal exit)."""
        self.fnode = fnode
        self.nodes: list[Node] = []
        self.succ: dict[int, list] = {}
        self.pred: dict[int, list] = {}
        self.by_ast: dict[int, int] = {}
        self.entry = self._new("entry").id
        self.exit = self._new("exit").id
        self.rexit = self._new("raise").id
        self._loops: list[_Loop] = []
        self._handlers: list[list] = []  # stack of lists of (handler node id, type src)
        self._try_nodes: list[list] = []
        fr = self._seq(body if body is not None else fnode.body, [(self.entry, None)])
        self._connect(fr, self.exit)  # falling off the end

    # ---- construction -----------------------------------------------------
    def _new(self, kind, a=None):
        n = Node(len(self.nodes), kind, a)
        self.nodes.append(n)
        self.succ[n.id] = []
        self.pred[n.id] = []
        if a is not None:
            self.by_ast.setdefault(id(a), n.id)
        for tn in getattr(self, "_try_nodes", []):
            tn.append(n.id)
        return n

    def _edge(self, u, v, label=None):
        self.succ[u].append((v, label))
        self.pred[v].append((u, label))

    def _connect(self, frontier, v):
        for u, label in frontier:
            self._edge(u, v, label)

    def _seq(self, stmts, frontier):
        for s in stmts:
            frontier = self._stmt(s, frontier)
        return frontier

    def _cond(self, e, frontier):
        """-> (true frontier, false frontier)"""
        if isinstance(e, ast.BoolOp) and isinstance(e.op, ast.And):
            t, fs = frontier, []
            for v in e.values:
                t, f = self._cond(v, t)
                fs += f
            return t, fs
        if isinstance(e, ast.BoolOp) and isinstance(e.op, ast.Or):
            f, ts = frontier, []
            for v in e.values:
                t, f = self._cond(v, f)
                ts += t
            return ts, f
        if isinstance(e, ast.UnaryOp) and isinstance(e.op, ast.Not):
            t, f = self._cond(e.operand, frontier)
            return f, t
        if isinstance(e, ast.Compare) and len(e.ops) > 1:
            parts = []
            left = e.left
            for op, right in zip(e.ops, e.comparators):
                c = ast.Compare(left=left, ops=[op], comparators=[right])
                ast.copy_location(c, e)
                c._parent = parent(e)
                c._fn = getattr(e, "_fn", None)
                parts.append(c)
                left = right
            t, fs = frontier, []
            for c in parts:
                t, f = self._cond(c, t)
                fs += f
            self.by_ast.setdefault(id(e), self.by_ast[id(parts[0])])
            return t, fs
        n = self._new("branch", e)
        self._connect(frontier, n.id)
        if isinstance(e, ast.Constant):
            if e.value:
                return [(n.id, ("cond", e, True))], []
            return [], [(n.id, ("cond", e, False))]
        return [(n.id, ("cond", e, True))], [(n.id, ("cond", e, False))]

    def _raise_targets(self, exc_src):
        """Where does an explicit raise of class exc_src (may be None) go?"""
        targets = []
        for hs in reversed(self._handlers):
            for hid, tsrc in hs:
                names = [] if tsrc is None else [x.strip() for x in tsrc.strip("()").split(",")]
                if tsrc is None or any(nm.split(".")[-1] in ("Exception", "BaseException") for nm in names):
                    targets.append(hid)
                    return targets, False
                if exc_src is not None and any(nm.split(".")[-1] == exc_src.split(".")[-1] for nm in names):
                    targets.append(hid)
                    return targets, False
                targets.append(hid)  # may match (subclass relation unknown here)
        return targets, True

    def _stmt(self, s, frontier):
        if isinstance(s, ast.If):
            t, f = self._cond(s.test, frontier)
            self.by_ast.setdefault(id(s), self.by_ast.get(id(s.test), -1))
            return self._seq(s.body, t) + self._seq(s.orelse, f)
        if isinstance(s, ast.While):
            head = self._new("loophead", s)
            self._connect(frontier, head.id)
            t, f = self._cond(s.test, [(head.id, None)])
            lp = _Loop(head.id)
            self._loops.append(lp)
            body = self._seq(s.body, t)
            self._loops.pop()
            self._connect(body, head.id)
            after = self._seq(s.orelse, f)
            return after + lp.breaks
        if isinstance(s, (ast.For, ast.AsyncFor)):
            head = self._new("for", s)
            self._connect(frontier, head.id)
            lp = _Loop(head.id)
            self._loops.append(lp)
            body = self._seq(s.body, [(head.id, ("for", s, True))])
            self._loops.pop()
            self._connect(body, head.id)
            after = self._seq(s.orelse, [(head.id, ("for", s, False))])
            return after + lp.breaks
        if isinstance(s, ast.Try):
            hnodes = []
            for h in s.handlers:
                hn = self._new("except", h)
                hnodes.append((hn.id, src(h.type) if h.type is not None else None))
            self._handlers.append(hnodes)
            created = []
            self._try_nodes.append(created)
            body = self._seq(s.body, frontier)
            self._try_nodes.pop()
            self._handlers.pop()
            hset = {h for h, _ in hnodes}
            for nid in created:
                if nid in hset:
                    continue
                if self.nodes[nid].kind in ("stmt", "branch", "for") and not isinstance(self.nodes[nid].ast, (ast.Raise, ast.Return, ast.Pass, ast.Break, ast.Continue)):
                    for hid, tsrc in hnodes:
                        self._edge(nid, hid, ("exc", tsrc))
            body = self._seq(s.orelse, body)
            out = list(body)
            for (hid, _), h in zip(hnodes, s.handlers):
                out += self._seq(h.body, [(hid, None)])
            if s.finalbody:
                out = self._seq(s.finalbody, out)
            return out
        if isinstance(s, (ast.With, ast.AsyncWith)):
            n = self._new("stmt", s)
            self._connect(frontier, n.id)
            return self._seq(s.body, [(n.id, None)])
        if isinstance(s, ast.Return):
            n = self._new("stmt", s)
            self._connect(frontier, n.id)
            self._edge(n.id, self.exit, None)
            return []
        if isinstance(s, ast.Raise):
            n = self._new("stmt", s)
            self._connect(frontier, n.id)
            exc = None
            if s.exc is not None:
                exc = src(s.exc.func) if isinstance(s.exc, ast.Call) else src(s.exc)
            targets, also_out = self._raise_targets(exc)
            for t in targets:
                self._edge(n.id, t, ("exc", exc))
            if also_out:
                self._edge(n.id, self.rexit, None)
            return []
        if isinstance(s, ast.Break):
            n = self._new("stmt", s)
            self._connect(frontier, n.id)
            if not self._loops:
                self._edge(n.id, self.exit, ("break", s, True))
                return []
            self._loops[-1].breaks.append((n.id, None))
            return []
        if isinstance(s, ast.Continue):
            n = self._new("stmt", s)
            self._connect(frontier, n.id)
            if not self._loops:
                self._edge(n.id, self.exit, ("continue", s, True))
                return []
            self._edge(n.id, self._loops[-1].head, None)
            return []
        if isinstance(s, getattr(ast, "Match", ())):
            raise AnalysisError(f"match statement not modelled (line {s.lineno})")
        n = self._new("stmt", s)
        self._connect(frontier, n.id)
        return [(n.id, None)]

    # ---- lookup -----------------------------------------------------------
    def node_of(self, a):
        """CFG node holding AST node a (a statement, a test, or anything nested in one)."""
        n = a
        while n is not None:
            if id(n) in self.by_ast and self.by_ast[id(n)] >= 0:
                return self.by_ast[id(n)]
            n = parent(n)
        raise AnalysisError(f"no CFG node for {src(a)[:60]}")

    def stmt_nodes(self):
        return [n for n in self.nodes if n.kind in ("stmt", "branch", "for", "loophead", "except")]

    # ---- queries ----------------------------------------------------------
    def reach_avoiding(self, starts, avoid=frozenset(), include_start=False, skip_exc=False):
        """Nodes reachable from the successors of `starts` without entering `avoid`."""
        seen = set()
        work = []
        for s in starts:
            if include_start:
                work.append(s)
            else:
                for v, lab in self.succ[s]:
                    if skip_exc and lab and lab[0] == "exc":
                        continue
                    work.append(v)
        while work:
            u = work.pop()
            if u in seen or u in avoid:
                continue
            seen.add(u)
            for v, lab in self.succ[u]:
                if skip_exc and lab and lab[0] == "exc":
                    continue
                work.append(v)
        return seen

    def reach_filtered(self, start, edge_ok):
        """Nodes reachable from `start` (inclusive) using only edges (u, v, label) with edge_ok(u, v, label)."""
        seen, work = set(), [start]
        while work:
            u = work.pop()
            if u in seen:
                continue
            seen.add(u)
            for v, lab in self.succ[u]:
                if edge_ok(u, v, lab):
                    work.append(v)
        return seen

    def witness(self, start, goal, avoid=frozenset()):
        """A path (list of node ids) start -> goal avoiding `avoid`, or None."""
        prev = {start: None}
        work = [start]
        while work:
            u = work.pop(0)
            if u == goal and u != start:
                break
            for v, _ in self.succ[u]:
                if v in prev or v in avoid:
                    continue
                prev[v] = u
                work.append(v)
        if goal not in prev:
            return None
        p, u = [], goal
        while u is not None:
            p.append(u)
            u = prev[u]
        return p[::-1]

    def must_pass(self, start, targets, exits=None):
        """Does every path from `start` to a normal exit pass through a node in targets?
        -> (True, None) or (False, witness path as list of 'line: text')."""
        exits = exits if exits is not None else {self.exit}
        reach = self.reach_avoiding([start], avoid=set(targets))
        bad = [e for e in exits if e in reach]
        if not bad:
            return True, None
        w = self.witness(start, bad[0], avoid=set(targets))
        return False, self.describe_path(w)

    def describe_path(self, p):
        if not p:
            return []
        out = []
        for nid in p:
            n = self.nodes[nid]
            if n.kind in ("entry",):
                continue
            if n.kind == "exit":
                out.append("<normal exit>")
            elif n.kind == "raise":
                out.append("<raise exit>")
            else:
                t = " ".join(src(n.ast).split()) if n.ast is not None else ""
                if n.kind in ("for", "loophead"):
                    t = t.split(":")[0]
                out.append(f"{n.line}: {t[:80]}")
        return out

    def _dom(self, succ, pred, root):
        allnodes = set(self.reach_from(root, succ))
        dom = {n: set(allnodes) for n in allnodes}
        dom[root] = {root}
        changed = True
        order = list(allnodes)
        while changed:
            changed = False
            for n in order:
                if n == root:
                    continue
                ps = [p for p, _ in pred[n] if p in allnodes]
                new = set.intersection(*[dom[p] for p in ps]) if ps else set()
                new = new | {n}
                if new != dom[n]:
                    dom[n] = new
                    changed = True
        return dom

    def reach_from(self, root, succ=None):
        succ = succ or self.succ
        seen, work = set(), [root]
        while work:
            u = work.pop()
            if u in seen:
                continue
            seen.add(u)
            work.extend(v for v, _ in succ[u])
        return seen

    def dominators(self):
        if not hasattr(self, "_domc"):
            self._domc = self._dom(self.succ, self.pred, self.entry)
        return self._domc

    def postdominators(self):
        """Post-dominance with respect to the *normal* exit."""
        if not hasattr(self, "_pdomc"):
            self._pdomc = self._dom(self.pred, self.succ, self.exit)
        return self._pdomc

    def dominates(self, a, b):
        d = self.dominators()
        return b in d and a in d[b]

    def postdominates(self, a, b):
        """a is on every path from b to the normal exit."""
        d = self.postdominators()
        return b in d and a in d[b]

    def paths(self, start=None, ends=None, limit=5000):
        """Enumerate acyclic paths as lists of (node id, label taken out of it)."""
        start = self.entry if start is None else start
        ends = ends if ends is not None else {self.exit, self.rexit}
        out = []

        def rec(u, acc, seen):
            if len(out) > limit:
                raise AnalysisError("path explosion")
            if u in ends:
                out.append(acc + [(u, None)])
                return
            for v, lab in self.succ[u]:
                if v in seen:
                    continue
                rec(v, acc + [(u, lab)], seen | {v})

        rec(start, [], {start})
        return out

    def has_loop(self):
        return any(n.kind in ("for", "loophead") for n in self.nodes)

    def literals(self, path):
        """Branch literals (expr, polarity) assumed along a path."""
        return [(lab[1], lab[2]) for _, lab in path if lab and lab[0] == "cond"]


_cache: dict[int, CFG] = {}


def cfg_of(fi):
    k = id(fi.node)
    if k not in _cache:
        _cache[k] = CFG(fi.node)
    return _cache[k]


# ---------------------------------------------------------------------------
# reading edge labels


def membership(lab, key, cont):
    """What an edge says about `key in cont`:  True (asserts membership), False (asserts absence), None."""
    if not lab or lab[0] != "cond":
        return None
    e, pol = lab[1], lab[2]
    if isinstance(e, ast.Compare) and len(e.ops) == 1 and " ".join(ast.unparse(e.left).split()) == key and " ".join(ast.unparse(e.comparators[0]).split()) == cont:
        if isinstance(e.ops[0], ast.In):
            return pol
        if isinstance(e.ops[0], ast.NotIn):
            return not pol
    return None


def equality(lab, a, b):
    """What an edge says about `a == b` (either operand order):  True / False / None."""
    if not lab or lab[0] != "cond":
        return None
    e, pol = lab[1], lab[2]
    if isinstance(e, ast.Compare) and len(e.ops) == 1:
        l, r = " ".join(ast.unparse(e.left).split()), " ".join(ast.unparse(e.comparators[0]).split())
        if {l, r} == {a, b}:
            if isinstance(e.ops[0], (ast.Eq, ast.Is)):
                return pol
            if isinstance(e.ops[0], (ast.NotEq, ast.IsNot)):
                return not pol
    return None


def truth(lab, name):
    """What an edge says about the truthiness / non-None-ness of `name`."""
    if not lab or lab[0] != "cond":
        return None
    e, pol = lab[1], lab[2]
    t = " ".join(ast.unparse(e).split())
    if t == name:
        return pol
    if t in (f"{name} is not None", f"{name} != None"):
        return pol
    if t in (f"{name} is None", f"{name} == None"):
        return not pol
    return None
