"""C18 — buffered writes are flushed once they are about ten seconds old."""
from ..rules_commit import check_age_test, check_commit_discipline, check_fresh_age
from ..core import Report
from ..model import norm as norm_


def check(prog, rep):
    rep.level = "proof"
    rep.explanation = (
        "The age test in SqliteStorage.conditional_commit is canonicalised to an affine literal over {clock, self.last_commit} "
        "(E4) and its sign, constant and placement in the CFG (E1) are decided; every event write reaches conditional_commit "
        "(rule COMMIT-B, shared with C06)."
    )
    rep.trusted_base = ["the wall clock is non-decreasing between two calls", "conn.commit() makes the transaction durable (C06 trusted base)"]
    rep.not_decided = ["wall-clock monotonicity", "durability of the commit itself"]
    check_age_test(prog, rep)
    check_fresh_age(prog, rep)
    # nothing on the way from the age test to the flush raises by construction (a log line in the old branch that cannot be built
    # makes every write that should flush raise instead, and the transaction stays open)
    from ..rules_raise import certain_raises

    rep.rule("AGE-RAISE", "no expression in conditional_commit / commit raises whenever it is evaluated (integer format code on a float, text + number): such an expression in the age branch replaces the flush by an exception")
    for nm in ("SqliteStorage.conditional_commit", "SqliteStorage.commit"):
        f_ = prog.func(nm)
        cr = certain_raises(f_)
        for n_, why in cr:
            rep.violation("AGE-RAISE", f_.short, norm_(n_)[:50], f"{why}; the write that reaches this line raises instead of flushing, so the buffered rows stay uncommitted until the count threshold or a read", f_.loc(n_))
        if not cr:
            rep.ok("AGE-RAISE", f_.short, "expressions", "none raises by construction", f_.loc())
    # every event write reaches conditional_commit: reuse C06's rule B silently and import only its B obligations
    sub = Report("C18", rep.tier, rep.repo, quiet=True)
    check_commit_discipline(prog, sub)
    for o in sub.obligations:
        if o.rule in ("COMMIT-B",):
            rep.obligations.append(o)
    rep.rules["COMMIT-B"] = sub.rules["COMMIT-B"]
    rep.errors += sub.errors
    # the commit bookkeeping (counter, time of the last flush) belongs to one store: nothing of it is shared between instances
    from ..rules_store import instance_state

    instance_state(prog, rep)


SQ = "aw_datastore/storages/sqlite.py"
VARIANTS = [
    ("B a flag lets conditional_commit count and return without any test", "aw_datastore/storages/sqlite.py", "        if self.enable_lazy_commit:\n            self.num_uncommitted_statements += num_statements\n", "        if getattr(self, \"hold_commits\", False):\n            self.num_uncommitted_statements += num_statements\n            return\n        if self.enable_lazy_commit:\n            self.num_uncommitted_statements += num_statements\n", "AGE"),
    ("B commit() swallows a failed flush and stamps anyway", SQ, "        self.conn.commit()\n        self.last_commit = datetime.now()", "        try:\n            self.conn.commit()\n        except sqlite3.OperationalError as e:\n            logger.warning(f\"Commit failed: {e}\")\n        self.last_commit = datetime.now()", "AGE-STAMP"),
    ("B operands reversed (original defect)", SQ, "if (datetime.now() - self.last_commit) > timedelta(seconds=10):", "if (self.last_commit - datetime.now()) > timedelta(seconds=10):", "AGE"),
    ("B age test nested under the count test", SQ, "            if self.num_uncommitted_statements > 50:\n                self.commit()\n            if (datetime.now() - self.last_commit) > timedelta(seconds=10):\n                self.commit()", "            if self.num_uncommitted_statements > 50:\n                if (datetime.now() - self.last_commit) > timedelta(seconds=10):\n                    self.commit()", "AGE"),
    ("B threshold 1000 s", SQ, "> timedelta(seconds=10):", "> timedelta(seconds=1000):", "AGE"),
    ("B threshold in minutes", SQ, "> timedelta(seconds=10):", "> timedelta(minutes=10):", "AGE"),
    ("B age test removed", SQ, "            if (datetime.now() - self.last_commit) > timedelta(seconds=10):\n                self.commit()\n", "", "AGE"),
    ("B old branch only logs", SQ, "            if (datetime.now() - self.last_commit) > timedelta(seconds=10):\n                self.commit()\n", "            if (datetime.now() - self.last_commit) > timedelta(seconds=10):\n                logger.debug('stale transaction')\n", "AGE"),
    ("B log line in the old branch formats seconds with :d", SQ, "            if (datetime.now() - self.last_commit) > timedelta(seconds=10):\n                self.commit()\n", "            if (datetime.now() - self.last_commit) > timedelta(seconds=10):\n                logger.debug(f\"flushing after {(datetime.now() - self.last_commit).total_seconds():d}s\")\n                self.commit()\n", "AGE-RAISE"),
    ("OK log line in the old branch formats seconds with :.0f", SQ, "            if (datetime.now() - self.last_commit) > timedelta(seconds=10):\n                self.commit()\n", "            if (datetime.now() - self.last_commit) > timedelta(seconds=10):\n                logger.debug(f\"flushing after {(datetime.now() - self.last_commit).total_seconds():.0f}s\")\n                self.commit()\n", "ok"),
    ("B last_commit not stamped by commit()", SQ, "        self.conn.commit()\n        self.last_commit = datetime.now()\n", "        self.conn.commit()\n", "AGE-STAMP"),
    ("B comparison inverted", SQ, "if (datetime.now() - self.last_commit) > timedelta(seconds=10):", "if (datetime.now() - self.last_commit) < timedelta(seconds=10):", "AGE"),
    ("B replace_last bypasses conditional_commit", SQ, "        self.conn.execute(query, [starttime, endtime, datastr, bucket_id])\n        self.conditional_commit(1)\n", "        self.conn.execute(query, [starttime, endtime, datastr, bucket_id])\n", "COMMIT-B"),
    ("B age test reads the UTC clock, stamps the local one", SQ, "if (datetime.now() - self.last_commit) > timedelta(seconds=10):", "if (datetime.utcnow() - self.last_commit) > timedelta(seconds=10):", "AGE-STAMP"),
    ("OK all three clock reads switched to time-zone aware UTC", SQ, "datetime.now()", "datetime.now(timezone.utc)", "ok"),
    ("B replace_last reads the newest event through get_events (which flushes) and delegates", SQ, "        self.conn.execute(query, [starttime, endtime, datastr, bucket_id])\n        self.conditional_commit(1)\n        return True", "        last = self.get_events(bucket_id, 1)\n        if last:\n            self.replace(bucket_id, last[0].id, event)\n        return True", "AGE-FRESH"),
    ("OK now hoisted", SQ, "            if (datetime.now() - self.last_commit) > timedelta(seconds=10):", "            now = datetime.now()\n            if (now - self.last_commit) > timedelta(seconds=10):", "ok"),
    ("OK compared as instants", SQ, "if (datetime.now() - self.last_commit) > timedelta(seconds=10):", "if datetime.now() > self.last_commit + timedelta(seconds=10):", "ok"),
    ("OK seconds via total_seconds", SQ, "if (datetime.now() - self.last_commit) > timedelta(seconds=10):", "if (datetime.now() - self.last_commit).total_seconds() >= 10:", "ok"),
    ("OK else-if chain", SQ, "            if self.num_uncommitted_statements > 50:\n                self.commit()\n            if (datetime.now() - self.last_commit) > timedelta(seconds=10):\n                self.commit()", "            if self.num_uncommitted_statements > 50:\n                self.commit()\n            elif (datetime.now() - self.last_commit) > timedelta(seconds=10):\n                self.commit()", "ok"),
]
