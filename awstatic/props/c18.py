"""C18 — buffered writes are flushed once they are about ten seconds old."""
from ..rules_commit import check_age_test, check_commit_discipline
from ..core import Report


def check(prog, rep):
    rep.level = "proof"
    rep.explanation = (
        "The age test in SqliteStorage.conditional_commit is canonicalised to an affine literal over {clock, self.last_commit} "
        "(E4) and its sign, constant and placement in the CFG (E1) are decided; every event write reaches conditional_commit "
        "(rule COMMIT-B, shared with C06)."
    )
    rep.trusted_base = ["the wall clock is non-decreasing between two calls", "conn.commit() makes the transaction durable (C06 trusted base)"]
    rep.not_decided = ["wall-clock monotonicity", "durability of the commit itself"]
    check_age_test(prog, rep)
    # every event write reaches conditional_commit: reuse C06's rule B silently and import only its B obligations
    sub = Report("C18", rep.tier, rep.repo, quiet=True)
    check_commit_discipline(prog, sub)
    for o in sub.obligations:
        if o.rule in ("COMMIT-B",):
            rep.obligations.append(o)
    rep.rules["COMMIT-B"] = sub.rules["COMMIT-B"]
    rep.errors += sub.errors
