"""C18 — buffered writes are flushed once they are about ten seconds old."""
from ..rules_commit import check_age_test, check_commit_discipline, check_fresh_age
from ..core import Report
from ..model import norm as norm_


def flush_before_write(prog, rep, rule="AGE-FRESH"):
    import ast

    from ..cfg import cfg_of
    from ..model import walk_own
    from ..sqlmodel import single_def

    cls = prog.cls("SqliteStorage")
    flushing = {m.name for m in cls.methods.values() if m.name.startswith("get_") and any(isinstance(c, ast.Call) and norm_(c.func) == "self.commit" for c in walk_own(m.node))}
    via_bucket = {"get": "get_events", "get_by_id": "get_event", "get_eventcount": "get_eventcount"}
    b = prog.cls("Bucket")
    for mname in ("insert", "replace", "replace_last", "delete"):
        fi = b.methods.get(mname)
        if fi is None:
            continue
        g = cfg_of(fi)
        writes = [c for c in prog.all_calls(fi) if isinstance(c.func, ast.Attribute) and norm_(c.func.value) == "self.ds.storage_strategy" and c.func.attr in ("insert_one", "insert_many", "replace", "replace_last", "delete")]
        reads = [c for c in prog.all_calls(fi) if isinstance(c.func, ast.Attribute) and ((norm_(c.func.value) == "self" and via_bucket.get(c.func.attr) in flushing) or (norm_(c.func.value) == "self.ds.storage_strategy" and c.func.attr in flushing))]
        bad = None
        for r in reads:
            rn = g.node_of(r)

            def dead(lab):
                # a branch taken only when a local that is bound once to the constant False is true
                if not lab or lab[0] != "cond" or not isinstance(lab[1], ast.Name):
                    return False
                d = single_def(fi, lab[1].id)
                return isinstance(d, ast.Constant) and d.value is False and lab[2] is True

            live = g.reach_filtered(g.entry, lambda u, v, lab: not dead(lab)) | {g.entry}
            if rn not in live:
                continue
            after = g.reach_avoiding([rn])
            for w in writes:
                if g.node_of(w) in after:
                    bad = bad or (r, w)
        rep.check(bad is None, rule, fi.short, "no flushing read ahead of the write", f"{len(reads)} read call(s), none on a live path to the write", (f"`{norm_(bad[0])[:50]}` runs before `{norm_(bad[1])[:50]}`: the storage's {sorted(flushing)} commit first and re-stamp the time of the last flush, so the write that follows always finds a flush a moment old, the age test never fires for it, and under a slow trickle of writes nothing is flushed by age" if bad else ""), fi.loc(bad[0]) if bad else fi.loc())


def check(prog, rep):
    rep.level = "proof"
    rep.explanation = (
        "The age test in SqliteStorage.conditional_commit is canonicalised to an affine literal over {clock, self.last_commit} "
        "(E4) and its sign, constant and placement in the CFG (E1) are decided; every event write reaches conditional_commit "
        "(rule COMMIT-B, shared with C06)."
    )
    rep.trusted_base = ["the wall clock is non-decreasing between two calls", "conn.commit() makes the transaction durable (C06 trusted base)"]
    rep.not_decided = ["wall-clock monotonicity", "durability of the commit itself"]
    check_age_test(prog, rep)
    check_fresh_age(prog, rep)
    # nothing on the way from the age test to the flush raises by construction (a log line in the old branch that cannot be built
    # makes every write that should flush raise instead, and the transaction stays open)
    from ..rules_raise import certain_raises

    rep.rule("AGE-RAISE", "no expression in conditional_commit / commit raises whenever it is evaluated (integer format code on a float, text + number): such an expression in the age branch replaces the flush by an exception")
    for nm in ("SqliteStorage.conditional_commit", "SqliteStorage.commit"):
        f_ = prog.func(nm)
        cr = certain_raises(f_)
        for n_, why in cr:
            rep.violation("AGE-RAISE", f_.short, norm_(n_)[:50], f"{why}; the write that reaches this line raises instead of flushing, so the buffered rows stay uncommitted until the count threshold or a read", f_.loc(n_))
        if not cr:
            rep.ok("AGE-RAISE", f_.short, "expressions", "none raises by construction", f_.loc())
    # every event write reaches conditional_commit: reuse C06's rule B silently and import only its B obligations
    sub = Report("C18", rep.tier, rep.repo, quiet=True)
    check_commit_discipline(prog, sub)
    for o in sub.obligations:
        if o.rule in ("COMMIT-B", "CONN"):
            rep.obligations.append(o)
    rep.rules["COMMIT-B"] = sub.rules["COMMIT-B"]
    if "CONN" in sub.rules:
        rep.rules["CONN"] = sub.rules["CONN"]
    rep.errors += sub.errors
    # every event write issued through a Bucket reaches the storage (and with it conditional_commit): the wrapper answers none itself
    from ..rules_wrap import wrapper_rules

    wrapper_rules(prog, rep, parts=("state", "reaches"))
    # ... and nothing flushes just before it: the storage's read methods commit first (and re-stamp the time of the last flush),
    # so a read issued by the wrapper ahead of the write makes the age test measure from that read and never fire
    flush_before_write(prog, rep)
    # the age is a difference of two naive local clock readings: nothing in the packages moves the process's local time zone
    import ast as _ast

    rep.rule("AGE-ZONE", "no code of the packages calls time.tzset() or assigns os.environ['TZ']: the age of the open transaction is datetime.now() - last_commit on the naive local clock, so a zone change between the two readings shifts the difference by the zone offset (hours), and the age flush does not fire for that long (or fires spuriously)")
    nz = 0
    for f_ in prog.funcs.values():
        if not f_.mod.name.startswith("aw_"):
            continue
        for x_ in _ast.walk(f_.node):
            if isinstance(x_, _ast.Call) and norm_(x_.func) in ("time.tzset", "tzset"):
                nz += 1
                rep.violation("AGE-ZONE", f_.short, "time.tzset()", f"`{norm_(x_)}` re-reads the TZ variable and moves the process's local time: a store opened before the call has stamped last_commit on the old local clock, datetime.now() is on the new one, and their difference is off by the zone offset: for hosts east of the new zone the age stays negative for hours and no write is flushed by age", f_.loc(x_))
            if isinstance(x_, (_ast.Assign, _ast.AugAssign)):
                for t_ in (x_.targets if isinstance(x_, _ast.Assign) else [x_.target]):
                    if isinstance(t_, _ast.Subscript) and norm_(t_.value) == "os.environ" and isinstance(t_.slice, _ast.Constant) and t_.slice.value == "TZ":
                        nz += 1
                        rep.violation("AGE-ZONE", f_.short, "os.environ['TZ'] =", "the process's time zone variable is re-assigned", f_.loc(x_))
    if not nz:
        rep.ok("AGE-ZONE", "aw_*", "zone changes", "none", None)
    # the commit bookkeeping (counter, time of the last flush) belongs to one store: nothing of it is shared between instances
    from ..rules_store import instance_state

    instance_state(prog, rep)


SQ = "aw_datastore/storages/sqlite.py"
VARIANTS = [
    ("B logging set-up switches the process to UTC", "aw_core/log.py", "def setup_logging(", "def _utc():\n    import time\n\n    os.environ[\"TZ\"] = \"UTC\"\n    time.tzset()\n\n\ndef setup_logging(", "AGE-ZONE"),

    ("B a flag lets conditional_commit count and return without any test", "aw_datastore/storages/sqlite.py", "        if self.enable_lazy_commit:\n            self.num_uncommitted_statements += num_statements\n", "        if getattr(self, \"hold_commits\", False):\n            self.num_uncommitted_statements += num_statements\n            return\n        if self.enable_lazy_commit:\n            self.num_uncommitted_statements += num_statements\n", "AGE"),
    ("B commit() swallows a failed flush and stamps anyway", SQ, "        self.conn.commit()\n        self.last_commit = datetime.now()", "        try:\n            self.conn.commit()\n        except sqlite3.OperationalError as e:\n            logger.warning(f\"Commit failed: {e}\")\n        self.last_commit = datetime.now()", "AGE-STAMP"),
    ("B operands reversed (original defect)", SQ, "if (datetime.now() - self.last_commit) > timedelta(seconds=10):", "if (self.last_commit - datetime.now()) > timedelta(seconds=10):", "AGE"),
    ("B age test nested under the count test", SQ, "            if self.num_uncommitted_statements > 50:\n                self.commit()\n            if (datetime.now() - self.last_commit) > timedelta(seconds=10):\n                self.commit()", "            if self.num_uncommitted_statements > 50:\n                if (datetime.now() - self.last_commit) > timedelta(seconds=10):\n                    self.commit()", "AGE"),
    ("B threshold 1000 s", SQ, "> timedelta(seconds=10):", "> timedelta(seconds=1000):", "AGE"),
    ("B threshold in minutes", SQ, "> timedelta(seconds=10):", "> timedelta(minutes=10):", "AGE"),
    ("B age test removed", SQ, "            if (datetime.now() - self.last_commit) > timedelta(seconds=10):\n                self.commit()\n", "", "AGE"),
    ("B old branch only logs", SQ, "            if (datetime.now() - self.last_commit) > timedelta(seconds=10):\n                self.commit()\n", "            if (datetime.now() - self.last_commit) > timedelta(seconds=10):\n                logger.debug('stale transaction')\n", "AGE"),
    ("B log line in the old branch formats seconds with :d", SQ, "            if (datetime.now() - self.last_commit) > timedelta(seconds=10):\n                self.commit()\n", "            if (datetime.now() - self.last_commit) > timedelta(seconds=10):\n                logger.debug(f\"flushing after {(datetime.now() - self.last_commit).total_seconds():d}s\")\n                self.commit()\n", "AGE-RAISE"),
    ("OK log line in the old branch formats seconds with :.0f", SQ, "            if (datetime.now() - self.last_commit) > timedelta(seconds=10):\n                self.commit()\n", "            if (datetime.now() - self.last_commit) > timedelta(seconds=10):\n                logger.debug(f\"flushing after {(datetime.now() - self.last_commit).total_seconds():.0f}s\")\n                self.commit()\n", "ok"),
    ("B last_commit not stamped by commit()", SQ, "        self.conn.commit()\n        self.last_commit = datetime.now()\n", "        self.conn.commit()\n", "AGE-STAMP"),
    ("B comparison inverted", SQ, "if (datetime.now() - self.last_commit) > timedelta(seconds=10):", "if (datetime.now() - self.last_commit) < timedelta(seconds=10):", "AGE"),
    ("B replace_last bypasses conditional_commit", SQ, "        self.conn.execute(query, [starttime, endtime, datastr, bucket_id])\n        self.conditional_commit(1)\n", "        self.conn.execute(query, [starttime, endtime, datastr, bucket_id])\n", "COMMIT-B"),
    ("B age test reads the UTC clock, stamps the local one", SQ, "if (datetime.now() - self.last_commit) > timedelta(seconds=10):", "if (datetime.utcnow() - self.last_commit) > timedelta(seconds=10):", "AGE-STAMP"),
    ("OK all three clock reads switched to time-zone aware UTC", SQ, "datetime.now()", "datetime.now(timezone.utc)", "ok"),
    ("B replace_last reads the newest event through get_events (which flushes) and delegates", SQ, "        self.conn.execute(query, [starttime, endtime, datastr, bucket_id])\n        self.conditional_commit(1)\n        return True", "        last = self.get_events(bucket_id, 1)\n        if last:\n            self.replace(bucket_id, last[0].id, event)\n        return True", "AGE-FRESH"),
    ("OK now hoisted", SQ, "            if (datetime.now() - self.last_commit) > timedelta(seconds=10):", "            now = datetime.now()\n            if (now - self.last_commit) > timedelta(seconds=10):", "ok"),
    ("OK compared as instants", SQ, "if (datetime.now() - self.last_commit) > timedelta(seconds=10):", "if datetime.now() > self.last_commit + timedelta(seconds=10):", "ok"),
    ("OK seconds via total_seconds", SQ, "if (datetime.now() - self.last_commit) > timedelta(seconds=10):", "if (datetime.now() - self.last_commit).total_seconds() >= 10:", "ok"),
    ("OK else-if chain", SQ, "            if self.num_uncommitted_statements > 50:\n                self.commit()\n            if (datetime.now() - self.last_commit) > timedelta(seconds=10):\n                self.commit()", "            if self.num_uncommitted_statements > 50:\n                self.commit()\n            elif (datetime.now() - self.last_commit) > timedelta(seconds=10):\n                self.commit()", "ok"),
]
