"""C16 — grouping, chunking, sorting, filtering conserve events and time (decidable clauses)."""
import ast

from ..affine import Env, Form
from ..cfg import cfg_of
from ..model import norm, walk_own
from ..paths import summarize
from ..rules_own import purity_rule

M = "aw_transform/merge_events_by_keys.py"
CH = "aw_transform/chunk_events_by_key.py"
S = "aw_transform/sort_by.py"
FK = "aw_transform/filter_keyvals.py"


LOSSY = {"set": "forgets order and multiplicity", "frozenset": "forgets order and multiplicity", "sorted": "forgets order", "str": "1 and '1' coincide", "repr": "objects of different type can print alike", "len": "keeps only the length", "bool": "keeps only truthiness", "hash": "collides", "type": "keeps only the type", "id": "identity, not value"}


def _value_injective(prog, rep, fi, il, kv, exts):
    """the value part of a component is the data value itself, or a tuple of it (lists are unhashable): anything that maps
    two different values to one (a set, a sorted copy, str()) merges groups the property keeps apart"""
    from ..sqlmodel import local_defs

    def is_data_value(e):
        t = norm(e)
        return t.endswith(f".data[{kv}]") or t.endswith(f"['data'][{kv}]") or t.endswith(f".data.get({kv})")

    def lossy_in(e, depth=0):
        for c in [e] + [x for x in ast.walk(e) if x is not e]:
            if isinstance(c, ast.Call):
                fn = norm(c.func)
                if fn in LOSSY:
                    return c, LOSSY[fn]
                if depth < 3:
                    for callee in prog.resolve_call(c, fi):
                        if callee is fi:
                            continue
                        for st in [y for h in ast.walk(callee.node) if isinstance(h, (ast.Return, ast.Assign)) and h.value is not None for y in ast.walk(h.value)]:
                            if isinstance(st, ast.Call) and norm(st.func) in LOSSY:
                                return c, f"{callee.short} applies {norm(st.func)}(): {LOSSY[norm(st.func)]}"
        return None

    comps = []
    for e in exts:
        tup = e.value.right if isinstance(e, ast.Assign) else e.value
        comp = tup.elts[0]
        vals = [x for x in comp.elts if not (isinstance(x, ast.Name) and x.id == kv)] if isinstance(comp, ast.Tuple) else [comp]
        comps += vals
    seen, todo = set(), list(comps)
    bad = None
    while todo and bad is None:
        x = todo.pop()
        hit = lossy_in(x)
        if hit:
            bad = hit
            break
        for nm in [n for n in ast.walk(x) if isinstance(n, ast.Name) and isinstance(n.ctx, ast.Load) and n.id not in seen and n.id not in fi.params and n.id != kv]:
            seen.add(nm.id)
            for d in local_defs(fi, nm.id):
                if any(d is y for y in ast.walk(il)) and getattr(d, "value", None) is not None:
                    todo.append(d.value)
    rep.check(bad is None, "KEY", fi.short, "value part of a component", "the data value itself (or a tuple of it)", (f"the value that enters the group key goes through `{norm(bad[0])[:60]}` ({bad[1]}): two different values of the key -- e.g. the lists ['a', 'b'] and ['b', 'a'], or ['a'] and ['a', 'a'] -- get the same component, so events with different values are merged into one group" if bad else ""), fi.loc(bad[0]) if bad else fi.loc(il))


def _group_names(fi, ol):
    """(groups dict name, group key variable) of the event loop: the dict that is stored into by key inside the loop"""
    for n in ast.walk(ol):
        for t in (n.targets if isinstance(n, ast.Assign) else []):
            if isinstance(t, ast.Subscript) and isinstance(t.value, ast.Name) and isinstance(t.slice, ast.Name):
                g = t.value.id
                if any(isinstance(d, ast.Assign) and norm(d.value) in ("{}", "dict()") for d in local_defs_all(fi, g)):
                    return g, t.slice.id
    return None, None


def local_defs_all(fi, name):
    from ..sqlmodel import local_defs

    return local_defs(fi, name)


def _key_comprehension(prog, rep, fi, ol):
    """the group key written as tuple(<(key, value) for key in keys if key in e.data>) -> True when decided"""
    g, ck = _group_names(fi, ol)
    if ck is None:
        return False
    defs = [n for n in ol.body if isinstance(n, ast.Assign) and len(n.targets) == 1 and norm(n.targets[0]) == ck]
    if len(defs) != 1:
        return False
    v = defs[0].value
    if not (isinstance(v, ast.Call) and norm(v.func) == "tuple" and len(v.args) == 1 and isinstance(v.args[0], (ast.GeneratorExp, ast.ListComp)) and len(v.args[0].generators) == 1):
        return False
    comp = v.args[0]
    gen = comp.generators[0]
    if norm(gen.iter) != fi.params[1] and (".items()" in norm(gen.iter) or ".data" in norm(gen.iter)):
        rep.violation("KEY", fi.short, "order of the key's components", f"the group key lists its components in the order of `{norm(gen.iter)[:50]}` (each event's own field order), not in the order of `{fi.params[1]}`: two events with equal values whose data dicts were filled in a different order get different keys and end up in two groups", fi.loc(defs[0]))
        return True
    if norm(gen.iter) != fi.params[1] or not isinstance(gen.target, ast.Name):
        return False
    kv = gen.target.id
    elt = comp.elt
    tagged = isinstance(elt, ast.Tuple) and len(elt.elts) >= 2 and any(isinstance(x, ast.Name) and x.id == kv for x in elt.elts)
    # value part: the same rule as for the loop form (a synthetic extension statement over the element)
    ext = ast.Assign(targets=[ast.Name(id=ck, ctx=ast.Store())], value=ast.BinOp(left=ast.Name(id=ck, ctx=ast.Load()), op=ast.Add(), right=ast.Tuple(elts=[elt], ctx=ast.Load())))
    ast.copy_location(ext, defs[0])
    ast.fix_missing_locations(ext)
    holder = ast.For(target=gen.target, iter=gen.iter, body=[ext], orelse=[])
    ast.copy_location(holder, defs[0])
    ast.fix_missing_locations(holder)
    _value_injective(prog, rep, fi, holder, kv, [ext])
    if tagged:
        rep.ok("KEY", fi.short, "key extension", f"tagged: each component of the comprehension carries `{kv}` next to the value", fi.loc(defs[0]))
    else:
        rep.check(not gen.ifs, "KEY", fi.short, "key extension", "positional: exactly one component per key", f"the group key keeps a component only for keys passing `{[norm(c) for c in gen.ifs]}` and the components are not tagged with their key: events {{a: 1}} and {{b: 1}} merged by [a, b] get the same group key, so different combinations of presence and value are conflated", fi.loc(defs[0]))
    return True


def key_injectivity(prog, rep):
    rep.rule("KEY", "merge_events_by_keys: the composite group key determines, for every key, whether it is present and its value: either every path through the `for key in keys` body extends the key by exactly one component (positional), or each component carries the key itself next to the value (tagged)")
    fi = prog.func("merge_events_by_keys")
    outer = [n for n in fi.node.body if isinstance(n, ast.For)]
    if not outer:
        rep.undecided("KEY", fi.short, "event loop", "no loop over events", fi.loc())
        return None
    ol = outer[0]
    kp = fi.params[1]
    # the keys that are compared are the keys the caller gave: all of them, for every event
    from ..sqlmodel import local_defs as _ld

    for d_ in _ld(fi, kp):
        v_ = getattr(d_, "value", None)
        same = isinstance(v_, ast.Call) and norm(v_.func) in ("list", "tuple") and len(v_.args) == 1 and norm(v_.args[0]) == kp
        rep.check(same, "KEY", fi.short, f"re-binding of `{kp}`", "all keys kept", f"`{norm(d_)[:80]}` replaces the list of keys before the grouping (e.g. by the keys the FIRST event carries): a key that other events have and this selection drops no longer separates them, so events that differ in that key are summed into one group", fi.loc(d_))
    # an exception handler around the key loop ends the loop at the first key that raises: the keys after it are not compared
    for t_ in [x for x in ol.body if isinstance(x, ast.Try)]:
        kl = [n for n in t_.body if isinstance(n, ast.For) and norm(n.iter) == kp]
        swallow = [h for h in t_.handlers if not any(isinstance(x, ast.Raise) for x in ast.walk(h))]
        if kl and swallow:
            rep.violation("KEY", fi.short, "key loop inside try", f"the loop over `{kp}` runs inside `try: ... except {norm(swallow[0].type) if swallow[0].type is not None else ''}: ...` that does not re-raise: the first key an event lacks ends the loop, the keys after it are never looked at, and events that differ only in a later key get the same group key", fi.loc(t_))
            return None
    inner = [n for n in ol.body if isinstance(n, ast.For) and norm(n.iter) == fi.params[1]]
    if len(inner) != 1:
        if not _key_comprehension(prog, rep, fi, ol):
            rep.undecided("KEY", fi.short, "key loop", f"{len(inner)} loops over keys building the group key", fi.loc(ol))
        return ol
    il = inner[0]
    kv = norm(il.target)
    # which variable is the composite key: the one used to index the groups dict
    ck = None
    for st in ol.body:
        n = st.test if isinstance(st, ast.If) else None
        if isinstance(n, ast.Compare) and len(n.ops) == 1 and isinstance(n.ops[0], (ast.NotIn, ast.In)) and isinstance(n.left, ast.Name):
            ck = n.left.id
    if ck is None:
        rep.undecided("KEY", fi.short, "group key", "cannot identify the group key variable", fi.loc(ol))
        return ol
    exts = [n for n in ast.walk(il) if isinstance(n, (ast.Assign, ast.AugAssign)) and norm(n.targets[0] if isinstance(n, ast.Assign) else n.target) == ck]
    if not exts:
        rep.violation("KEY", fi.short, "key extension", "the group key is never extended inside the key loop: all events fall into one group", fi.loc(il))
        return ol
    tagged_all = True
    for e in exts:
        comp = None
        if isinstance(e, ast.Assign) and isinstance(e.value, ast.BinOp) and isinstance(e.value.op, ast.Add) and norm(e.value.left) == ck and isinstance(e.value.right, ast.Tuple) and len(e.value.right.elts) == 1:
            comp = e.value.right.elts[0]
        elif isinstance(e, ast.AugAssign) and isinstance(e.op, ast.Add) and isinstance(e.value, ast.Tuple) and len(e.value.elts) == 1:
            comp = e.value.elts[0]
        if comp is None:
            rep.undecided("KEY", fi.short, "key extension", f"unrecognised extension `{norm(e)}`", fi.loc(e))
            return ol
        tagged = isinstance(comp, ast.Tuple) and any(isinstance(x, ast.Name) and x.id == kv for x in comp.elts) and len(comp.elts) >= 2
        tagged_all = tagged_all and tagged
    _value_injective(prog, rep, fi, il, kv, exts)
    if tagged_all:
        rep.ok("KEY", fi.short, "key extension", f"tagged: each component carries `{kv}` next to the value", fi.loc(exts[0]))
        return ol
    # positional: every path through the body extends exactly once
    env = Env(fi, prog, inline_locals=False)
    sums, _ = summarize(fi=None, body=il.body, env=env)
    counts = set()
    for s in sums:
        n = sum(1 for st_ in s.stmts if any(st_ is e for e in exts))
        counts.add(n)
    ok = counts == {1}
    rep.check(ok, "KEY", fi.short, "key extension", "positional: exactly one component per key on every path", f"the group key is extended on some paths only (per-path extension counts {sorted(counts)}) and the components are not tagged with their key: events {{a: 1}} and {{b: 1}} merged by [a, b] get the same group key, so different combinations of presence and value are conflated", fi.loc(exts[0]), expected="one component per key on every path, or (key, value) components", found=f"extension counts per path: {sorted(counts)}; component `{norm(exts[0])}`")
    return ol


def _sum_general(prog, rep, fi, ol):
    """SUM for any shape of the event loop, on its CFG: the sites that count an event's duration are
         A  <group>.duration += event.duration        (group = groups[key] or a local bound to groups.get(key) / groups[key])
         B  Event(..., duration=event.duration, ...)  stored as groups[key]
       every iteration passes through exactly one of them; A only where the group is known to exist, the store of B only
       where it is known not to; nothing else writes a group's duration.  -> True when decided"""
    from ..cfg import cfg_of, membership, truth
    from ..sqlmodel import local_defs

    groups, ck = _group_names(fi, ol)
    if ck is None or not isinstance(ol.target, ast.Name):
        return False
    ev = ol.target.id
    gvars = set()
    for n in ast.walk(ol):
        if isinstance(n, ast.Assign) and len(n.targets) == 1 and isinstance(n.targets[0], ast.Name) and norm(n.value) in (f"{groups}.get({ck})", f"{groups}[{ck}]", f"{groups}.get({ck}, None)"):
            gvars.add(n.targets[0].id)
    grp = {f"{groups}[{ck}]"} | gvars
    A = [n for n in ast.walk(ol) if isinstance(n, ast.AugAssign) and isinstance(n.op, ast.Add) and isinstance(n.target, ast.Attribute) and n.target.attr == "duration" and norm(n.target.value) in grp and norm(n.value) == f"{ev}.duration"]
    stores = [n for n in ast.walk(ol) if isinstance(n, ast.Assign) and len(n.targets) == 1 and norm(n.targets[0]) == f"{groups}[{ck}]"]
    B = []
    for st in stores:
        v = st.value
        if isinstance(v, ast.Name):
            ds = [d for d in local_defs(fi, v.id) if isinstance(d, ast.Assign) and isinstance(d.value, ast.Call) and norm(d.value.func) == "Event"]
            gvars_new = v.id
            if len(ds) == 1:
                v = ds[0].value
                grp.add(gvars_new)
        if isinstance(v, ast.Call) and norm(v.func) == "Event" and any(k.arg == "duration" and norm(k.value) == f"{ev}.duration" for k in v.keywords):
            B.append((st, v))
    if not A and not B:
        return False
    if not A or not B:
        what = "no `<group>.duration += event.duration` for an event joining an existing group" if not A else "no group creation `Event(duration=event.duration)` stored under the key"
        rep.violation("SUM", fi.short, "counting sites", f"{what}: the durations of a group's events are not summed exactly once each", fi.loc(ol))
        return True
    g = cfg_of(fi)
    head = g.node_of(ol)  # the `for` node
    body_entry = [v for v, lab in g.succ[head] if lab and lab[0] == "for" and lab[2] is True]
    site_nodes = {g.node_of(a) for a in A} | {g.node_of(v) for _, v in B}
    # at least once
    miss = any(head in g.reach_avoiding([b], avoid=frozenset(site_nodes), include_start=True) for b in body_entry if b not in site_nodes)
    rep.check(not miss, "SUM", fi.short, "every event is counted", "each iteration passes through `+= event.duration` or `Event(duration=event.duration)`", "an iteration of the event loop can complete without adding the event's duration to a group or creating a group with it: total duration is not conserved", fi.loc(ol))
    # at most once
    twice = None
    for sn in site_nodes:
        r = g.reach_avoiding([sn], avoid=frozenset({head}))
        hit = [x for x in site_nodes if x in r]
        if hit:
            twice = (sn, hit[0])
    rep.check(twice is None, "SUM", fi.short, "no event is counted twice", "at most one counting site per iteration", (f"one iteration can pass through two counting sites (lines {g.nodes[twice[0]].line} and {g.nodes[twice[1]].line}): the event's duration is added twice" if twice else ""), fi.loc(ol))

    def exists_edge(lab, want):
        m = membership(lab, ck, groups)
        if m is not None:
            return m is want
        for gv in gvars:
            t = truth(lab, gv)
            if t is not None:
                return t is want
        return False

    for a in A:
        r = set()
        for b in body_entry:
            r |= g.reach_filtered(b, lambda u, v, lab: not exists_edge(lab, True)) | {b}
        rep.check(g.node_of(a) not in r, "SUM", fi.short, f"accumulation `{norm(a)[:50]}`", "only where the group is known to exist", "the accumulation can run for a key whose group does not exist yet (KeyError / AttributeError), or the existence test does not guard it", fi.loc(a))
    for st, v in B:
        r = set()
        for b in body_entry:
            r |= g.reach_filtered(b, lambda u, v_, lab: not exists_edge(lab, False)) | {b}
        rep.check(g.node_of(st) not in r, "SUM", fi.short, f"group creation `{norm(st)[:50]}`", "only where the group is known not to exist", "a new group is stored for a key that may already have one: the durations accumulated so far are thrown away", fi.loc(st))
    others = [n for n in ast.walk(ol) if isinstance(n, (ast.Assign, ast.AugAssign)) and n not in A and any(isinstance(t, ast.Attribute) and t.attr == "duration" and norm(t.value) in grp for t in (n.targets if isinstance(n, ast.Assign) else [n.target]))]
    rep.check(not others, "SUM", fi.short, "nothing else writes a group's duration", "", f"`{norm(others[0])[:60] if others else ''}` also writes a group's duration", fi.loc(others[0]) if others else fi.loc(ol))
    skips = [n for n in ast.walk(ol) if isinstance(n, (ast.Continue, ast.Break, ast.Return))]
    rep.check(not skips, "SUM", fi.short, "every event is grouped", "no continue/break in the event loop", "some events are skipped by the grouping loop", fi.loc(ol))
    _outputs(rep, fi, ol, groups)
    return True


def _sum_elements(prog, rep, fi, ol):
    """SUM when the events are consumed in runs (itertools.groupby): every element taken from the input -- by an inner
    `for e in run` or by `next(run)` -- reaches a counting site for ITS duration before the iteration ends"""
    from ..cfg import cfg_of

    groups, ck = _group_names(fi, ol)
    it = ol.iter
    if ck is None or not (isinstance(it, ast.Call) and norm(it.func) in ("groupby", "itertools.groupby") and it.args and norm(it.args[0]) == fi.params[0] and isinstance(ol.target, ast.Tuple) and len(ol.target.elts) == 2 and isinstance(ol.target.elts[1], ast.Name)):
        return False
    run = ol.target.elts[1].id
    grp = {f"{groups}[{ck}]"}
    for n in ast.walk(ol):
        if isinstance(n, ast.Assign) and (norm(n.value) in (f"{groups}.get({ck})", f"{groups}[{ck}]") or any(norm(t) == f"{groups}[{ck}]" for t in n.targets)):
            grp |= {t.id for t in n.targets if isinstance(t, ast.Name)}
    g = cfg_of(fi)
    head = g.node_of(ol)
    elems = []
    for n in ast.walk(ol):
        if isinstance(n, ast.Assign) and len(n.targets) == 1 and isinstance(n.targets[0], ast.Name) and norm(n.value) in (f"next({run})",):
            elems.append((n.targets[0].id, g.node_of(n), head, n))
        if isinstance(n, ast.For) and n is not ol and norm(n.iter) == run and isinstance(n.target, ast.Name):
            hn = g.node_of(n)
            elems.append((n.target.id, hn, hn, n))
    if not elems:
        return False
    for var, start, stop, node in elems:
        sites = {g.node_of(x) for x in ast.walk(ol) if (isinstance(x, ast.AugAssign) and isinstance(x.op, ast.Add) and isinstance(x.target, ast.Attribute) and x.target.attr == "duration" and norm(x.target.value) in grp and norm(x.value) == f"{var}.duration") or (isinstance(x, ast.Call) and norm(x.func) == "Event" and any(k.arg == "duration" and norm(k.value) == f"{var}.duration" for k in x.keywords))}
        if isinstance(node, ast.For):
            starts = [v for v, lab in g.succ[start] if lab and lab[0] == "for" and lab[2] is True]
        else:
            starts = [v for v, lab in g.succ[start]]
        miss = any(stop in (g.reach_avoiding([b], avoid=frozenset(sites), include_start=True)) for b in starts if b not in sites)
        rep.check(not miss, "SUM", fi.short, f"element `{var}` of a run", "its duration is counted before the iteration ends", f"`{norm(node).splitlines()[0][:60]}` takes an event out of the input, but on some path (e.g. when its group already exists) neither `<group>.duration += {var}.duration` nor a group creation with `duration={var}.duration` runs: that event's duration is lost, so group sums and the total are not conserved when a key combination re-appears in a later run", fi.loc(node))
    _outputs(rep, fi, ol, groups)
    return True


def _sum_two_phase(prog, rep, fi, ol):
    """SUM when grouping and summing are two passes: pass one files every event into exactly one member list
    (`groups[k] = [e]` where the key is new, `groups[k].append(e)` where it is not); pass two turns every member list
    `first, *rest` into one event that starts with first.duration and adds e.duration for every e of rest."""
    from ..cfg import cfg_of, membership

    if not isinstance(ol.target, ast.Name):
        return False
    ev = ol.target.id
    news = [n for n in ast.walk(ol) if isinstance(n, ast.Assign) and len(n.targets) == 1 and isinstance(n.targets[0], ast.Subscript) and isinstance(n.targets[0].value, ast.Name) and isinstance(n.value, ast.List) and len(n.value.elts) == 1 and norm(n.value.elts[0]) == ev]
    if len(news) != 1:
        return False
    groups, ck = news[0].targets[0].value.id, norm(news[0].targets[0].slice)
    apps = [n for n in ast.walk(ol) if isinstance(n, ast.Call) and norm(n.func) == f"{groups}[{ck}].append" and len(n.args) == 1 and norm(n.args[0]) == ev]
    if len(apps) != 1:
        return False
    g = cfg_of(fi)
    head = g.node_of(ol)
    body_entry = [v for v, lab in g.succ[head] if lab and lab[0] == "for" and lab[2] is True]
    sites = {g.node_of(news[0]), g.node_of(apps[0])}
    miss = any(head in g.reach_avoiding([b], avoid=frozenset(sites), include_start=True) for b in body_entry if b not in sites)
    rep.check(not miss, "SUM", fi.short, "every event is filed into a group", "each iteration passes through `groups[k] = [e]` or `groups[k].append(e)`", "an iteration of the grouping loop can complete without filing the event: its duration is lost", fi.loc(ol))
    both = g.node_of(apps[0]) in g.reach_avoiding([g.node_of(news[0])], avoid=frozenset({head})) or g.node_of(news[0]) in g.reach_avoiding([g.node_of(apps[0])], avoid=frozenset({head}))
    rep.check(not both, "SUM", fi.short, "no event is filed twice", "at most one filing site per iteration", "one iteration can both open a group with the event and append it: it is counted twice", fi.loc(ol))
    r_new = set()
    r_app = set()
    for b in body_entry:
        r_new |= g.reach_filtered(b, lambda u, v, lab: membership(lab, ck, groups) is not False) | {b}
        r_app |= g.reach_filtered(b, lambda u, v, lab: membership(lab, ck, groups) is not True) | {b}
    rep.check(g.node_of(news[0]) not in r_new, "SUM", fi.short, "a member list is opened only for a new key", "behind `key not in groups`", "a new member list can replace an existing one: the events filed so far are dropped", fi.loc(news[0]))
    rep.check(g.node_of(apps[0]) not in r_app, "SUM", fi.short, "appending only to an existing member list", "behind `key in groups`", "", fi.loc(apps[0]))
    rep.check(not [n for n in ast.walk(ol) if isinstance(n, (ast.Continue, ast.Break, ast.Return))], "SUM", fi.short, "every event is grouped", "no continue/break in the event loop", "some events are skipped by the grouping loop", fi.loc(ol))
    # pass two
    idx = fi.node.body.index(ol)
    post = fi.node.body[idx + 1 :]
    loops = [n for n in post if isinstance(n, ast.For) and norm(n.iter) in (f"{groups}.values()",)]
    if len(loops) != 1:
        return False
    l2 = loops[0]
    t = l2.target
    if not (isinstance(t, ast.Tuple) and len(t.elts) == 2 and isinstance(t.elts[0], ast.Name) and isinstance(t.elts[1], ast.Starred) and isinstance(t.elts[1].value, ast.Name)):
        return False
    first, rest = t.elts[0].id, t.elts[1].value.id
    creates = [n for n in l2.body if isinstance(n, ast.Assign) and isinstance(n.value, ast.Call) and norm(n.value.func) == "Event" and any(k.arg == "duration" and norm(k.value) == f"{first}.duration" for k in n.value.keywords)]
    okc = len(creates) == 1 and isinstance(creates[0].targets[0], ast.Name)
    rep.check(okc, "SUM", fi.short, "group creation", f"Event(duration={first}.duration)", "a group's event does not start with its first member's duration", fi.loc(l2))
    if not okc:
        return True
    mv = creates[0].targets[0].id
    adds = [n for n in l2.body if isinstance(n, ast.For) and norm(n.iter) == rest and isinstance(n.target, ast.Name)]
    oka = len(adds) == 1 and [norm(b) for b in adds[0].body] == [f"{mv}.duration += {adds[0].target.id}.duration"]
    rep.check(oka, "SUM", fi.short, "group accumulation", f"for e in {rest}: {mv}.duration += e.duration", "the remaining members' durations are not each added exactly once", fi.loc(l2))
    others = [n for n in ast.walk(l2) if isinstance(n, (ast.Assign, ast.AugAssign)) and any(isinstance(x, ast.Attribute) and x.attr == "duration" and norm(x.value) == mv for x in (n.targets if isinstance(n, ast.Assign) else [n.target])) and not (adds and any(n is b for b in adds[0].body))]
    rep.check(not others, "SUM", fi.short, "nothing else writes a group's duration", "", f"`{norm(others[0])[:60] if others else ''}` also writes the group's duration", fi.loc(l2))
    rets = [n for n in post if isinstance(n, ast.Return)]
    outs = [b for b in l2.body if isinstance(b, ast.Expr) and isinstance(b.value, ast.Call) and rets and norm(b.value.func) == f"{norm(rets[0].value)}.append"]
    rep.check(len(outs) == 1 and not any(isinstance(x, (ast.If, ast.Continue, ast.Break)) for b in l2.body if not isinstance(b, ast.For) for x in ast.walk(b)), "SUM", fi.short, "outputs", "one output event per group", "the result is not one event per group", fi.loc(l2))
    return True


def duration_conservation(prog, rep, ol):
    rep.rule("SUM", "merge_events_by_keys: every event reaches exactly one of: group creation with duration=event.duration, or group.duration += event.duration; one output event per group; chunk_events_by_key: every key-bearing event either extends the last chunk (subevents.append(event) AND duration += event.duration) or opens a chunk with subevents=[event] and duration=event.duration that is appended")
    fi = prog.func("merge_events_by_keys")
    ev = norm(ol.target)
    if _sum_two_phase(prog, rep, fi, ol):
        return
    ifs = [n for n in ol.body if isinstance(n, ast.If) and isinstance(n.test, ast.Compare) and isinstance(n.test.ops[0], (ast.NotIn, ast.In))]
    if len(ifs) != 1:
        if not _sum_general(prog, rep, fi, ol) and not _sum_elements(prog, rep, fi, ol):
            rep.undecided("SUM", fi.short, "group dispatch", f"{len(ifs)} membership tests on the group dict", fi.loc(ol))
        return
    i = ifs[0]
    groups = norm(i.test.comparators[0])
    ck = norm(i.test.left)
    new, old = (i.body, i.orelse) if isinstance(i.test.ops[0], ast.NotIn) else (i.orelse, i.body)
    from ..trace import resolve

    stores = [n for n in new if isinstance(n, ast.Assign) and norm(n.targets[0]) == f"{groups}[{ck}]"]
    cval = resolve(stores[0].value, fi) if len(stores) == 1 else None
    okc = isinstance(cval, ast.Call) and norm(cval.func) == "Event" and any(k.arg == "duration" and norm(k.value) == f"{ev}.duration" for k in cval.keywords)
    rep.check(okc, "SUM", fi.short, "group creation", f"Event(duration={ev}.duration)", "a new group does not start with its first event's duration", fi.loc(i))
    adds = [norm(n) for n in old]
    oka = adds == [f"{groups}[{ck}].duration += {ev}.duration"]
    rep.check(oka, "SUM", fi.short, "group accumulation", f"{groups}[{ck}].duration += {ev}.duration", f"an event joining an existing group does `{'; '.join(adds)}`: its duration is not added exactly once", fi.loc(i))
    # no filter / skip in the event loop
    skips = [n for n in ast.walk(ol) if isinstance(n, (ast.Continue, ast.Break, ast.Return))]
    rep.check(not skips, "SUM", fi.short, "every event is grouped", "no continue/break in the event loop", "some events are skipped by the grouping loop", fi.loc(ol))
    _outputs(rep, fi, ol, groups)


def _outputs(rep, fi, ol, groups):
    # outputs: one per group
    post = [n for n in fi.node.body if n.lineno > ol.lineno]
    loops = [n for n in post if isinstance(n, ast.For) and norm(n.iter) in (groups, f"{groups}.values()", f"{groups}.items()")]
    rets = [n for n in post if isinstance(n, ast.Return)]
    oko = False
    if len(loops) == 1 and len(rets) == 1:
        body = [norm(s) for s in loops[0].body]
        oko = len(body) == 1 and body[0].startswith(f"{norm(rets[0].value)}.append(") and not any(isinstance(x, ast.If) for x in ast.walk(loops[0]))
    elif len(rets) == 1 and norm(rets[0].value) in (f"list({groups}.values())",):
        oko = True
    elif len(rets) == 1 and isinstance(rets[0].value, ast.ListComp) and len(rets[0].value.generators) == 1 and not rets[0].value.generators[0].ifs and norm(rets[0].value.generators[0].iter) in (f"{groups}.values()", groups, f"{groups}.items()"):
        oko = True
    rep.check(oko, "SUM", fi.short, "outputs", "one output event per group", "the result is not one event per group", fi.loc())


def chunk_rule(prog, rep):
    fi = prog.func("chunk_events_by_key")
    loops = [n for n in fi.node.body if isinstance(n, ast.For)]
    if len(loops) != 1:
        rep.undecided("SUM", fi.short, "loop", f"{len(loops)} loops", fi.loc())
        return
    lp = loops[0]
    ev = norm(lp.target)
    rets = [n for n in fi.node.body if isinstance(n, ast.Return)]
    acc = norm(rets[0].value) if rets else None
    rep.check(norm(lp.iter) == fi.params[0], "SUM", fi.short, "iteration", "over the input in order", f"iterates over `{norm(lp.iter)}`", fi.loc(lp))
    from ..sqlmodel import local_defs as _ld

    rb_ = [d for d in _ld(fi, fi.params[0]) if not (isinstance(d, ast.Assign) and norm(d.value) in (f"list({fi.params[0]})", f"{fi.params[0]}[:]", f"{fi.params[0]}.copy()"))]
    rep.check(not rb_, "SUM", fi.short, "the given sequence is chunked as given", f"`{fi.params[0]}` is not re-bound", f"`{norm(rb_[0])[:70] if rb_ else ''}`: the sequence that is chunked is not the caller's sequence in the caller's order, so the sub-events no longer concatenate back to the input", fi.loc(rb_[0]) if rb_ else fi.loc())
    # an event is left out of every chunk only when it does not bear the key
    from ..cfg import cfg_of, membership

    g = cfg_of(fi)
    key0 = fi.params[1]
    exits = [n for n in ast.walk(lp) if isinstance(n, (ast.Break, ast.Continue, ast.Return))]
    if lp.body:
        reach = g.reach_filtered(g.node_of(lp.body[0]), lambda u, v, lab: membership(lab, key0, f"{ev}.data") is not False)
        for x in exits:
            rep.check(g.node_of(x) not in reach, "SUM", fi.short, f"{type(x).__name__.lower()} at line {x.lineno}", f"only under `{key0} not in {ev}.data`", f"the loop is left / an event is skipped (line {x.lineno}) on a path where the event does bear the key (e.g. a falsy value such as '' or 0): the remaining key-bearing events never reach a chunk, so sub-events no longer concatenate back to the input", fi.loc(x))
    ifs = [n for n in lp.body if isinstance(n, ast.If) and n.orelse and "subevents" in norm(n)]
    if len(ifs) != 1:
        rep.undecided("SUM", fi.short, "extend/open dispatch", f"{len(ifs)} if/else in the loop body", fi.loc(lp))
        return
    i = ifs[0]
    ext = [norm(s) for s in i.body]
    opn = [norm(s) for s in i.orelse]
    # extend branch: += duration and subevents.append(event), on the last chunk
    last = None
    for s in i.body:
        if isinstance(s, ast.Assign) and norm(s.value) == f"{acc}[-1]":
            last = norm(s.targets[0])
    oke = last is not None and f"{last}.duration += {ev}.duration" in ext and f"{last}.data['subevents'].append({ev})" in ext and len(ext) == 3
    if last is None:
        # the last chunk addressed directly as acc[-1]
        oke = sorted(ext) == sorted([f"{acc}[-1].duration += {ev}.duration", f"{acc}[-1].data['subevents'].append({ev})"])
    rep.check(oke, "SUM", fi.short, "extend last chunk", "duration += event.duration and subevents.append(event)", f"extending the last chunk does `{'; '.join(ext)}`: the event or its duration is lost or added twice", fi.loc(i))
    oko = any(t == f"{acc}.append(chunked_event)" or (t.startswith(f"{acc}.append(")) for t in opn) and any("'subevents': [" + ev + "]" in t for t in opn) and any(f"duration={ev}.duration" in t for t in opn)
    rep.check(oko, "SUM", fi.short, "open chunk", "Event(duration=event.duration, data={key: ..., 'subevents': [event]}) appended", f"opening a chunk does `{'; '.join(opn)[:160]}`", fi.loc(i))
    # the run test compares the key's value with the last chunk's
    t = norm(i.test)
    key = fi.params[1]
    okt = f"{acc}[-1].data[{key}] == {ev}.data[{key}]" in t or f"{ev}.data[{key}] == {acc}[-1].data[{key}]" in t
    rep.check(okt, "SUM", fi.short, "run test", "same value of the key as the last chunk", f"runs are not delimited by the key's value (`{t[:100]}`)", fi.loc(i))
    # what else the run test may depend on: the event, the input list (the documented gap against the END OF THE INPUT) and
    # the parameters -- not the chunks built so far, and nothing carried over from earlier iterations
    from ..sqlmodel import local_defs

    conj = i.test.values if isinstance(i.test, ast.BoolOp) and isinstance(i.test.op, ast.And) else [i.test]
    allowed = set(fi.params) | {ev}
    bad = None
    for cj in conj:
        tc = norm(cj)
        if tc in (f"len({acc}) > 0", acc, f"len({acc}) != 0", f"len({acc}) >= 1", f"{acc} != []") or f"{acc}[-1].data[{key}]" in tc:
            continue
        seen, todo = set(), [cj]
        while todo and bad is None:
            x = todo.pop()
            # asking whether a chunk exists yet (len(acc) > 0, `acc` tested for truth) and the last chunk's key value are the run test itself
            skip = set()
            for n in ast.walk(x):
                if isinstance(n, ast.Call) and norm(n) == f"len({acc})":
                    skip |= {id(y) for y in ast.walk(n)}
                if isinstance(n, ast.Subscript) and norm(n) == f"{acc}[-1].data[{key}]":
                    skip |= {id(y) for y in ast.walk(n)}
                for t in ([n.test] if isinstance(n, ast.IfExp) else n.values if isinstance(n, ast.BoolOp) else [n.operand] if isinstance(n, ast.UnaryOp) and isinstance(n.op, ast.Not) else []):
                    if isinstance(t, ast.Name) and t.id == acc:
                        skip.add(id(t))
            for nm in [n for n in ast.walk(x) if isinstance(n, ast.Name) and isinstance(n.ctx, ast.Load) and id(n) not in skip]:
                if nm.id == acc:
                    bad = (cj, f"it depends on the chunks built so far (`{acc}`)")
                    break
                if nm.id in allowed or nm.id in seen:
                    continue
                seen.add(nm.id)
                for d in local_defs(fi, nm.id):
                    v = getattr(d, "value", None)
                    inloop = any(d is y for y in ast.walk(lp))
                    if inloop and d.lineno > i.lineno:
                        bad = (cj, f"`{nm.id}` is carried over from the previous iteration (`{norm(d)[:50]}`)")
                    elif v is not None:
                        todo.append(v)
    # the documented gap conjunct (gap to the END OF THE INPUT, which is <= 0 for time-ordered input, and exactly 0 for a
    # zero-length last event) holds for every event only if the bound it is compared with is positive: that bound's default
    a_ = fi.node.args
    pos = a_.posonlyargs + a_.args
    dflt = {p_.arg: d_ for p_, d_ in zip(pos[len(pos) - len(a_.defaults):], a_.defaults)}
    dflt.update({p_.arg: d_ for p_, d_ in zip(a_.kwonlyargs, a_.kw_defaults) if d_ is not None})
    for cj in conj:
        if isinstance(cj, ast.Compare) and len(cj.ops) == 1 and isinstance(cj.ops[0], (ast.Lt, ast.LtE, ast.Gt, ast.GtE)):
            lo, hi = (cj.left, cj.comparators[0]) if isinstance(cj.ops[0], (ast.Lt, ast.LtE)) else (cj.comparators[0], cj.left)
            strict = isinstance(cj.ops[0], (ast.Lt, ast.Gt))
            ps_ = [n.id for n in ast.walk(hi) if isinstance(n, ast.Name) and n.id in dflt]
            if len(ps_) == 1 and not any(isinstance(n, ast.Name) and n.id in dflt for n in ast.walk(lo)):
                d_ = dflt[ps_[0]]
                dv = d_.value if isinstance(d_, ast.Constant) and isinstance(d_.value, (int, float)) and not isinstance(d_.value, bool) else (-d_.operand.value if isinstance(d_, ast.UnaryOp) and isinstance(d_.op, ast.USub) and isinstance(d_.operand, ast.Constant) and isinstance(d_.operand.value, (int, float)) else None)
                plain = isinstance(hi, ast.Name) or (isinstance(hi, ast.Call) and norm(hi.func) in ("timedelta", "datetime.timedelta") and not hi.args and len(hi.keywords) == 1 and isinstance(hi.keywords[0].value, ast.Name))
                if dv is None or not plain:
                    rep.undecided("SUM", fi.short, f"default of {ps_[0]}", f"cannot evaluate the bound `{norm(hi)[:60]}` of the gap conjunct for the default `{norm(d_)}`", fi.loc(i))
                else:
                    okd = dv > 0 if strict else dv >= 0
                    rep.check(okd, "SUM", fi.short, f"default of {ps_[0]}", f"`{norm(cj)[:60]}` holds for a gap of 0 with the default {dv}", f"with the default {ps_[0]}={dv} the conjunct `{norm(cj)[:70]}` is false for a gap of exactly 0 (a zero-length last event: its gap to the end of the input is 0): that event opens a chunk of its own although it shares the key's value with the run before it, so by default the chunks are not the runs of equal values", fi.loc(i))
    rep.check(bad is None, "SUM", fi.short, "run test: nothing but the key's value and the documented end-of-input gap", "other conjuncts depend on the event, the input list and the parameters only", (f"the run test has a conjunct `{norm(bad[0])[:80]}`; {bad[1]}: equal-valued neighbours are split into separate chunks by something other than the key's value (e.g. the gap to the chunk's end), so the chunks are no longer the runs that share the key's value" if bad else ""), fi.loc(i))


def small_functions(prog, rep):
    rep.rule("SHAPE", "sort_by_timestamp = sorted(events, key=timestamp) ascending; sort_by_duration = sorted(events, key=duration, reverse=True); limit_events = events[:count]; filter_keyvals returns two comprehensions over the same list with the same predicate and opposite polarity; sum_durations sums duration.total_seconds() of every element")
    from ..rules_read import _key_field

    for name, key, rev in (("sort_by_timestamp", "timestamp", False), ("sort_by_duration", "duration", True)):
        fi = prog.func(name)
        from ..trace import deep as _deep

        rets = [n for n in walk_own(fi.node) if isinstance(n, ast.Return)]
        ok = False
        rv = _deep(rets[0].value, fi) if len(rets) == 1 and rets[0].value is not None else None
        if rv is not None and isinstance(rv, ast.Call) and norm(rv.func) == "sorted" and len(rv.args) == 1 and norm(rv.args[0]) == fi.params[0]:
            kw = {k.arg: k.value for k in rv.keywords}
            r = kw.get("reverse")
            ok = "key" in kw and _key_field(kw["key"]) == key and (bool(r.value) if isinstance(r, ast.Constant) else False) == rev and (r is None or isinstance(r, ast.Constant))
        rep.check(ok, "SHAPE", fi.short, "sorted", f"sorted(events, key={key}{', reverse=True' if rev else ''})", f"`{norm(rets[0].value) if rets else ''}` is not a sort of the whole input by {key} {'descending' if rev else 'ascending'}", fi.loc())
    fi = prog.func("limit_events")
    rets = [n for n in walk_own(fi.node) if isinstance(n, ast.Return)]
    from ..trace import deep as _deep

    ok = len(rets) == 1 and rets[0].value is not None and norm(_deep(rets[0].value, fi)) == f"{fi.params[0]}[:{fi.params[1]}]"
    rep.check(ok, "SHAPE", fi.short, "prefix", "events[:count]", f"`{norm(rets[0].value) if rets else ''}` is not the prefix of length count", fi.loc())
    fi = prog.func("sum_durations")
    from ..trace import resolve as _rs

    last = fi.node.body[-1]
    if isinstance(last, ast.Return) and isinstance(last.value, ast.Call):
        for k in last.value.keywords:
            k.value = _rs(k.value, fi)
    t = norm(last)
    ok = t in (f"return timedelta(seconds=sum((event.duration.total_seconds() for event in {fi.params[0]})))", f"return timedelta(seconds=sum(event.duration.total_seconds() for event in {fi.params[0]}))", f"return timedelta(seconds=sum([event.duration.total_seconds() for event in {fi.params[0]}]))")
    rep.check(ok, "SHAPE", fi.short, "sum", "timedelta(seconds=sum(e.duration.total_seconds() for e in events))", f"`{t}` does not sum every event's duration", fi.loc())
    fi = prog.func("filter_keyvals")
    from ..rules_flow import early_returns

    rets = [n for n in walk_own(fi.node) if isinstance(n, ast.Return)]
    # a shortcut may only depend on the event list being empty (with no values to match, the excluded half is everything)
    g_ = cfg_of(fi)
    for r in [x for x in rets if isinstance(x.value, ast.List) and not x.value.elts or isinstance(x.value, ast.Name)]:
        from ..rules_flow import says_small

        reach = g_.reach_filtered(g_.entry, lambda u, v, lab: not says_small(lab, [fi.params[0]], 1))
        rep.check(g_.node_of(r) not in reach, "SHAPE", fi.short, f"shortcut at line {r.lineno}", "only for an empty event list", f"`{norm(r)}` is returned on a path that does not establish that the event list is empty (e.g. an empty value list): for exclude=True the answer must then be every event, so the two halves are no longer complementary", fi.loc(r))
    comps = [r.value for r in rets if isinstance(r.value, ast.ListComp)]
    ok = False
    why = "not two comprehensions"
    if len(comps) == 1 and len(comps[0].generators) == 1 and len(comps[0].generators[0].ifs) == 1 and norm(comps[0].generators[0].iter) == fi.params[0] and norm(comps[0].elt) == norm(comps[0].generators[0].target):
        # one comprehension keeping the events whose test EQUALS `not exclude`: for exclude=True that is exactly the complement
        from ..trace import deep as _deep2

        cnd = comps[0].generators[0].ifs[0]
        excl = fi.params[3] if len(fi.params) > 3 else "exclude"
        if isinstance(cnd, ast.Compare) and len(cnd.ops) == 1 and isinstance(cnd.ops[0], (ast.Eq, ast.Is)):
            sides = [cnd.left, cnd.comparators[0]]
            keep = [x for x in sides if norm(_deep2(x, fi)) == f"not {excl}"]
            test = [x for x in sides if x not in keep]
            boolean = len(test) == 1 and (isinstance(test[0], ast.Compare) or (isinstance(test[0], ast.BoolOp) and all(isinstance(v, ast.Compare) for v in test[0].values)) or (isinstance(test[0], ast.Call) and norm(test[0].func) == "bool"))
            if len(keep) == 1 and boolean:
                ok = True
            else:
                why = f"the single filter `{norm(cnd)}` does not compare a boolean test with `not {excl}`"
        else:
            why = f"the single filter `{norm(cnd)}` is not `<test> == (not exclude)`"
        rep.check(ok, "SHAPE", fi.short, "complementary filters", "one comprehension: <boolean test> == (not exclude)", why, fi.loc())
        comps = []
        ok = None
    if len(comps) == 2 and all(len(c.generators) == 1 and len(c.generators[0].ifs) == 1 and norm(c.generators[0].iter) == fi.params[0] and norm(c.elt) == norm(c.generators[0].target) for c in comps):
        conds = []
        for c in comps:
            v = norm(c.generators[0].target)
            cnd = c.generators[0].ifs[0]
            pol = True
            if isinstance(cnd, ast.UnaryOp) and isinstance(cnd.op, ast.Not):
                pol, cnd = False, cnd.operand
            conds.append((norm(cnd).replace(v, "E"), pol))
        ok = conds[0][0] == conds[1][0] and conds[0][1] != conds[1][1]
        why = f"the two results filter by {conds}: they are not complementary"
        # which one is returned for exclude
        i = [n for n in walk_own(fi.node) if isinstance(n, ast.If) and norm(n.test) in ("exclude", "not exclude")]
        if ok and len(i) == 1:
            excl_branch = i[0].body if norm(i[0].test) == "exclude" else i[0].orelse
            r = [n for n in excl_branch if isinstance(n, ast.Return)]
            if r and isinstance(r[0].value, ast.ListComp):
                c = r[0].value.generators[0].ifs[0]
                neg = isinstance(c, ast.UnaryOp) and isinstance(c.op, ast.Not)
                if not neg:
                    ok = False
                    why = "exclude=True returns the matching events"
    if ok is not None:
        rep.check(ok, "SHAPE", fi.short, "complementary filters", "same list, same predicate, opposite polarity", why, fi.loc())
    pred = fi.nested.get("predicate")
    if pred is not None:
        t = norm(pred.node.body[-1])
        k, v = fi.params[1], fi.params[2]
        okp = t == f"return {k} in event.data and event.data[{k}] in {v}"
        rep.check(okp, "SHAPE", pred.short, "predicate", "key present and its value listed", f"predicate is `{t}`", pred.loc())


def check(prog, rep):
    rep.level = "other"
    rep.explanation = (
        "Decided: none of the eight functions modifies its input (E2; aliasing input events into `subevents` or returning the input list itself is "
        "not mutation); the group key of merge_events_by_keys is injective in (presence, value) per key; every event's duration is added exactly "
        "once to exactly one group / chunk; sort/limit/filter/sum have the stated shapes. Exactness of float sums and behaviour on unhashable "
        "values are NOT decided."
    )
    rep.trusted_base = ["sorted() is a stable permutation", "dict keyed by tuples distinguishes distinct tuples"]
    rep.not_decided = ["exactness of float sums", "unhashable values"]
    rep.rule("PURE", "no write at or below the input parameters, at any depth (E2)")
    for f, ps in (("merge_events_by_keys", ["events", "keys"]), ("chunk_events_by_key", ["events"]), ("sort_by_timestamp", ["events"]), ("sort_by_duration", ["events"]), ("limit_events", ["events"]), ("filter_keyvals", ["events", "vals"]), ("filter_keyvals_regex", ["events"]), ("sum_durations", ["events"])):
        purity_rule(prog, rep, f, ps)
    ol = key_injectivity(prog, rep)
    if ol is not None:
        duration_conservation(prog, rep, ol)
    chunk_rule(prog, rep)
    small_functions(prog, rep)
    # the transform's own copies (deepcopy of events) separate its output from its input only if Event keeps the default copy protocol
    from ..rules_own import copy_protocol

    copy_protocol(prog, rep)
    # nothing on the way is memoised on a key that does not determine the answer
    from ..rules_own import memo_rule

    memo_rule(prog, rep, rule="MEMO")
    # durations are summed through Event.duration: `+=` stores through the setter, which must store what it is given
    from .c13 import duration_dispatch

    duration_dispatch(prog, rep)


VARIANTS = [
    ("B list values enter the group key as frozensets", "aw_transform/merge_events_by_keys.py", "                    val = tuple(val)", "                    val = frozenset(val)", "KEY"),
    ("B chunk gap measured against the end of the chunk built so far", "aw_transform/chunk_events_by_key.py", "timediff = event.timestamp - (events[-1].timestamp + events[-1].duration)", "timediff = event.timestamp - (chunked_events[-1].timestamp + chunked_events[-1].duration)", "SUM"),
    ("B untagged conditional key component (the original defect)", M, "composite_key = composite_key + ((key, val),)", "composite_key = composite_key + (val,)", "KEY"),
    ("B group duration not accumulated", M, "            merged_events[composite_key].duration += event.duration\n", "            pass\n", "SUM"),
    ("B group starts with zero duration", M, "timestamp=event.timestamp, duration=event.duration, data={}", "timestamp=event.timestamp, duration=0, data={}", "SUM"),
    ("B merge sorts input in place", M, "    merged_events: Dict[Tuple, Event] = {}\n", "    merged_events: Dict[Tuple, Event] = {}\n    events.sort()\n", "PURE"),
    ("B merge accumulates into the input event", M, "            merged_events[composite_key] = Event(\n                timestamp=event.timestamp, duration=event.duration, data={}\n            )", "            merged_events[composite_key] = event", "PURE"),
    ("B chunk forgets duration", CH, "            chunked_event.duration += event.duration\n", "", "SUM"),
    ("B chunk forgets subevent", CH, '            chunked_event.data["subevents"].append(event)\n', "", "SUM"),
    ("B chunk pulsetime defaults to zero", CH, "pulsetime: float = 5.0", "pulsetime: float = 0.0", "SUM"),
    ("OK chunk pulsetime defaults to one second", CH, "pulsetime: float = 5.0", "pulsetime: float = 1.0", "ok"),
    ("B chunk run test ignores value", CH, "            and chunked_events[-1].data[key] == event.data[key]\n", "", "SUM"),
    ("B sort ascending durations", S, "key=lambda e: e.duration, reverse=True", "key=lambda e: e.duration", "SHAPE"),
    ("B sort by duration in sort_by_timestamp", S, "return sorted(events, key=lambda e: e.timestamp)", "return sorted(events, key=lambda e: e.duration)", "SHAPE"),
    ("B in-place sort", S, "    return sorted(events, key=lambda e: e.timestamp)", "    events.sort(key=lambda e: e.timestamp)\n    return events", ["PURE", "SHAPE"]),
    ("B limit drops first", S, "return events[:count]", "return events[1:count]", "SHAPE"),
    ("B exclude not complementary", FK, "return [e for e in events if not predicate(e)]", "return [e for e in events if key not in e.data]", "SHAPE"),
    ("B chunking stops at a falsy value", CH, "        if key not in event.data:\n            break", "        if not event.data.get(key):\n            break", "SUM"),
    ("B chunking skips events with a None value", CH, "        if key not in event.data:\n            break", "        if key not in event.data:\n            break\n        if event.data[key] is None:\n            continue", "SUM"),
    ("B nothing-can-match shortcut also taken for exclude", FK, "    def predicate(event):", "    if not events or not vals:\n        return []\n\n    def predicate(event):", "SHAPE"),
    ("OK shortcut for an empty event list", FK, "    def predicate(event):", "    if not events:\n        return []\n\n    def predicate(event):", "ok"),
    ("OK positional key with else branch", M, "                composite_key = composite_key + ((key, val),)\n", "                composite_key = composite_key + (val,)\n            else:\n                composite_key = composite_key + (None,)\n", "ok"),
    ("OK augmented key extension", M, "composite_key = composite_key + ((key, val),)", "composite_key += ((key, val),)", "ok"),
]
