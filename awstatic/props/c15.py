"""C15 — union_no_overlap keeps list one intact and only the uncovered parts of list two (decidable clauses)."""
import ast

from ..affine import Env, Form, Lit, NonAffine
from ..heap import Analysis
from ..model import norm, parent, walk_own
from ..paths import summarize
from ..rules_own import purity_rule

F = "aw_transform/union_no_overlap.py"


def list_one_intact(prog, rep, an):
    rep.rule("L1-INTACT", "no field write targets an object that flows from list one (or its copy); every advance of list one's index is paired, on its path, with exactly one append of the current list-one event to the result; the tail events1[i:] is appended after the loop")
    fi = prog.func("union_no_overlap")
    p1, p2 = fi.params
    # copies
    copies = {}
    for n in fi.node.body:
        if isinstance(n, ast.Assign) and isinstance(n.value, ast.Call) and norm(n.value.func) in ("deepcopy", "copy.deepcopy") and len(n.value.args) == 1:
            copies[norm(n.value.args[0])] = (norm(n.targets[0]), n)
    # writes below list one's copy
    roots = []
    if p1 in copies:
        n = copies[p1][1]
        roots.append(("F", f"{fi.short}:{n.value.lineno}:{n.value.col_offset}:deepcopy", ()))
    roots.append(("P", 0, ()))
    bad = [w for w in an.writes if any(Analysis.under(w.node, r) for r in roots)]
    if bad:
        w = bad[0]
        rep.violation("L1-INTACT", fi.short, "writes below list one", f"an event (or the list) of list one is modified: `{w.how}` on field {w.label} in {w.fn} at {w.loc}: list one must come back unchanged", w.loc, found=[repr(x) for x in bad[:4]])
    else:
        rep.ok("L1-INTACT", fi.short, "writes below list one", f"none of {len(an.writes)} writes targets list one or its events", fi.loc())
    # list one is swept as it is: the only re-binding of its name is the whole-list copy
    l1name = copies.get(p1, (p1,))[0]
    for n in walk_own(fi.node):
        if isinstance(n, (ast.Assign, ast.AugAssign)) and any(norm(t) in (p1, l1name) for t in (n.targets if isinstance(n, ast.Assign) else [n.target])):
            whole = isinstance(n, ast.Assign) and isinstance(n.value, ast.Call) and norm(n.value.func) in ("deepcopy", "copy.deepcopy", "list", "copy.copy", "sorted") and len(n.value.args) >= 1 and norm(n.value.args[0]) in (p1, l1name)
            rep.check(whole, "L1-INTACT", fi.short, f"re-binding {norm(n)[:50]}", "a copy of the whole list", f"list one is re-bound to `{norm(n.value)[:80]}` before the sweep: events of list one that are filtered out there (e.g. zero-length ones) never reach the result, so list one does not come back complete", fi.loc(n))
    # ... and so is list two: every event of it must reach the sweep (its uncovered parts belong to the result)
    l2name = copies.get(p2, (p2,))[0]
    for n in walk_own(fi.node):
        if isinstance(n, (ast.Assign, ast.AugAssign)) and any(norm(t) in (p2, l2name) for t in (n.targets if isinstance(n, ast.Assign) else [n.target])):
            whole = isinstance(n, ast.Assign) and isinstance(n.value, ast.Call) and norm(n.value.func) in ("deepcopy", "copy.deepcopy", "list", "copy.copy", "sorted") and len(n.value.args) >= 1 and norm(n.value.args[0]) in (p2, l2name)
            rep.check(whole, "CUT", fi.short, f"re-binding {norm(n)[:50]}", "a copy of the whole list", f"list two is re-bound to `{norm(n.value)[:80]}` before the sweep: the events filtered out there (e.g. by id, which is unique within one bucket only) never reach the sweep, so their parts not covered by list one are missing from the result", fi.loc(n))
    for c in walk_own(fi.node):
        if isinstance(c, ast.Call) and isinstance(c.func, ast.Attribute) and norm(c.func.value) in (p2, l2name) and c.func.attr in ("remove", "pop", "clear", "sort", "reverse") and not any(c is y for lp_ in fi.node.body if isinstance(lp_, ast.While) for y in ast.walk(lp_)):
            rep.violation("CUT", fi.short, f"{norm(c)[:40]}", "list two is edited before the sweep: events removed there never reach the result", fi.loc(c))
    loops = [n for n in fi.node.body if isinstance(n, ast.While)]
    if len(loops) != 1:
        rep.undecided("L1-INTACT", fi.short, "loop", f"{len(loops)} while loops", fi.loc())
        return None
    lp = loops[0]
    nested = [n for n in ast.walk(lp) if isinstance(n, (ast.While, ast.For)) and n is not lp]
    if nested:
        rep.violation("L1-INTACT", fi.short, f"nested loop at line {nested[0].lineno}", "the sweep advances in a nested loop: events emitted there are not compared with the current event of the other list (each step of the sweep must look at the current pair), so a list-one event that reaches into the current list-two event is emitted without that event being trimmed", fi.loc(nested[0]))
        return None
    l1 = copies.get(p1, (p1,))[0]
    l2 = copies.get(p2, (p2,))[0]
    idx = {}
    for n in lp.body:
        if isinstance(n, ast.Assign) and isinstance(n.value, ast.Subscript) and norm(n.value.value) in (l1, l2) and isinstance(n.value.slice, ast.Name):
            idx[norm(n.value.value)] = (n.value.slice.id, norm(n.targets[0]))
    if set(idx) != {l1, l2}:
        rep.undecided("L1-INTACT", fi.short, "indices", "cannot identify the index variables", fi.loc(lp))
        return None
    (i1, e1), (i2, e2) = idx[l1], idx[l2]
    rets = [n for n in fi.node.body if isinstance(n, ast.Return)]
    acc = norm(rets[0].value) if len(rets) == 1 else None
    env = Env(fi, prog, inline_locals=False)
    sums, g = summarize(fi=None, body=lp.body, env=env)
    rep.unit("paths", f"union_no_overlap loop body: {len(sums)} paths")
    I1 = Form.atom(i1)
    for s in sums:
        adv = s.state.vals.get(i1, I1) - I1
        apps = [c for c in s.calls if norm(c.func) == f"{acc}.append" and len(c.args) == 1 and norm(c.args[0]) in (e1, f"{l1}[{i1}]")]
        cons = f"path lines {s.lines[-4:]}"
        if adv == Form(const=1):
            rep.check(len(apps) == 1, "L1-INTACT", fi.short, cons, f"{i1} += 1 paired with {acc}.append({e1})", f"list one's index advances on a path that appends its current event {len(apps)} times: an event of list one is dropped or duplicated", fi.loc(lp))
        elif adv == Form():
            rep.check(len(apps) == 0, "L1-INTACT", fi.short, cons, "no advance, no append", "the current list-one event is appended without advancing: it will be appended again", fi.loc(lp))
        else:
            rep.violation("L1-INTACT", fi.short, cons, f"list one's index changes by {adv!r}", fi.loc(lp))
    post = [norm(s) for s in fi.node.body if s.lineno > lp.lineno]
    tail_ok = any(t in (f"{acc} += {l1}[{i1}:]", f"{acc}.extend({l1}[{i1}:])", f"{acc} = {acc} + {l1}[{i1}:]") for t in post)
    rep.check(tail_ok, "L1-INTACT", fi.short, "tail of list one", f"{acc} += {l1}[{i1}:]", "the remaining events of list one are not appended after the loop", fi.loc())
    tail2_ok = any(t in (f"{acc} += {l2}[{i2}:]", f"{acc}.extend({l2}[{i2}:])") for t in post)
    rep.check(tail2_ok, "L1-INTACT", fi.short, "tail of list two", f"{acc} += {l2}[{i2}:]", "the remaining events of list two are not appended after the loop", fi.loc())
    return lp, (l1, i1, e1), (l2, i2, e2), acc


def split_rule(prog, rep):
    rep.rule("SPLIT", "_split_event(e, dt): on the path carrying the strict guard e.ts < dt < e.ts + e.dur it returns two deep copies (p1, p2) with p1.ts = e.ts, p1.ts + p1.dur = dt = p2.ts, p2.ts + p2.dur = e.ts + e.dur; on every other path it returns (e, None) and writes nothing")
    fi = prog.func("_split_event")
    ev, dt = fi.params
    env = Env(fi, prog, inline_locals=False)
    sums, g = summarize(fi, env=env)
    T, D, X = Form.atom(f"{ev}.timestamp"), Form.atom(f"{ev}.duration"), Form.atom(dt)
    guard = {Lit(T - X, "<"), Lit(X - T - D, "<")}
    split = [s for s in sums if isinstance(s.ret, ast.Tuple) and len(s.ret.elts) == 2 and not (isinstance(s.ret.elts[1], ast.Constant) and s.ret.elts[1].value is None)]
    other = [s for s in sums if s not in split]
    if len(split) != 1:
        rep.violation("SPLIT", fi.short, "splitting path", f"{len(split)} paths return two pieces", fi.loc())
        return
    s = split[0]
    if s.lits != guard:
        weak = {Lit(T - X, "<="), Lit(X - T - D, "<=")} & s.lits
        rep.violation("SPLIT", fi.short, "guard", f"the split guard is {sorted(map(repr, s.lits))}, not the strict e.ts < dt < e.ts + e.dur" + (": a non-strict bound produces a zero-length piece at a shared edge" if weak else ""), fi.loc(), expected=sorted(map(repr, guard)), found=sorted(map(repr, s.lits)))
    else:
        rep.ok("SPLIT", fi.short, "guard", "e.ts < dt < e.ts + e.dur (strict)", fi.loc())
    n1, n2 = [norm(x) for x in s.ret.elts]
    # both pieces are deep copies of e
    copies = {norm(n.targets[0]) for n in walk_own(fi.node) if isinstance(n, ast.Assign) and norm(n.value) in (f"deepcopy({ev})", f"copy.deepcopy({ev})")}
    if not {n1, n2} <= copies:
        rep.violation("SPLIT", fi.short, "pieces", f"the returned pieces ({n1}, {n2}) are not both deep copies of the event: a piece shares state with its source or loses its data", fi.loc())
        return

    def val(piece, field):
        return s.state.vals.get(f"{piece}.{field}", Form.atom(f"{ev}.{field}"))

    t1, d1, t2, d2 = val(n1, "timestamp"), val(n1, "duration"), val(n2, "timestamp"), val(n2, "duration")
    ok = t1 == T and t1 + d1 == X and t2 == X and t2 + d2 == T + D
    rep.check(ok, "SPLIT", fi.short, "pieces partition the event", "p1 = [e.ts, dt], p2 = [dt, e.end]", f"the pieces are p1=[{t1!r}; +{d1!r}], p2=[{t2!r}; +{d2!r}]: they do not partition [e.ts, e.ts + e.dur] at dt", fi.loc(), expected="p1.ts = e.ts, p1.end = dt = p2.ts, p2.end = e.end", found=f"p1=[{t1!r}; {d1!r}] p2=[{t2!r}; {d2!r}]")
    extra = [k for k in s.state.vals if "." in k and k.split(".")[0] not in (n1, n2)]
    rep.check(not extra, "SPLIT", fi.short, "no other writes", "only the copies are written", f"the source event is written: {extra}", fi.loc())
    for o in other:
        fw = [k for k in o.state.vals if "." in k]
        okr = isinstance(o.ret, ast.Tuple) and len(o.ret.elts) == 2 and norm(o.ret.elts[0]) == ev and isinstance(o.ret.elts[1], ast.Constant) and o.ret.elts[1].value is None and not fw
        if not okr:
            rep.violation("SPLIT", fi.short, "non-splitting path", f"a non-splitting path returns `{norm(o.ret) if o.ret is not None else None}` / writes {fw}", fi.loc())
    rep.ok("SPLIT", fi.short, "non-splitting paths", f"{len(other)} path(s) return (e, None)", fi.loc())


def cut_points(prog, rep, ctx):
    rep.rule("CUT", "pieces of list two enter the result only as outputs of _split_event or as untouched elements; list two's event is cut at the END of the current list-one event when list one starts first (the piece after is kept for later) and at its START otherwise (the piece before is emitted, the piece after re-queued)")
    fi = prog.func("union_no_overlap")
    lp, (l1, i1, e1), (l2, i2, e2), acc = ctx
    # the overlap test that routes list-two events into the trimming branches must mean POSITIVE overlap:
    # under "touching counts as overlap" an uncovered list-two event that starts where e1 ends is split at its own
    # start, _split_event returns (e2, None) and the event is skipped without being emitted
    from ..cfg import cfg_of
    from ..sqlmodel import single_def

    g = cfg_of(fi)

    def overlap_fact(lab):
        """'overlap' / 'touch' with polarity, for an edge whose test is (a name bound to) a Timeslot relation"""
        if not lab or lab[0] != "cond":
            return None
        t = lab[1]
        if isinstance(t, ast.Name):
            d = single_def(fi, t.id)
            if d is not None:
                t = d
        if isinstance(t, ast.Call) and isinstance(t.func, ast.Attribute) and len(t.args) == 1:
            if t.func.attr in ("intersects", "overlaps"):
                return ("overlap", lab[2], norm(t))
            if t.func.attr in ("gap", "adjacent", "contains", "intersection"):
                return ("touch", lab[2], norm(t))
        for c in ast.walk(t):
            if isinstance(c, ast.Call) and isinstance(c.func, ast.Attribute) and c.func.attr in ("gap", "adjacent", "contains", "intersection"):
                return ("touch", lab[2], norm(t))
        return None

    split_calls = [c for c in ast.walk(lp) if isinstance(c, ast.Call) and norm(c.func) == "_split_event"]
    if lp.body and split_calls:
        entry = g.node_of(lp.body[0])
        reach = g.reach_filtered(entry, lambda u, v, lab: not ((overlap_fact(lab) or (None, None))[0] == "overlap" and overlap_fact(lab)[1] is True))
        loose = [c for c in split_calls if g.node_of(c) in reach]
        touch = sorted({overlap_fact(lab)[2] for n in g.nodes for v, lab in g.succ[n.id] if overlap_fact(lab) and overlap_fact(lab)[0] == "touch"})
        if not loose:
            rep.ok("CUT", fi.short, "overlap test", "every trimming site lies on a path that established positive overlap (intersects)", fi.loc(lp))
        elif touch:
            rep.violation("CUT", fi.short, "overlap test", f"list-two events are routed into the trimming branches by `{touch[0]}`, which also holds for events that merely touch the list-one event: an uncovered list-two event starting exactly where the list-one event ends is cut at its own start, nothing is kept and it is dropped (covered time is lost)", fi.loc(loose[0]), expected="e1_p.intersects(e2_p)", found=touch[0])
        else:
            rep.undecided("CUT", fi.short, "overlap test", f"the trimming site at line {loose[0].lineno} is reachable without an intersects() test", fi.loc(loose[0]))
    if lp.body:
        # list two's index moves on without anything of the current list-two event having been emitted: only where the event is
        # known to overlap the list-one event (then "no remainder" means list one covers it)
        adv2 = [n for n in ast.walk(lp) if isinstance(n, ast.AugAssign) and norm(n.target) == i2 and isinstance(n.op, ast.Add)]
        pieces = {e2, f"{l2}[{i2}]"}
        for a_ in ast.walk(lp):
            if isinstance(a_, ast.Assign) and isinstance(a_.value, ast.Call) and norm(a_.value.func) == "_split_event" and a_.value.args and norm(a_.value.args[0]) in (e2, f"{l2}[{i2}]"):
                for t_ in a_.targets:
                    pieces |= {norm(x) for x in (t_.elts if isinstance(t_, ast.Tuple) else [t_])}
        emit2 = {g.node_of(c) for c in ast.walk(lp) if isinstance(c, ast.Call) and norm(c.func) == f"{acc}.append" and len(c.args) == 1 and norm(c.args[0]) in pieces}
        entry_ = g.node_of(lp.body[0])
        silent = g.reach_filtered(entry_, lambda u, v, lab: v not in emit2 and u not in emit2 and not ((overlap_fact(lab) or (None, None))[0] == "overlap" and overlap_fact(lab)[1] is True)) | {entry_}
        for a_ in adv2:
            rep.check(g.node_of(a_) not in silent or g.node_of(a_) in emit2, "CUT", fi.short, f"`{norm(a_)}` at line {a_.lineno}", "list two advances only after emitting (a piece of) its event, or where the event overlaps list one", f"the index of list two is advanced (line {a_.lineno}) on a path that neither emitted anything of the current list-two event nor established that it overlaps the list-one event: a list-two event lying entirely after the list-one event (a gap between them) is dropped, so the result does not contain the uncovered parts of list two", fi.loc(a_))
        whole2 = [c for c in ast.walk(lp) if isinstance(c, ast.Call) and norm(c.func) == f"{acc}.append" and len(c.args) == 1 and norm(c.args[0]) in (e2, f"{l2}[{i2}]")]
        r_no = g.reach_filtered(g.node_of(lp.body[0]), lambda u, v, lab: not ((overlap_fact(lab) or (None, None))[0] == "overlap" and overlap_fact(lab)[1] is False))
        for c in whole2:
            rep.check(g.node_of(c) not in r_no, "CUT", fi.short, f"untrimmed {acc}.append({e2})", "only behind `not intersects`", f"a list-two event is emitted whole (line {c.lineno}) on a path that does not establish that it does not intersect the current list-one event (the routing test is stricter than Timeslot.intersects, e.g. it also demands a positive-length intersection): a zero-length or otherwise covered list-two event comes back although list one covers it", fi.loc(c))
    calls = [c for c in ast.walk(lp) if isinstance(c, ast.Call) and norm(c.func) == "_split_event"]
    if len(calls) != 2:
        rep.violation("CUT", fi.short, "_split_event call sites", f"{len(calls)} call sites (2 expected)", fi.loc(lp))
        return
    E1s, E1e = f"{e1}.timestamp", f"{e1}.timestamp + {e1}.duration"
    from ..trace import deep as _deep

    def _cut(c):
        # a cut point held in a local that is bound once (e1_end = e1.timestamp + e1.duration) is that expression
        return norm(_deep(c.args[1], fi, stop=(e1, e2))) if len(c.args) > 1 else ""

    after = [c for c in calls if _cut(c) in (E1e, f"{e1}.duration + {e1}.timestamp")]
    before = [c for c in calls if _cut(c) == E1s]
    ok = len(after) == 1 and len(before) == 1 and all(norm(c.args[0]) == e2 for c in calls)
    rep.check(ok, "CUT", fi.short, "cut points", f"_split_event({e2}, end of {e1}) and _split_event({e2}, start of {e1})", f"list two's event is cut at {[norm(c.args[1]) for c in calls]} (first args {[norm(c.args[0]) for c in calls]}): the kept piece would overlap list one or covered time is lost", fi.loc(lp), expected=[E1e, E1s], found=[norm(c.args[1]) for c in calls])
    if not ok:
        return
    from ..model import parent

    # site A: piece after is kept in place or the index advances
    a = parent(after[0])
    okA = isinstance(a, ast.Assign) and isinstance(a.targets[0], ast.Tuple) and len(a.targets[0].elts) == 2
    if okA:
        nxt = norm(a.targets[0].elts[1])
        blk = _block_of(a, lp)
        ifs = [s for s in blk if isinstance(s, ast.If) and norm(s.test) in (nxt, f"{nxt} is not None")]
        okA = len(ifs) == 1 and [norm(s) for s in ifs[0].body] == [f"{l2}[{i2}] = {nxt}"] and [norm(s) for s in ifs[0].orelse] == [f"{i2} += 1"]
    rep.check(okA, "CUT", fi.short, "piece after list-one event", f"{l2}[{i2}] = piece-after, else {i2} += 1", "after cutting at the end of the list-one event, the remaining piece of list two is not kept for later (or the covered event is not skipped)", fi.loc(after[0]))
    b = parent(before[0])
    okB = isinstance(b, ast.Assign) and isinstance(b.targets[0], ast.Tuple) and len(b.targets[0].elts) == 2
    if okB:
        first, second = [norm(x) for x in b.targets[0].elts]
        blk = _block_of(b, lp)
        t = [norm(s) for s in blk]
        ifs = [s for s in blk if isinstance(s, ast.If) and norm(s.test) in (second, f"{second} is not None")]
        okB = f"{acc}.append({first})" in t and f"{i2} += 1" in t and len(ifs) == 1 and [norm(s) for s in ifs[0].body] == [f"{l2}.insert({i2}, {second})"] and not ifs[0].orelse and t.index(f"{i2} += 1") < blk.index(ifs[0])
    rep.check(okB, "CUT", fi.short, "piece before list-one event", f"append piece-before, {i2} += 1, re-queue piece-after at {i2}", "after cutting at the start of the list-one event, the piece before is not emitted exactly once or the piece after is not re-queued at the current position", fi.loc(before[0]))
    # anything else appended to the result from list two must be the untouched element
    for c in ast.walk(lp):
        if isinstance(c, ast.Call) and norm(c.func) == f"{acc}.append" and len(c.args) == 1:
            a0 = norm(c.args[0])
            if a0 not in (e1, e2, f"{l1}[{i1}]", f"{l2}[{i2}]") and not (okB and a0 == first):
                rep.violation("CUT", fi.short, f"{acc}.append({a0})", "something other than a list-one event, an untouched list-two event or a _split_event piece enters the result", fi.loc(c))


def _block_of(stmt, loop):
    from ..model import parent

    p = parent(stmt)
    for field in ("body", "orelse"):
        blk = getattr(p, field, None)
        if isinstance(blk, list) and stmt in blk:
            return blk
    return []


def single_exit(prog, rep, fi):
    """the obligations above speak about the sweep: every way out of the function must go through it"""
    from ..cfg import cfg_of, truth

    rep.rule("RESULT", "union_no_overlap returns only the list built by the sweep (after both tails were appended); any other return is taken only when one of the two lists is empty")
    rets = [n for n in walk_own(fi.node) if isinstance(n, ast.Return)]
    last = fi.node.body[-1]
    g = cfg_of(fi)
    a, b = fi.params[0], fi.params[1]

    def says_empty(lab):
        if not lab or lab[0] != "cond":
            return False
        t = norm(lab[1])
        for nm in (a, b):
            if truth(lab, nm) is False:
                return True
            if t in (f"len({nm}) == 0", f"{nm} == []") and lab[2] is True:
                return True
            if t in (f"len({nm}) > 0", f"len({nm}) != 0", f"len({nm}) >= 1") and lab[2] is False:
                return True
        return False

    reach = g.reach_filtered(g.entry, lambda u, v, lab: not says_empty(lab))
    for r in rets:
        if r is last:
            continue
        ok = g.node_of(r) not in reach or (isinstance(r.value, ast.List) and not r.value.elts)
        rep.check(ok, "RESULT", fi.short, f"early return at line {r.lineno}", "only when one list is empty", f"`{norm(r)[:70]}` returns without sweeping although both lists may hold events: on that path nothing trims list two against list one, so overlapping (or merely unsorted) inputs come back overlapping", fi.loc(r))
    rep.check(isinstance(last, ast.Return), "RESULT", fi.short, "final return", "the function ends by returning the swept list", "the function does not end in a return of the swept list", fi.loc(last))


def no_rejection(prog, rep, fi):
    """valid input includes events that share an edge and zero-length events: a validation that raises on `<=` rejects them"""
    from ..affine import Env, NonAffine, literal

    rep.rule("ACCEPTS", "union_no_overlap does not refuse valid input: a `raise` guarded by a comparison between one event's start and another's end is strict (it fires only for events that really overlap / are out of order), never `<=` / `>=` (events that merely touch, or a zero-length event on a neighbour's edge, are valid)")
    n = 0
    for r in [x for x in ast.walk(fi.node) if isinstance(x, ast.Raise)]:
        p = parent(r)
        while p is not None and not isinstance(p, ast.If):
            p = parent(p)
        if p is None:
            continue
        pol = any(r is y for b in p.body for y in ast.walk(b))
        tests = p.test.values if isinstance(p.test, ast.BoolOp) else [p.test]
        for t in tests:
            if not (isinstance(t, ast.Compare) and len(t.ops) == 1 and isinstance(t.ops[0], (ast.Lt, ast.LtE, ast.Gt, ast.GtE))):
                continue
            txt = norm(t)
            if "timestamp" not in txt or "duration" not in txt:
                continue
            n += 1
            try:
                lit = literal(t, Env(fi, prog, inline_locals=True), pol)
            except NonAffine:
                continue
            rep.check(lit.op == "<", "ACCEPTS", fi.short, f"raise under `{txt[:60]}`", "strict comparison", f"the input check `{txt}` also fires when the two instants are EQUAL (the raising side is {lit!r}): lists whose events share an edge, or that hold a zero-length event on a neighbour's edge, are sorted and non-overlapping, yet they are refused with an exception instead of being merged", fi.loc(r))
    rep.extra["input_checks_examined"] = n


def check(prog, rep):
    rep.level = "other"
    rep.explanation = (
        "Decided: inputs are not modified (both parameters are deep-copied before anything else; E2 finds no write below them); list one comes "
        "back intact (no write targets an object flowing from it; each index advance is paired with exactly one append; the tail is appended); "
        "_split_event partitions an event exactly at a strictly interior cut into two deep copies; list two is cut at the end/start of the current "
        "list-one event and only split pieces or untouched elements enter the result. Non-overlap and coverage of the final result for every "
        "interleaving is a loop invariant over a list that grows while it is swept and is NOT decided."
    )
    rep.trusted_base = ["deepcopy yields a disjoint graph", "Timeslot.intersects semantics (third party)"]
    rep.not_decided = ["non-overlap and coverage of the result for every interleaving (loop invariant)"]
    rep.rule("PURE", "no write at or below the input parameters, at any depth (E2)")
    fi, an = purity_rule(prog, rep, "union_no_overlap", ["events1", "events2"])
    ctx = list_one_intact(prog, rep, an)
    single_exit(prog, rep, fi)
    no_rejection(prog, rep, fi)
    split_rule(prog, rep)
    if ctx:
        cut_points(prog, rep, ctx)
    # the sweep computes ends as timestamp + duration and compares/cuts there: that is arithmetic on instants only because
    # every Event's timestamp is stored converted to UTC (in a zone with DST the same sum is wall-clock arithmetic)
    from .c13 import normalisation

    normalisation(prog, rep)
    # the transform's own copies (deepcopy of events) separate its output from its input only if Event keeps the default copy protocol
    from ..rules_own import copy_protocol

    copy_protocol(prog, rep)
    # nothing on the way is memoised on a key that does not determine the answer
    from ..rules_own import memo_rule

    memo_rule(prog, rep, rule="MEMO")
    # cut pieces get their length through Event.duration (C13-DURATION: a timedelta is kept exactly)
    from .c13 import duration_dispatch

    duration_dispatch(prog, rep)


VARIANTS = [
    ("B debug line reads the first event of list one", "aw_transform/union_no_overlap.py", "    events_union = []\n", "    import logging\n\n    logging.getLogger(__name__).debug(\"first %s\", events1[0].timestamp)\n    events_union = []\n", "LOG-TOTAL"),
    ("OK debug line reads the first event under a guard", "aw_transform/union_no_overlap.py", "    events_union = []\n", "    import logging\n\n    if events1:\n        logging.getLogger(__name__).debug(\"first %s\", events1[0].timestamp)\n    events_union = []\n", "ok"),

    ("B fail-fast input validation that also rejects events sharing an edge", F, "    events2 = deepcopy(events2)\n", "    events2 = deepcopy(events2)\n    for prev, cur in zip(events2, events2[1:]):\n        if cur.timestamp <= prev.timestamp + prev.duration:\n            raise ValueError(\"events2 must be sorted and must not overlap itself\")\n", "ACCEPTS"),
    ("OK fail-fast input validation that rejects only real overlap", F, "    events2 = deepcopy(events2)\n", "    events2 = deepcopy(events2)\n    for prev, cur in zip(events2, events2[1:]):\n        if cur.timestamp < prev.timestamp + prev.duration:\n            raise ValueError(\"events2 must be sorted and must not overlap itself\")\n", "ok"),
    ("B timestamp setter keeps zero-offset zones (Europe/London in winter) unconverted", "aw_core/models.py", "        self[\"timestamp\"] = _timestamp_parse(timestamp).astimezone(timezone.utc)", "        ts = _timestamp_parse(timestamp)\n        if ts.utcoffset() != timedelta(0):\n            ts = ts.astimezone(timezone.utc)\n        self[\"timestamp\"] = ts", "NORMALISE"),
    ("B list two loses the events whose id occurs in list one", F, "    events2 = deepcopy(events2)\n", "    events2 = deepcopy(events2)\n    ids1 = {e.id for e in events1 if e.id is not None}\n    events2 = [e for e in events2 if e.id not in ids1]\n", "CUT"),
    ("B events1 not copied", F, "    events1 = deepcopy(events1)\n", "", "ok"),  # list one is never written: still pure
    ("B events2 not copied", F, "    events2 = deepcopy(events2)\n", "", "PURE"),
    ("B split returns shared piece", F, "        e1 = deepcopy(e)\n        e2 = deepcopy(e)\n", "        e1 = e\n        e2 = deepcopy(e)\n", ["PURE", "SPLIT"]),
    ("B non-strict split guard", F, "    if e.timestamp < dt < e.timestamp + e.duration:", "    if e.timestamp <= dt <= e.timestamp + e.duration:", "SPLIT"),
    ("B second piece keeps full duration", F, "        e2.duration = (e.timestamp + e.duration) - dt\n", "", "SPLIT"),
    ("B first piece ends at event end", F, "        e1.duration = dt - e.timestamp\n", "        e1.duration = e.duration\n", "SPLIT"),
    ("B list one event dropped", F, "            if e1.timestamp <= e2.timestamp:\n                events_union.append(e1)\n                e1_i += 1\n\n                # If e2 continues", "            if e1.timestamp <= e2.timestamp:\n                e1_i += 1\n\n                # If e2 continues", "L1-INTACT"),
    ("B list one trimmed instead of list two", F, "                e2_next, e2_next2 = _split_event(e2, e1.timestamp)\n                events_union.append(e2_next)", "                e2_next, e2_next2 = _split_event(e2, e1.timestamp)\n                e1.duration = e1.duration / 2\n                events_union.append(e2_next)", "L1-INTACT"),
    ("B cut at start instead of end", F, "_split_event(e2, e1.timestamp + e1.duration)", "_split_event(e2, e1.timestamp)", "CUT"),
    ("B piece after not re-queued", F, "                if e2_next2:\n                    events2.insert(e2_i, e2_next2)\n", "", "CUT"),
    ("B tail of list one forgotten", F, "    events_union += events1[e1_i:]\n", "", "L1-INTACT"),
    ("B touching counts as overlap", F, "        if e1_p.intersects(e2_p):", "        if e1_p.gap(e2_p) is None:", "CUT"),
    ("B fast path when list one seems to end before list two starts", F, "    # I looked a lot at aw_transform.union when I wrote this\n", "    if events1 and events2:\n        if events1[-1].timestamp + events2[0].duration <= events2[0].timestamp:\n            return events1 + events2\n", "RESULT"),
    ("OK fast path for an empty second list", F, "    # I looked a lot at aw_transform.union when I wrote this\n", "    if not events2:\n        return events1\n", "ok"),
    ("B zero-length list-one events filtered out before the sweep", F, "    # I looked a lot at aw_transform.union when I wrote this\n", "    events1 = [e for e in events1 if e.duration > timedelta(0)]\n", "L1-INTACT"),
    ("B routing demands a positive-length intersection", F, "        if e1_p.intersects(e2_p):", "        overlap = e1_p.intersection(e2_p)\n        if overlap is not None and overlap.duration > timedelta(0):", "CUT"),
    ("B run of list-one events emitted in a nested loop", F, "        else:\n            if e1.timestamp <= e2.timestamp:\n                events_union.append(e1)\n                e1_i += 1\n", "        else:\n            if e1.timestamp <= e2.timestamp:\n                while e1_i < len(events1) and events1[e1_i].timestamp <= e2.timestamp:\n                    events_union.append(events1[e1_i])\n                    e1_i += 1\n", "L1-INTACT"),
    ("OK guard reordered", F, "    if e.timestamp < dt < e.timestamp + e.duration:", "    if dt > e.timestamp and dt < e.timestamp + e.duration:", "ok"),
    ("OK tail via extend", F, "    events_union += events1[e1_i:]\n", "    events_union.extend(events1[e1_i:])\n", "ok"),
]
