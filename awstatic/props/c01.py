"""C01 — stored events come back exactly; the store owns its copy."""
import ast

from ..rules_wrap import wrapper_rules

from ..cfg import cfg_of
from ..model import norm, walk_own
from ..rules_codec import codec_peewee, codec_sqlite
from ..rules_commit import check_no_rollback
from ..rules_own import copy_protocol, own_rules
from ..rules_read import pred_memory, pred_peewee, pred_sqlite
from ..rules_store import instance_state, ddl_facts, idalloc_memory, idalloc_sql, is_param_ref


def bucket_insert(prog, rep):
    rep.rule("INSERT-PATHS", "Bucket.insert returns the backend's insert_one result on the single-event path and calls insert_many with the caller's list on the list path; each path reaches exactly one backend write")
    fi = prog.func("Bucket.insert")
    g = cfg_of(fi)
    ones = [c for c in prog.all_calls(fi) if isinstance(c.func, ast.Attribute) and c.func.attr == "insert_one" and norm(c.func.value) == "self.ds.storage_strategy"]
    manys = [c for c in prog.all_calls(fi) if isinstance(c.func, ast.Attribute) and c.func.attr == "insert_many" and norm(c.func.value) == "self.ds.storage_strategy"]
    if len(ones) != 1 or len(manys) != 1:
        rep.violation("INSERT-PATHS", fi.short, "backend writes", f"{len(ones)} insert_one / {len(manys)} insert_many call sites", fi.loc())
        return
    n1, n2 = g.node_of(ones[0]), g.node_of(manys[0])
    r1, r2 = g.reach_avoiding([n1]), g.reach_avoiding([n2])
    rep.check(n2 not in r1 and n1 not in r2 and n1 not in r1 and n2 not in r2, "INSERT-PATHS", fi.short, "one write per path", "the two writes are on disjoint paths, neither in a loop", "a path reaches more than one backend write (an event would be stored twice)", fi.loc())
    ok, w = g.must_pass(g.entry, {n1, n2})
    rep.check(ok, "INSERT-PATHS", fi.short, "every normal path writes", "every path to a normal exit passes a backend write", "a path returns normally without writing", fi.loc())
    # the single path returns the backend's result
    asg = [n for n in walk_own(fi.node) if isinstance(n, ast.Assign) and n.value is ones[0]]
    rets = [n for n in walk_own(fi.node) if isinstance(n, ast.Return)]
    okr = len(asg) == 1 and len(rets) == 1 and norm(rets[0].value) == norm(asg[0].targets[0]) or any(r.value is ones[0] for r in rets)
    if not okr and len(rets) == 1 and isinstance(rets[0].value, ast.Name):
        # through copies: every definition the returned name can have is (a copy of) the insert_one result, or None (list path)
        from ..sqlmodel import local_defs

        seen, todo, srcs = set(), [rets[0].value.id], []
        while todo:
            nm = todo.pop()
            if nm in seen:
                continue
            seen.add(nm)
            for d in local_defs(fi, nm):
                v = getattr(d, "value", None)
                if isinstance(d, ast.Assign) and isinstance(v, ast.Name):
                    todo.append(v.id)
                else:
                    srcs.append(v)
        okr = any(v is ones[0] for v in srcs) and all(v is ones[0] or (isinstance(v, ast.Constant) and v.value is None) for v in srcs)
    rep.check(okr, "INSERT-PATHS", fi.short, "single insert result", "returns what insert_one returned", "the event returned for a single insert is not the backend's (id-bearing) result", fi.loc())
    rep.check(is_param_ref(manys[0].args[1], fi, "events") if len(manys[0].args) > 1 else False, "INSERT-PATHS", fi.short, "bulk argument", "insert_many(bucket, events)", "the list handed to insert_many is not the caller's", fi.loc(manys[0]))


def check(prog, rep):
    rep.level = "proof"
    rep.explanation = (
        "Second sentence of the property (the store owns its copy) decided for all inputs by the ownership analysis (E2): for each of the 13 "
        "interface methods x 3 backends, no mutable object reachable from a parameter is reachable from the store after the call (OWN-IN) and "
        "nothing returned shares an object with the store (OWN-OUT). If both hold, no later mutation by the caller can reach stored state. "
        "First sentence: CODEC (encode/decode tables and scale constants of the SQL backends agree), schema/IDALLOC (unique ids), INSERT-PATHS."
    )
    rep.trusted_base = ["copy.deepcopy returns an object graph disjoint from its argument", "json.dumps / json.loads and SQLite hold no Python references", "peewee model instances do not alias the values assigned to their fields beyond immutable scalars/strings"]
    rep.not_decided = ["equality of the instant to the millisecond and of the duration to the microsecond for 1970..2100 (float * 1e6, INTEGER affinity, DECIMAL text, julianday): numeric, not visible in code shape"]
    instance_state(prog, rep)
    own_rules(prog, rep)
    copy_protocol(prog, rep)
    codec_sqlite(prog, rep)
    codec_peewee(prog, rep)
    ddl_facts(prog, rep)
    idalloc_memory(prog, rep)
    idalloc_sql(prog, rep)
    wrapper_rules(prog, rep)
    bucket_insert(prog, rep)
    # an acknowledged insert stays: nothing rolls the shared open transaction back
    check_no_rollback(prog, rep)
    # listing without a window returns every stored event: the window predicate is neutral when no edge is given
    # (for every instant a datetime can hold) and is the inclusive intersection when one is
    rep.rule("PRED", "the listing's window predicate is ev.start <= w.end and w.start <= ev.start + ev.dur, each conjunct applied only when its edge is given; an absent edge binds a value that excludes no representable instant")
    pred_memory(prog, rep)
    pred_sqlite(prog, rep)
    pred_peewee(prog, rep)
    # what is inserted into a bucket is stored under THAT bucket's current row, and listing / lookup read that row's events
    from ..rules_store import scope_memory, scope_peewee, scope_sqlite

    ms = {"insert_one", "insert_many", "get_events", "get_event", "replace", "replace_last"}
    scope_sqlite(prog, rep, methods=ms)
    scope_peewee(prog, rep, methods=ms)
    scope_memory(prog, rep, methods=ms)


SQ = "aw_datastore/storages/sqlite.py"
PW = "aw_datastore/storages/peewee.py"
ME = "aw_datastore/storages/memory.py"
DS = "aw_datastore/datastore.py"
VARIANTS = [
    ("B bulk insert writes the tail of the batch as event_rows[-rest:] (rest may be 0: the whole batch again)", "aw_datastore/storages/sqlite.py", "        self.conn.executemany(query, event_rows)\n", "        rest = len(event_rows) % 100\n        self.conn.executemany(query, event_rows[: len(event_rows) - rest])\n        self.conn.executemany(query, event_rows[-rest:])\n", "NEG-SLICE"),
    ("OK bulk insert writes the tail only when there is one", "aw_datastore/storages/sqlite.py", "        self.conn.executemany(query, event_rows)\n", "        rest = len(event_rows) % 100\n        self.conn.executemany(query, event_rows[: len(event_rows) - rest])\n        if rest:\n            self.conn.executemany(query, event_rows[-rest:])\n", "ok"),
    ("B Bucket.get defaults to a limit of 10000", "aw_datastore/datastore.py", "        limit: int = -1,", "        limit: int = 10000,", "WRAP"),
    ("B memory store keeps a sorted view per bucket", "aw_datastore/storages/memory.py", "        self._metadata: Dict[str, dict] = dict()\n", "        self._metadata: Dict[str, dict] = dict()\n        self._sorted: Dict[str, list] = {}\n", "DERIVED-STATE"),

    ("B memory stores a shallow copy (original defect)", ME, "            event = copy.deepcopy(event)\n            if self.db[bucket]:", "            event = copy.copy(event)\n            if self.db[bucket]:", "OWN-IN"),
    ("B memory returns the stored event (original defect)", ME, "            # Hand out a copy, the stored event must not be reachable by the caller\n            event = copy.deepcopy(event)\n", "", "OWN-OUT"),
    ("B memory get_events shallow list copy", ME, "        return copy.deepcopy(events)", "        return list(events)", "OWN-OUT"),
    ("B memory get_event hands out the stored object", ME, "        event = self._get_event(bucket_id, event_id)\n        return copy.deepcopy(event)", "        event = self._get_event(bucket_id, event_id)\n        return event", "OWN-OUT"),
    ("B memory metadata handed out (original defect)", ME, "            return copy.deepcopy(self._metadata[bucket_id])", "            return self._metadata[bucket_id]", "OWN-OUT"),
    ("B memory keeps the caller's data dict (original defect)", ME, '            "data": copy.deepcopy(data) if data else {},', '            "data": data or {},', "OWN-IN"),
    ("B memory replace stores the caller's event", ME, "            event = copy.deepcopy(event)\n            event.id = event_id", "            event.id = event_id", "OWN-IN"),
    ("B sqlite caches the last inserted event", SQ, "        event.id = c.lastrowid\n        self.conditional_commit(1)", "        event.id = c.lastrowid\n        self._last_inserted = event\n        self.conditional_commit(1)", "OWN-IN"),
    ("B sqlite memoised JSON decoding", SQ, "def _rows_to_events(rows: Iterable) -> List[Event]:", "from functools import lru_cache\n\n\n@lru_cache(maxsize=4096)\ndef _loads(s):\n    return json.loads(s)\n\n\ndef _rows_to_events(rows: Iterable) -> List[Event]:", "ok"),
    ("B sqlite memoised JSON decoding used", SQ, "        data = json.loads(row[3])\n", "        data = _loads_cached(row[3])\n", ["CODEC"]),
    ("B sqlite write scale in milliseconds at one site", SQ, "    def replace_last(self, bucket_id, event):\n        starttime = event.timestamp.timestamp() * 1000000", "    def replace_last(self, bucket_id, event):\n        starttime = event.timestamp.timestamp() * 1000", "CODEC"),
    ("B sqlite decoder swaps start and end", SQ, "        starttime = datetime.fromtimestamp(row[1] / 1000000, timezone.utc)\n        endtime = datetime.fromtimestamp(row[2] / 1000000, timezone.utc)", "        starttime = datetime.fromtimestamp(row[2] / 1000000, timezone.utc)\n        endtime = datetime.fromtimestamp(row[1] / 1000000, timezone.utc)", "CODEC"),
    ("B sqlite endtime without the start", SQ, "    def replace(self, bucket_id, event_id, event) -> bool:\n        starttime = event.timestamp.timestamp() * 1000000\n        endtime = starttime + (event.duration.total_seconds() * 1000000)", "    def replace(self, bucket_id, event_id, event) -> bool:\n        starttime = event.timestamp.timestamp() * 1000000\n        endtime = event.duration.total_seconds() * 1000000", "CODEC"),
    ("B sqlite select column order changed", SQ, "            SELECT id, starttime, endtime, datastr\n            FROM events\n            WHERE bucketrow = (SELECT rowid FROM buckets WHERE id = ?) AND id = ?", "            SELECT id, endtime, starttime, datastr\n            FROM events\n            WHERE bucketrow = (SELECT rowid FROM buckets WHERE id = ?) AND id = ?", "CODEC"),
    ("B peewee bulk insert stores duration as timedelta", PW, '                "duration": event.duration.total_seconds(),\n                "datastr": json.dumps(event.data),\n            }', '                "duration": event.duration,\n                "datastr": json.dumps(event.data),\n            }', "CODEC"),
    ("B peewee replace forgets the data", PW, "        e = self._get_event(bucket_id, event_id)\n        e.timestamp = event.timestamp\n        e.duration = event.duration.total_seconds()\n        e.datastr = json.dumps(event.data)\n", "        e = self._get_event(bucket_id, event_id)\n        e.timestamp = event.timestamp\n        e.duration = event.duration.total_seconds()\n", "CODEC"),
    ("B peewee json emits duration as Decimal", PW, '            "duration": float(self.duration),', '            "duration": self.duration,', "CODEC"),
    ("B sqlite id read back as the newest row", SQ, "        event.id = c.lastrowid\n", "        event.id = self.conn.execute(\"SELECT id FROM events WHERE bucketrow = (SELECT rowid FROM buckets WHERE id = ?) ORDER BY starttime DESC, id DESC LIMIT 1\", [bucket_id]).fetchone()[0]\n", "IDALLOC"),
    ("B peewee id read back as the largest id", PW, "        event.id = e.id\n        return event", "        event.id = EventModel.select(peewee.fn.MAX(EventModel.id)).scalar()\n        return event", "IDALLOC"),
    ("B memory id from the event count", ME, "                event.id = max(int(e.id or 0) for e in self.db[bucket]) + 1", "                event.id = len(self.db[bucket])", "IDALLOC"),
    ("B Bucket.insert returns the caller's event", DS, "            inserted = self.ds.storage_strategy.insert_one(self.bucket_id, events)", "            self.ds.storage_strategy.insert_one(self.bucket_id, events)\n            inserted = events", "INSERT-PATHS"),
    ("B upper sentinel is the 32-bit unix maximum (events after 2038 vanish from unbounded listings)", SQ, "MAX_TIMESTAMP = 2**63 - 1", "MAX_TIMESTAMP = (2**31 - 1) * 1000000", "PRED"),
    ("OK upper sentinel is year 9999 in microseconds", SQ, "MAX_TIMESTAMP = 2**63 - 1", "MAX_TIMESTAMP = 253402300800 * 1000000", "ok"),
    ("OK deepcopy imported by name", ME, "        return copy.deepcopy(events)", "        from copy import deepcopy\n\n        return deepcopy(events)", "ok"),
    ("OK metadata rebuilt from deep copies", ME, "            return copy.deepcopy(self._metadata[bucket_id])", "            return {k: copy.deepcopy(v) for k, v in self._metadata[bucket_id].items()}", "ok"),
    ("OK locals renamed in the sqlite writer", SQ, "    def replace_last(self, bucket_id, event):\n        starttime = event.timestamp.timestamp() * 1000000\n        endtime = starttime + (event.duration.total_seconds() * 1000000)\n        datastr = json.dumps(event.data)", "    def replace_last(self, bucket_id, event):\n        t0 = event.timestamp.timestamp() * 1000000\n        starttime = t0\n        endtime = t0 + (event.duration.total_seconds() * 1000000)\n        datastr = json.dumps(event.data)", "ok"),
]
