"""C01 — stored events come back exactly; the store owns its copy."""
import ast

from ..cfg import cfg_of
from ..model import norm, walk_own
from ..rules_codec import codec_peewee, codec_sqlite
from ..rules_own import own_rules
from ..rules_store import ddl_facts, idalloc_memory, is_param_ref


def bucket_insert(prog, rep):
    rep.rule("INSERT-PATHS", "Bucket.insert returns the backend's insert_one result on the single-event path and calls insert_many with the caller's list on the list path; each path reaches exactly one backend write")
    fi = prog.func("Bucket.insert")
    g = cfg_of(fi)
    ones = [c for c in prog.all_calls(fi) if isinstance(c.func, ast.Attribute) and c.func.attr == "insert_one" and norm(c.func.value) == "self.ds.storage_strategy"]
    manys = [c for c in prog.all_calls(fi) if isinstance(c.func, ast.Attribute) and c.func.attr == "insert_many" and norm(c.func.value) == "self.ds.storage_strategy"]
    if len(ones) != 1 or len(manys) != 1:
        rep.violation("INSERT-PATHS", fi.short, "backend writes", f"{len(ones)} insert_one / {len(manys)} insert_many call sites", fi.loc())
        return
    n1, n2 = g.node_of(ones[0]), g.node_of(manys[0])
    r1, r2 = g.reach_avoiding([n1]), g.reach_avoiding([n2])
    rep.check(n2 not in r1 and n1 not in r2 and n1 not in r1 and n2 not in r2, "INSERT-PATHS", fi.short, "one write per path", "the two writes are on disjoint paths, neither in a loop", "a path reaches more than one backend write (an event would be stored twice)", fi.loc())
    ok, w = g.must_pass(g.entry, {n1, n2})
    rep.check(ok, "INSERT-PATHS", fi.short, "every normal path writes", "every path to a normal exit passes a backend write", "a path returns normally without writing", fi.loc())
    # the single path returns the backend's result
    asg = [n for n in walk_own(fi.node) if isinstance(n, ast.Assign) and n.value is ones[0]]
    rets = [n for n in walk_own(fi.node) if isinstance(n, ast.Return)]
    okr = len(asg) == 1 and len(rets) == 1 and norm(rets[0].value) == norm(asg[0].targets[0]) or any(r.value is ones[0] for r in rets)
    rep.check(okr, "INSERT-PATHS", fi.short, "single insert result", "returns what insert_one returned", "the event returned for a single insert is not the backend's (id-bearing) result", fi.loc())
    rep.check(is_param_ref(manys[0].args[1], fi, "events") if len(manys[0].args) > 1 else False, "INSERT-PATHS", fi.short, "bulk argument", "insert_many(bucket, events)", "the list handed to insert_many is not the caller's", fi.loc(manys[0]))


def check(prog, rep):
    rep.level = "proof"
    rep.explanation = (
        "Second sentence of the property (the store owns its copy) decided for all inputs by the ownership analysis (E2): for each of the 13 "
        "interface methods x 3 backends, no mutable object reachable from a parameter is reachable from the store after the call (OWN-IN) and "
        "nothing returned shares an object with the store (OWN-OUT). If both hold, no later mutation by the caller can reach stored state. "
        "First sentence: CODEC (encode/decode tables and scale constants of the SQL backends agree), schema/IDALLOC (unique ids), INSERT-PATHS."
    )
    rep.trusted_base = ["copy.deepcopy returns an object graph disjoint from its argument", "json.dumps / json.loads and SQLite hold no Python references", "peewee model instances do not alias the values assigned to their fields beyond immutable scalars/strings"]
    rep.not_decided = ["equality of the instant to the millisecond and of the duration to the microsecond for 1970..2100 (float * 1e6, INTEGER affinity, DECIMAL text, julianday): numeric, not visible in code shape"]
    own_rules(prog, rep)
    codec_sqlite(prog, rep)
    codec_peewee(prog, rep)
    ddl_facts(prog, rep)
    idalloc_memory(prog, rep)
    bucket_insert(prog, rep)
