"""C19 — annotating transforms add their keys and leave everything else alone."""
import ast

from ..affine import Env, Form, Lit, NonAffine, literal
from ..heap import Analysis, fmt
from ..trace import map_desc
from ..model import norm, walk_own, walk_with_nested_exprs
from ..rules_own import transform_analysis

CL = "aw_transform/classify.py"
SP = "aw_transform/split_url_events.py"
SI = "aw_transform/simplify.py"

ALLOWED = {
    "categorize": {"$category"},
    "tag": {"$tags"},
    "split_url_events": {"$protocol", "$domain", "$path", "$params", "$options", "$identifier"},
    "simplify_string": {("k", "key")},
}


def write_set(prog, rep):
    rep.rule("WRITE-SET", "on objects reachable from the events parameter (or its deep copy) the four functions write only e.data[<their own keys>]: categorize $category, tag $tags, split_url_events the six $-keys, simplify_string data[key]; no write to timestamp, duration, id, no other data key, no del, no list mutation")
    rep.rule("SAME-EVENTS", "the result is the input list itself, its deep copy, or a comprehension over it with no filter whose element is a per-event function that returns its argument")
    for fn, allowed in ALLOWED.items():
        fi, an = transform_analysis(prog, fn)
        rep.unit("functions", fi.qname)
        # roots: parameter 0 and any deepcopy of it
        roots = [("P", 0, ())]
        for n in walk_own(fi.node):
            if isinstance(n, ast.Assign) and isinstance(n.value, ast.Call) and norm(n.value.func) in ("deepcopy", "copy.deepcopy") and len(n.value.args) == 1 and norm(n.value.args[0]) == fi.params[0]:
                roots.append(("F", f"{fi.short}:{n.value.lineno}:{n.value.col_offset}:deepcopy", ()))
        n_w = 0
        bad = []
        for w in an.writes:
            r = next((r for r in roots if Analysis.under(w.node, r)), None)
            if r is None:
                continue
            n_w += 1
            path = w.node[2]
            # allowed: node = root[*].data, label in allowed
            if tuple(path) == ("*", "data") and (w.label in allowed) and w.how == "[...] =":
                continue
            bad.append(w)
        if bad:
            w = bad[0]
            what = f"{'.'.join(str(x) for x in w.node[2]) or '<the list>'}[{w.label if not isinstance(w.label, tuple) else w.label[1]}]"
            rep.violation("WRITE-SET", fi.short, f"write to {what}", f"`{w.how}` at {w.loc} (in {w.fn}) writes {what} of the events: only {sorted(map(str, allowed))} of event.data may be written — timestamps, durations, ids, unrelated data and the list itself must stay as they are", w.loc, expected=f"event.data[{sorted(map(str, allowed))}]", found=[repr(x) for x in bad[:4]])
        else:
            rep.ok("WRITE-SET", fi.short, "writes below events", f"{n_w} write(s), all to event.data[{sorted(map(str, allowed))}]", fi.loc())
        for u in an.unknown_methods_on_tracked:
            rep.undecided("WRITE-SET", fi.short, f"call {u[1]}", f"unknown method on a tracked object {u[2]}", u[0])
        # SAME-EVENTS
        rets = [n for n in walk_own(fi.node) if isinstance(n, ast.Return)]
        ok = False
        why = "unrecognised result"
        if len(rets) == 1:
            rv = rets[0].value
            p0 = fi.params[0]
            if isinstance(rv, ast.Name) and rv.id == p0:
                # the parameter, possibly re-bound to its deep copy; never filtered / re-ordered
                defs = [n for n in walk_own(fi.node) if isinstance(n, ast.Assign) and norm(n.targets[0]) == p0]
                ok = all(norm(d.value) in (f"deepcopy({p0})", f"copy.deepcopy({p0})") for d in defs)
                why = f"`{p0}` is re-bound to `{norm(defs[0].value) if defs else ''}`"
                structural = [w for w in an.writes if any(Analysis.under(w.node, r) and w.node == r for r in roots)]
                if structural:
                    ok = False
                    why = f"the list itself is mutated ({structural[0].how} at {structural[0].loc})"
            elif isinstance(rv, ast.Name) and map_desc(fi, rv) is not None:
                md = map_desc(fi, rv)
                ok = md == ([], p0, "_", None)
                why = f"the result is built as {md}: not one entry per input event, in order, the event itself"
            elif isinstance(rv, ast.ListComp) and len(rv.generators) == 1:
                g = rv.generators[0]
                if g.ifs:
                    why = f"the result is filtered by `{norm(g.ifs[0])}`: events are dropped"
                elif norm(g.iter) != p0:
                    why = f"the result ranges over `{norm(g.iter)}`, not over the input"
                elif isinstance(rv.elt, ast.Call) and rv.elt.args and norm(rv.elt.args[0]) == norm(g.target):
                    callee = prog.resolve_call(rv.elt, fi)
                    if len(callee) == 1:
                        c = callee[0]
                        crets = [n for n in walk_own(c.node) if isinstance(n, ast.Return)]
                        ok = len(crets) >= 1 and all(norm(r.value) == c.params[0] for r in crets)
                        why = f"{c.short} does not return its event argument"
                elif norm(rv.elt) == norm(g.target):
                    ok = True
        rep.check(ok, "SAME-EVENTS", fi.short, "result", "same events, same order, none dropped", why, fi.loc())


def url_keys(prog, rep):
    rep.rule("URL-KEYS", "split_url_events: parsed = urlparse(event.data['url']); $protocol = scheme, $path = path, $params = params, $options = query, $identifier = fragment, and $domain = netloc with ONE leading 'www.' removed (slice under a prefix test / removeprefix); strip()/lstrip() take a character set, replace() removes inner occurrences")
    from ..trace import deep

    fi = prog.func("split_url_events")
    want = {"$protocol": "scheme", "$path": "path", "$params": "params", "$options": "query", "$identifier": "fragment"}
    got = {}
    for n in walk_own(fi.node):
        if isinstance(n, ast.Assign) and isinstance(n.targets[0], ast.Subscript) and isinstance(n.targets[0].slice, ast.Constant) and isinstance(n.targets[0].slice.value, str) and n.targets[0].slice.value.startswith("$"):
            ev = n.targets[0].value.value.id if isinstance(n.targets[0].value, ast.Attribute) and isinstance(n.targets[0].value.value, ast.Name) else "event"
            got[n.targets[0].slice.value] = (deep(n.value, fi, stop=(ev,)), n, ev)
    # $domain written in both branches of one test (what an expanded helper with two returns leaves): read as a conditional expression
    for i_ in [x for x in walk_own(fi.node) if isinstance(x, ast.If) and len(x.body) == 1 and len(x.orelse) == 1]:
        a_, b_ = i_.body[0], i_.orelse[0]
        if isinstance(a_, ast.Assign) and isinstance(b_, ast.Assign) and norm(a_.targets[0]) == norm(b_.targets[0]) and isinstance(a_.targets[0], ast.Subscript) and isinstance(a_.targets[0].slice, ast.Constant) and a_.targets[0].slice.value == "$domain":
            ev = a_.targets[0].value.value.id if isinstance(a_.targets[0].value, ast.Attribute) and isinstance(a_.targets[0].value.value, ast.Name) else "event"
            ie = ast.IfExp(test=i_.test, body=a_.value, orelse=b_.value)
            ast.copy_location(ie, i_)
            ast.fix_missing_locations(ie)
            got["$domain"] = (deep(ie, fi, stop=(ev,)), a_, ev)
    # attributes of a parse result that raise for URLs a browser shows: .port (ValueError for a non-numeric or out-of-range port)
    for x_ in walk_with_nested_exprs(fi.node):
        if isinstance(x_, ast.Attribute) and x_.attr == "port" and isinstance(x_.ctx, ast.Load):
            rep.violation("URL-KEYS", fi.short, f"`{norm(x_)[:40]}`", f"`{norm(x_)}` is evaluated for every event with a url: urlparse(...).port raises ValueError for a port that is not a number in 0..65535 (`http://localhost:56000000/`), so split_url_events aborts in the middle of the list instead of annotating the events", fi.loc(x_))
    for k, attr in want.items():
        if k not in got:
            rep.violation("URL-KEYS", fi.short, k, f"{k} is never written", fi.loc())
            continue
        v, n, ev = got[k]
        ok = norm(v) in (f"urlparse({ev}.data['url']).{attr}", f"urllib.parse.urlparse({ev}.data['url']).{attr}")
        rep.check(ok, "URL-KEYS", fi.short, k, f"urlparse(url).{attr}", f"{k} is `{norm(v)[:80]}`, not the {attr} of the event's url", fi.loc(n))
    if "$domain" not in got:
        rep.violation("URL-KEYS", fi.short, "$domain", "$domain is never written", fi.loc())
        return
    v, n, ev = got["$domain"]
    N = f"urlparse({ev}.data['url']).netloc"
    t = norm(v).replace("urllib.parse.urlparse", "urlparse")
    good = {
        f"{N}[4:] if {N}[:4] == 'www.' else {N}",
        f"{N}[4:] if {N}.startswith('www.') else {N}",
        f"{N} if {N}[:4] != 'www.' else {N}[4:]",
        f"{N} if not {N}.startswith('www.') else {N}[4:]",
        f"{N}.removeprefix('www.')",
        f"re.sub('^www\\\\.', '', {N})",
    }
    if t in good:
        rep.ok("URL-KEYS", fi.short, "$domain", "netloc minus one leading 'www.'", fi.loc(n))
    elif any(isinstance(c, ast.Call) and isinstance(c.func, ast.Attribute) and c.func.attr in ("lstrip", "strip", "rstrip") and c.args and isinstance(c.args[0], ast.Constant) and isinstance(c.args[0].value, str) and len(c.args[0].value) > 1 for c in ast.walk(v)):
        rep.violation("URL-KEYS", fi.short, "$domain", f"`{norm(n.value)[:70]}`: str.lstrip/strip take a SET of characters, not a prefix: 'wikipedia.org' loses its leading 'w', 'web.whatsapp.com' becomes 'eb.whatsapp.com'; the $domain key no longer holds the host", fi.loc(n), expected="netloc[4:] if netloc.startswith('www.') else netloc", found=norm(n.value))
    elif any(isinstance(c, ast.Call) and isinstance(c.func, ast.Attribute) and c.func.attr == "replace" for c in ast.walk(v)):
        rep.violation("URL-KEYS", fi.short, "$domain", f"`{norm(n.value)[:70]}` removes 'www.' wherever it occurs in the host, not only as a prefix", fi.loc(n))
    elif ".netloc" not in t and any(isinstance(c, ast.Attribute) and c.attr in ("hostname", "port", "username") for c in ast.walk(v)):
        rep.violation("URL-KEYS", fi.short, "$domain", f"`{norm(n.value)[:70]}` is built from urlparse(url).hostname, not .netloc: hostname is lower-cased and leaves out the port and the user part, so 'localhost:5600' and 'localhost:5666' (or 'GitHub.com' and 'github.com') are given the same $domain", fi.loc(n), expected="netloc minus one leading 'www.'", found=t[:120])
    elif any(isinstance(c, ast.Call) and isinstance(c.func, ast.Attribute) and c.func.attr in ("lower", "upper", "casefold", "split", "rsplit", "partition", "rpartition") for c in ast.walk(v)):
        rep.violation("URL-KEYS", fi.short, "$domain", f"`{norm(n.value)[:70]}` changes the network location beyond dropping one leading 'www.' (case folding / cutting at a separator): distinct hosts or ports are given the same $domain", fi.loc(n), expected="netloc minus one leading 'www.'", found=t[:120])
    else:
        rep.undecided("URL-KEYS", fi.short, "$domain", f"unrecognised way of dropping the www. prefix: `{t[:100]}`", fi.loc(n))


def _pick_via_reduce(prog, rep, fi):
    t = norm(fi.node.body[-1])
    ok = t == f"return reduce(_pick_deepest_cat, {fi.params[0]}, ['Uncategorized'])"
    rep.check(ok, "PICK", fi.short, "fold", "reduce(_pick_deepest_cat, tags, ['Uncategorized'])", f"`{t}` is not the left fold over the matches starting from ['Uncategorized']", fi.loc())
    fi = prog.func("_pick_deepest_cat")
    a, b = fi.params
    rets = [n for n in walk_own(fi.node) if isinstance(n, ast.Return)]
    ok = False
    why = "not a single conditional return"
    if len(rets) == 1 and isinstance(rets[0].value, ast.IfExp):
        e = rets[0].value
        try:
            lit = literal(e.test, Env(fi, prog, inline_locals=False))
            want_new = Lit(Form({f"len({a})": 1, f"len({b})": -1}), "<=")  # len(acc) - len(new) <= 0
            body, other = norm(e.body), norm(e.orelse)
            if lit == want_new and body == b and other == a:
                ok = True
            elif lit == want_new.negate() and body == a and other == b:
                ok = True
            else:
                strict = Lit(Form({f"len({a})": 1, f"len({b})": -1}), "<")
                if (lit == strict and body == b) or (lit == strict.negate() and body == a):
                    why = f"`{norm(e)}`: on equal depth the EARLIER rule wins (strict comparison); the property says the later rule wins ties"
                else:
                    why = f"`{norm(e)}` ({lit!r}) does not pick the deeper category with ties to the later one"
        except NonAffine as ex:
            why = f"test not affine: {ex}"
    rep.check(ok, "PICK", fi.short, "deepest, later wins ties", f"{b} if len({b}) >= len({a}) else {a}", why, fi.loc())


def category_choice(prog, rep):
    rep.rule("PICK", "_pick_category = reduce(_pick_deepest_cat, matches-in-rule-order, ['Uncategorized']); _pick_deepest_cat(acc, new) returns new on len(new) >= len(acc) (non-strict: the later rule wins ties), else acc; categorize/tag collect matches with a comprehension over `classes` in order filtered by rule.match(e) only")
    fi = prog.func("_pick_category")
    tp = fi.params[0]
    if not prog.has_func("_pick_deepest_cat"):
        # the fold written out as a loop: acc = ['Uncategorized']; for c in tags: if len(c) >= len(acc): acc = c; return acc
        from ..paths import summarize

        rets = [n for n in walk_own(fi.node) if isinstance(n, ast.Return)]
        loops = [n for n in fi.node.body if isinstance(n, ast.For)]
        ok, why = False, "neither reduce(_pick_deepest_cat, ...) nor a single fold loop"
        if len(rets) == 1 and not loops:
            # max(reversed([['Uncategorized'], *tags]), key=len): max() keeps the FIRST of several maximal elements, so over the
            # reversed candidates it is the LAST maximal one -- the same element the fold with >= ends on
            from ..trace import deep as _deep

            v = _deep(rets[0].value, fi)
            if isinstance(v, ast.Call) and norm(v.func) == "max" and len(v.args) == 1 and len(v.keywords) == 1 and v.keywords[0].arg == "key" and norm(v.keywords[0].value) == "len":
                arg = v.args[0]
                rev = isinstance(arg, ast.Call) and norm(arg.func) == "reversed" and len(arg.args) == 1
                lst = _deep(arg.args[0], fi) if rev else _deep(arg, fi)
                if isinstance(lst, ast.Call) and norm(lst.func) == "list" and len(lst.args) == 1:
                    lst = lst.args[0]
                shape = isinstance(lst, ast.List) and len(lst.elts) == 2 and norm(lst.elts[0]) == "['Uncategorized']" and isinstance(lst.elts[1], ast.Starred) and norm(lst.elts[1].value) == tp
                if shape and rev:
                    ok = True
                elif shape:
                    why = "max() over the candidates in rule order keeps the FIRST of several equally deep ones: on equal depth the EARLIER rule wins (and 'Uncategorized' beats a one-level category); the property says the later rule wins ties"
                else:
                    why = f"max(..., key=len) is not taken over ['Uncategorized'] followed by the matches (`{norm(lst)[:60]}`)"
            rep.check(ok, "PICK", fi.short, "fold", "last deepest of ['Uncategorized'] + matches", why, fi.loc())
            rep.ok("PICK", fi.short, "deepest, later wins ties", "decided on the max() form above", fi.loc())
        elif len(rets) == 1 and isinstance(rets[0].value, ast.Name) and len(loops) == 1 and norm(loops[0].iter) == tp and isinstance(loops[0].target, ast.Name):
            acc, cv = rets[0].value.id, loops[0].target.id
            inits = [n for n in fi.node.body if isinstance(n, (ast.Assign, ast.AnnAssign)) and norm(n.targets[0] if isinstance(n, ast.Assign) else n.target) == acc]
            init_ok = len(inits) == 1 and inits[0].value is not None and norm(inits[0].value) == "['Uncategorized']" and inits[0].lineno < loops[0].lineno
            sums, _g = summarize(fi=None, body=loops[0].body, env=Env(fi, prog, inline_locals=False))
            want_new = Lit(Form({f"len({acc})": 1, f"len({cv})": -1}), "<=")
            ok = init_ok and bool(sums) and not any(isinstance(x, (ast.Break, ast.Continue, ast.Return)) for x in ast.walk(loops[0]))
            why = "the accumulator does not start from ['Uncategorized']" if not init_ok else ""
            for sm in sums:
                took = any(isinstance(x, ast.Assign) and norm(x.targets[0]) == acc for x in sm.stmts)
                newv = [norm(x.value) for x in sm.stmts if isinstance(x, ast.Assign) and norm(x.targets[0]) == acc]
                if took:
                    if newv != [cv] or want_new not in sm.lits:
                        ok = False
                        strict = Lit(Form({f"len({acc})": 1, f"len({cv})": -1}), "<") in sm.lits
                        why = f"the pick is replaced by `{newv}` under {sorted(map(repr, sm.lits))}" + (": on equal depth the EARLIER rule wins (strict comparison); the property says the later rule wins ties" if strict else "")
                else:
                    if want_new.negate() not in sm.lits:
                        ok = False
                        why = f"a category is passed over under {sorted(map(repr, sm.lits))}, not exactly when it is shallower than the current pick"
        if loops or len(rets) != 1:
            rep.check(ok, "PICK", fi.short, "fold", "left fold over the matches from ['Uncategorized'], deeper-or-equal replaces", why, fi.loc())
            rep.ok("PICK", fi.short, "deepest, later wins ties", "decided on the loop form above", fi.loc())
    else:
        _pick_via_reduce(prog, rep, fi)
    from ..trace import deep

    for fn, key, wrap in (("categorize", "$category", "_pick_category"), ("tag", "$tags", None)):
        # (the per-event helpers of these two functions are expanded into them by the normalisation pass)
        fi = prog.func(fn)
        classes = fi.params[1]
        asg = [n for n in walk_own(fi.node) if isinstance(n, ast.Assign) and isinstance(n.targets[0], ast.Subscript) and norm(n.targets[0].slice) == f"'{key}'" and isinstance(n.targets[0].value, ast.Attribute) and n.targets[0].value.attr == "data" and isinstance(n.targets[0].value.value, ast.Name)]
        ok = False
        why = f"no assignment to <event>.data['{key}']"
        e = norm(asg[0].targets[0].value.value) if asg else "e"
        if len(asg) == 1:
            v = deep(asg[0].value, fi, stop=(e,))
            if wrap:
                if isinstance(v, ast.Call) and norm(v.func) == wrap and len(v.args) == 1:
                    v = v.args[0]
                else:
                    v = None
                    why = f"value is not {wrap}(matches)"
            if isinstance(v, ast.ListComp) and len(v.generators) == 1:
                g = v.generators[0]
                tgt = g.target
                if isinstance(tgt, ast.Tuple) and len(tgt.elts) == 2 and norm(g.iter) == classes and len(g.ifs) == 1 and norm(g.ifs[0]) == f"{norm(tgt.elts[1])}.match({e})" and norm(v.elt) == norm(tgt.elts[0]):
                    ok = True
                else:
                    why = f"matches are `{norm(v)}`: not every class of `{classes}`, in order, filtered by rule.match(e) only"
        rep.check(ok, "PICK", fi.short, f"matches for {key}", f"[cls for cls, rule in {classes} if rule.match({e})]", why, fi.loc())


def _resolve_flags(e, fi):
    from ..trace import resolve

    return resolve(e, fi)


def rule_match(prog, rep):
    rep.rule("MATCH", "Rule: an empty/absent regex compiles to None and match() is False then; candidate values are data.get(k) for select_keys, else all values; only str values are tested; the test is a found-anywhere regex call (search/findall/finditer); re.IGNORECASE is passed exactly when ignore_case is truthy")
    init = prog.func("Rule.__init__")
    rules = init.params[1]
    from ..cfg import cfg_of, truth
    from ..paths import inline_simple_locals
    from ..sqlmodel import single_def

    g = cfg_of(init)
    # the local that holds the regex text
    rx = None
    for n in walk_own(init.node):
        if isinstance(n, ast.Assign) and isinstance(n.targets[0], ast.Name) and norm(n.value) in (f"{rules}.get('regex', None)", f"{rules}.get('regex')", f"{rules}.get('regex', '')"):
            rx = n.targets[0].id
    cases = []
    for path in g.paths(ends={g.exit}):
        lits = set()
        val = None
        for nid, lab in path:
            if lab and lab[0] == "cond":
                lits.add((norm(lab[1]), lab[2]))
            a = g.nodes[nid].ast
            if g.nodes[nid].kind == "stmt" and isinstance(a, ast.Assign) and norm(a.targets[0]) == "self.regex":
                val = a.value
        if val is None:
            cases.append((lits, None))
        elif isinstance(val, ast.IfExp):
            cases.append((lits | {(norm(val.test), True)}, val.body))
            cases.append((lits | {(norm(val.test), False)}, val.orelse))
        else:
            cases.append((lits, val))
    ok = rx is not None and bool(cases)
    why = "the regex text is not read from rules['regex']" if rx is None else ""
    FLAGS = ("(re.IGNORECASE if self.ignore_case else 0) | re.UNICODE", "re.UNICODE | (re.IGNORECASE if self.ignore_case else 0)", "re.IGNORECASE if self.ignore_case else 0")
    for lits, val in cases:
        if not ok:
            break
        if val is None:
            ok, why = False, "self.regex is not assigned on every path"
        elif (rx, True) in lits:
            v = inline_simple_locals(val, init)
            good = isinstance(v, ast.Call) and norm(v.func) == "re.compile" and len(v.args) == 2 and norm(v.args[0]) == rx and norm(_resolve_flags(v.args[1], init)) in FLAGS
            if not good:
                ok, why = False, f"for a non-empty regex self.regex is `{norm(v)[:100]}`: it must be re.compile(<the regex text>, flags) with re.IGNORECASE exactly when ignore_case is truthy"
        elif (rx, False) in lits:
            if not (isinstance(val, ast.Constant) and val.value is None):
                ok, why = False, f"for an empty / absent regex self.regex is `{norm(val)[:60]}` instead of None: the empty pattern matches everything"
        else:
            ok, why = False, f"self.regex is assigned without testing whether the regex text is empty (path condition {sorted(lits)})"
    rep.check(ok, "MATCH", init.short, "regex construction", "re.compile(regex, IGNORECASE iff ignore_case) if regex else None", why, init.loc())
    ic = [n for n in walk_own(init.node) if isinstance(n, ast.Assign) and norm(n.targets[0]) == "self.ignore_case"]
    rep.check(len(ic) == 1 and norm(ic[0].value) in (f"{rules}.get('ignore_case', False)",), "MATCH", init.short, "ignore_case", "rules.get('ignore_case', False)", "ignore_case is not read from the rule", init.loc())
    sk = [n for n in walk_own(init.node) if isinstance(n, ast.Assign) and norm(n.targets[0]) == "self.select_keys"]
    rep.check(len(sk) == 1 and norm(sk[0].value) in (f"{rules}.get('select_keys', None)", f"{rules}.get('select_keys')"), "MATCH", init.short, "select_keys", "rules.get('select_keys')", "select_keys is not read from the rule", init.loc())
    m = prog.func("Rule.match")
    e = m.params[1]
    t = norm(m.node)
    # values
    ifs = [n for n in m.node.body if isinstance(n, ast.If) and norm(n.test) == "self.select_keys"]
    okv = False
    if len(ifs) == 1:
        a = [norm(s) for s in ifs[0].body]
        b = [norm(s) for s in ifs[0].orelse]
        okv = a in ([f"values = [{e}.data.get(key, None) for key in self.select_keys]"], [f"values = [{e}.data.get(key) for key in self.select_keys]"]) and b in ([f"values = list({e}.data.values())"], [f"values = {e}.data.values()"])
    if not ifs:
        # the same choice written as one conditional expression
        for n in m.node.body:
            if isinstance(n, ast.Assign) and norm(n.targets[0]) == "values" and isinstance(n.value, ast.IfExp) and norm(n.value.test) == "self.select_keys":
                okv = norm(n.value.body) in (f"[{e}.data.get(key, None) for key in self.select_keys]", f"[{e}.data.get(key) for key in self.select_keys]") and norm(n.value.orelse) in (f"list({e}.data.values())", f"{e}.data.values()")
    rep.check(okv, "MATCH", m.short, "candidate values", "data.get(k) for select_keys else all values", "candidate values are not 'selected keys if given, else all values'", m.loc())
    # test: a hit is reported only for a str value in which the regex is found anywhere, and only when a regex exists
    gm = cfg_of(m)

    from ..trace import deep, resolve

    def rtruth(lab):
        """truth() of self.regex, seen through a local alias (regex = self.regex)"""
        if lab and lab[0] == "cond":
            e_ = lab[1]
            neg_ = False
            while isinstance(e_, ast.UnaryOp) and isinstance(e_.op, ast.Not):
                e_, neg_ = e_.operand, not neg_
            if isinstance(e_, ast.Name) and norm(resolve(e_, m)) == "self.regex":
                return lab[2] != neg_
        return truth(lab, "self.regex")

    def cond_ok(c, v):
        t = norm(deep(c, m, stop=(v,)))
        return any(t == f"isinstance({v}, str) and self.regex.{f}({v})" for f in ("search", "findall", "finditer"))

    hits = []
    okt, why = False, "no per-value test found"
    for n in walk_own(m.node):
        if isinstance(n, ast.Return) and n.value is not None:
            r = n.value
            if isinstance(r, ast.Constant) and r.value is True:
                hits.append(("loop", n))
            elif isinstance(r, ast.Call) and norm(r.func) == "any" and len(r.args) == 1 and isinstance(r.args[0], (ast.GeneratorExp, ast.ListComp)):
                hits.append(("any", n))
            elif isinstance(r, ast.Constant) and r.value is False:
                pass
            else:
                hits.append(("other", n))
    if any(k == "other" for k, _ in hits):
        why = f"match() returns `{norm([n for k, n in hits if k == 'other'][0].value)[:80]}`"
    elif hits:
        okt = True
        for k, n in hits:
            node = gm.node_of(n)
            # only when a regex exists
            guarded = node not in gm.reach_filtered(gm.entry, lambda u, v, lab: rtruth(lab) is not True)
            if not guarded:
                okt, why = False, "a hit can be reported although the rule has no regex (empty regex must never match)"
                break
            if k == "any":
                ge = n.value.args[0]
                gen = ge.generators[0]
                if not (len(ge.generators) == 1 and norm(gen.iter) == "values" and not gen.ifs and cond_ok(ge.elt, norm(gen.target))):
                    okt, why = False, f"the per-value test is `{norm(ge)[:100]}`: it must be 'is a str and the regex is found anywhere in it' over all candidate values"
                    break
            else:
                # `return True` inside `for val in values:` under the per-value condition
                from ..model import parent as _parent

                p = _parent(n)
                lp = p
                while lp is not None and not isinstance(lp, ast.For):
                    lp = _parent(lp)
                if not (isinstance(p, ast.If) and lp is not None and norm(lp.iter) == "values" and cond_ok(p.test, norm(lp.target)) and n in p.body):
                    tt = norm(p.test) if isinstance(p, ast.If) else "<unconditional>"
                    okt, why = False, f"the per-value test is `{tt}`: it must be 'is a str and the regex is found anywhere in it' (re.match/fullmatch only look at the start / the whole string)"
                    break
    rep.check(okt, "MATCH", m.short, "found-anywhere test on str values", "isinstance(val, str) and self.regex.search(val)", why, m.loc())
    falls = [n for n in walk_own(m.node) if isinstance(n, ast.Return) and isinstance(n.value, ast.Constant) and n.value.value is False]
    last = m.node.body[-1]
    okd = bool(falls) or (isinstance(last, ast.Return) and isinstance(last.value, ast.Call) and norm(last.value.func) == "any")
    rep.check(okd and isinstance(last, ast.Return), "MATCH", m.short, "default", "return False", "match() does not default to False", m.loc())


def check(prog, rep):
    rep.level = "proof"
    rep.explanation = (
        "Write-sets of the four annotating transforms are computed by the points-to/effect analysis (E2) through every inlined callee: on objects "
        "reachable from the events parameter (or its deep copy) only event.data[<own keys>] is assigned - no write to timestamp/duration/id, "
        "no other data key, no del, no list mutation - and the result is the same events in the same order. The category/tag choice and "
        "Rule.match are matched against their specified shape (fold, non-strict depth comparison, found-anywhere regex on str values, IGNORECASE iff asked)."
    )
    rep.trusted_base = ["re module semantics", "urllib.parse.urlparse results (values written under the $-keys)"]
    rep.not_decided = ["regex semantics", "URL parsing results"]
    write_set(prog, rep)
    url_keys(prog, rep)
    category_choice(prog, rep)
    rule_match(prog, rep)
    # nothing on the way is memoised on a key that does not determine the answer
    from ..rules_own import memo_rule

    memo_rule(prog, rep, rule="MEMO")


VARIANTS = [
    ("B $domain taken from the parsed hostname", "aw_transform/split_url_events.py", "                parsed_url.netloc[4:]\n                if parsed_url.netloc[:4] == \"www.\"\n                else parsed_url.netloc\n", "                (parsed_url.hostname or \"\")[4:]\n                if (parsed_url.hostname or \"\")[:4] == \"www.\"\n                else (parsed_url.hostname or \"\")\n", "URL-KEYS"),
    ("B www. dropped with lstrip (a character set)", "aw_transform/split_url_events.py", '            event.data["$domain"] = (\n                parsed_url.netloc[4:]\n                if parsed_url.netloc[:4] == "www."\n                else parsed_url.netloc\n            )', '            event.data["$domain"] = parsed_url.netloc.lstrip("www.")', "URL-KEYS"),
    ("B $path holds the query string", "aw_transform/split_url_events.py", 'event.data["$path"] = parsed_url.path', 'event.data["$path"] = parsed_url.query', "URL-KEYS"),
    ("OK www. dropped with startswith", "aw_transform/split_url_events.py", 'if parsed_url.netloc[:4] == "www."', 'if parsed_url.netloc.startswith("www.")', "ok"),
    ("B categorize rewrites timestamp", CL, '    e.data["$category"] = _pick_category(', '    e.timestamp = e.timestamp\n    e.data["$category"] = _pick_category(', "WRITE-SET"),
    ("B categorize clears data", CL, '    e.data["$category"] = _pick_category(', '    e.data = {}\n    e.data["$category"] = _pick_category(', "WRITE-SET"),
    ("B tag writes another key", CL, '    e.data["$tags"] = [', '    e.data["title"] = ""\n    e.data["$tags"] = [', "WRITE-SET"),
    ("B tag filters events", CL, "    return [_tag_one(e, classes) for e in events]", "    return [_tag_one(e, classes) for e in events if e.data]", "SAME-EVENTS"),
    ("B categorize reverses", CL, "    return [_categorize_one(e, classes) for e in events]", "    return [_categorize_one(e, classes) for e in reversed(events)]", "SAME-EVENTS"),
    ("B earlier rule wins ties", CL, "return t2 if len(t2) >= len(t1) else t1", "return t2 if len(t2) > len(t1) else t1", "PICK"),
    ("B shallowest wins", CL, "return t2 if len(t2) >= len(t1) else t1", "return t2 if len(t2) <= len(t1) else t1", "PICK"),
    ("B regex anchored at start", CL, "self.regex.search(val)", "self.regex.match(val)", "MATCH"),
    ("B ignore_case inverted", CL, "(re.IGNORECASE if self.ignore_case else 0)", "(0 if self.ignore_case else re.IGNORECASE)", "MATCH"),
    ("B empty regex matches everything", CL, "            if regex_str\n            else None", "            if regex_str is not None\n            else None", "MATCH"),
    ("B non-str values stringified", CL, "if isinstance(val, str) and self.regex.search(val):", "if self.regex.search(str(val)):", "MATCH"),
    ("B tags only first match", CL, '    e.data["$tags"] = [_cls for _cls, rule in classes if rule.match(e)]', '    e.data["$tags"] = [_cls for _cls, rule in classes if rule.match(e)][:1]', "PICK"),
    ("B split_url drops events without url", SP, "    return events\n", "    return [e for e in events if 'url' in e.data]\n", "SAME-EVENTS"),
    ("B split_url writes duration", SP, '            event.data["$protocol"] = parsed_url.scheme\n', '            event.data["$protocol"] = parsed_url.scheme\n            event.duration = 0\n', "WRITE-SET"),
    ("B simplify pops key", SI, '        e.data[key] = re_parensprefix.sub("", e.data[key])\n', '        e.data[key] = re_parensprefix.sub("", e.data.pop(key))\n', "WRITE-SET"),
    ("B simplify sorts the copy", SI, "    for e in events:\n", "    events.sort()\n    for e in events:\n", ["WRITE-SET", "SAME-EVENTS"]),
    ("OK comparison flipped", CL, "return t2 if len(t2) >= len(t1) else t1", "return t1 if len(t1) > len(t2) else t2", "ok"),
    ("OK findall instead of search", CL, "self.regex.search(val)", "self.regex.findall(val)", "ok"),
    ("OK simplify without deepcopy (annotates in place like the others)", SI, "    events = deepcopy(events)\n", "", "ok"),
]
