"""C20 — effective configuration = defaults overlaid by the user's file."""
import ast

from ..affine import Env, Form
from ..cfg import cfg_of
from ..model import FuncInfo, norm, walk_own, walk_with_nested_exprs
from ..paths import summarize
from ..sqlmodel import local_defs, single_def

C = "aw_core/config.py"
EXISTS_TESTS = ("os.path.isfile({p})", "os.path.exists({p})", "Path({p}).is_file()", "Path({p}).exists()", "pathlib.Path({p}).is_file()")
FILE_MUTATORS = ("os.remove", "os.unlink", "os.rename", "os.replace", "os.truncate", "shutil.move", "shutil.copy", "shutil.copyfile", "shutil.rmtree", "os.rmdir")


def _write_opens(fi):
    out = []
    for n in walk_with_nested_exprs(fi.node):
        if isinstance(n, ast.Call) and norm(n.func) in ("open", "io.open", "codecs.open"):
            mode = None
            if len(n.args) > 1:
                mode = n.args[1]
            for k in n.keywords:
                if k.arg == "mode":
                    mode = k.value
            if mode is None:
                continue
            if isinstance(mode, ast.Constant) and isinstance(mode.value, str):
                if any(ch in mode.value for ch in "wax+"):
                    out.append((n, mode.value))
            else:
                out.append((n, "?"))
        if isinstance(n, ast.Call) and isinstance(n.func, ast.Attribute) and n.func.attr in ("write_text", "write_bytes", "unlink", "touch", "rename"):
            out.append((n, "." + n.func.attr))
        if isinstance(n, ast.Call) and norm(n.func) in FILE_MUTATORS:
            out.append((n, norm(n.func)))
    return out


NEVER_NONE = ("tomlkit.parse", "tomlkit.loads", "tomlkit.document", "dict", "list", "tomlkit.table")  # library calls that return an object, never None


def never_alters(prog, rep):
    rep.rule("NO-CLOBBER", "in load_config_toml every file-writing construct (open with a write mode, write_text, remove/rename/...) lies only on the not-exists branch of an existence test on the same path expression, and no other file writer is reachable from it")
    fi = prog.func("load_config_toml")
    rep.unit("functions", fi.qname)
    g = cfg_of(fi)
    ws = _write_opens(fi)
    if not ws:
        rep.ok("NO-CLOBBER", fi.short, "file writes", "none", fi.loc())
    for call, mode in ws:
        path = call.args[0] if call.args else (call.func.value if isinstance(call.func, ast.Attribute) else None)
        ptxt = norm(path) if path is not None else "?"
        tests = {t.format(p=ptxt) for t in EXISTS_TESTS}

        def asserts_missing_direct(lab):
            return bool(lab) and lab[0] == "cond" and norm(lab[1]) in tests and lab[2] is False

        reach0 = g.reach_filtered(g.entry, lambda u, v, lab: not asserts_missing_direct(lab))

        def none_witness(x):
            """local x is None exactly where the file was found missing: its `x = None` bindings sit only on the not-exists
            branch and every other binding is the result of a parser / constructor that never returns None"""
            defs = [d for d in local_defs(fi, x) if isinstance(d, ast.Assign)]
            nones = [d for d in defs if isinstance(d.value, ast.Constant) and d.value.value is None]
            if not nones or len(defs) != len(local_defs(fi, x)):
                return False
            for d in defs:
                if d in nones:
                    if g.node_of(d) in reach0:
                        return False
                elif not (isinstance(d.value, (ast.Dict, ast.List)) or (isinstance(d.value, ast.Call) and norm(d.value.func) in NEVER_NONE)):
                    return False
            return True

        def asserts_missing(lab):
            if asserts_missing_direct(lab):
                return True
            if bool(lab) and lab[0] == "cond":
                c = lab[1]
                if isinstance(c, ast.Compare) and len(c.ops) == 1 and isinstance(c.left, ast.Name) and isinstance(c.comparators[0], ast.Constant) and c.comparators[0].value is None:
                    if (isinstance(c.ops[0], ast.Is) and lab[2] is True) or (isinstance(c.ops[0], ast.IsNot) and lab[2] is False):
                        # only bindings that can reach the test count: a re-binding inside the branch comes after it
                        return none_witness_at(c.left.id, c)
            return False

        def none_witness_at(x, test):
            defs = [d for d in local_defs(fi, x) if isinstance(d, ast.Assign)]
            if len(defs) != len(local_defs(fi, x)):
                return False
            from ..model import parent as _parent

            st_ = test
            while not isinstance(st_, ast.stmt):
                st_ = _parent(st_)
            tn = g.node_of(st_)
            live = [d for d in defs if tn in g.reach_avoiding([g.node_of(d)])]
            nones = [d for d in live if isinstance(d.value, ast.Constant) and d.value.value is None]
            if not nones:
                return False
            for d in live:
                if d in nones:
                    if g.node_of(d) in reach0:
                        return False
                elif not (isinstance(d.value, (ast.Dict, ast.List)) or (isinstance(d.value, ast.Call) and norm(d.value.func) in NEVER_NONE)):
                    return False
            return True

        node = g.node_of(call)
        reach = g.reach_filtered(g.entry, lambda u, v, lab: not asserts_missing(lab))
        guarded = node not in reach
        stable = isinstance(path, ast.Name) and len(local_defs(fi, path.id)) == 1
        if not stable and path is not None and not isinstance(path, ast.Name):
            # the path written out as an expression: the same text denotes the same file if nothing it reads is re-bound
            stable = all(not local_defs(fi, nm.id) for nm in ast.walk(path) if isinstance(nm, ast.Name) and isinstance(nm.ctx, ast.Load))
        rep.check(guarded and stable, "NO-CLOBBER", fi.short, f"open({ptxt}, {mode!r})", "only on the branch where the file does not exist", f"the file `{ptxt}` can be opened for writing ({mode}) on a path where it exists (or the path variable is re-bound): an existing user file is overwritten", fi.loc(call), expected=f"dominated by the false edge of os.path.isfile({ptxt})", found="reachable without it")
    # reachable callees
    seen, work = set(), [fi]
    while work:
        f = work.pop()
        if f in seen:
            continue
        seen.add(f)
        for c in prog.all_calls(f):
            for callee in prog.resolve_call(c, f):
                work.append(callee)
    for f in seen:
        if f is fi:
            continue
        rep.unit("functions", f.qname)
        for call, mode in _write_opens(f):
            rep.violation("NO-CLOBBER", f.short, f"file write {mode}", f"load_config_toml reaches {f.short}, which writes files ({norm(call)[:60]})", f.loc(call))
    rep.ok("NO-CLOBBER", fi.short, "reachable callees", f"{sorted(x.short for x in seen if x is not fi)} write no files", fi.loc())


def _name_template(e, app):
    """file-name expression -> template text with the application name written <A>, or None"""
    if isinstance(e, ast.Constant) and isinstance(e.value, str):
        return e.value
    if isinstance(e, ast.Name) and e.id == app:
        return "<A>"
    if isinstance(e, ast.JoinedStr):
        out = ""
        for v in e.values:
            if isinstance(v, ast.Constant):
                out += str(v.value)
            elif isinstance(v, ast.FormattedValue) and v.format_spec is None and v.conversion == -1:
                t = _name_template(v.value, app)
                if t is None:
                    return None
                out += t
            else:
                return None
        return out
    if isinstance(e, ast.BinOp) and isinstance(e.op, ast.Add):
        a, b = _name_template(e.left, app), _name_template(e.right, app)
        return None if a is None or b is None else a + b
    if isinstance(e, ast.Call) and isinstance(e.func, ast.Attribute) and e.func.attr == "format" and isinstance(e.func.value, ast.Constant) and isinstance(e.func.value.value, str) and len(e.args) == 1 and not e.keywords:
        t = _name_template(e.args[0], app)
        return None if t is None else e.func.value.value.replace("{}", t).replace("{0}", t)
    return None


def config_path(prog, rep):
    rep.rule("PATH", "the file load_config_toml consults and creates is <config dir of the application>/<application name>.toml, the name being the application name followed by '.toml' (concatenation / f-string / format); suffix-replacing operations (Path.with_suffix, os.path.splitext, .stem) change the name of applications whose name contains a dot")
    from ..trace import deep

    for fname in ("load_config_toml", "save_config_toml"):
        fi = prog.func(fname)
        app = fi.params[0]
        opens = [c for c in walk_with_nested_exprs(fi.node) if isinstance(c, ast.Call) and norm(c.func) == "open" and c.args]
        if not opens:
            rep.undecided("PATH", fi.short, "config file", "no open() call", fi.loc())
            continue
        paths = {norm(deep(c.args[0], fi)): deep(c.args[0], fi) for c in opens}
        for txt, e in paths.items():
            bad = [n for n in ast.walk(e) if (isinstance(n, ast.Attribute) and n.attr in ("with_suffix", "splitext", "stem", "with_name")) ]
            if bad:
                rep.violation("PATH", fi.short, "config file name", f"the config file path is `{txt[:110]}`: `{bad[0].attr}` REPLACES whatever follows the last dot of the application name, so for an application called e.g. 'aw-watcher-demo.v2' the file consulted is 'aw-watcher-demo.toml': the user's file is ignored and a second file is created next to it", fi.loc(opens[0]), expected="os.path.join(config_dir, f'{appname}.toml')", found=txt[:160])
                continue
            inner = e
            if isinstance(inner, ast.Call) and norm(inner.func) == "str" and len(inner.args) == 1:
                inner = inner.args[0]
            d_expr = n_expr = None
            if isinstance(inner, ast.Call) and norm(inner.func) in ("os.path.join", "Path", "pathlib.Path", "PurePath") and len(inner.args) == 2:
                d_expr, n_expr = inner.args
            elif isinstance(inner, ast.BinOp) and isinstance(inner.op, ast.Div):
                d_expr, n_expr = inner.left, inner.right
                if isinstance(d_expr, ast.Call) and norm(d_expr.func) in ("Path", "pathlib.Path") and len(d_expr.args) == 1:
                    d_expr = d_expr.args[0]
            tmpl = _name_template(n_expr, app) if n_expr is not None else None
            okd = d_expr is not None and norm(d_expr) in (f"dirs.get_config_dir({app})", f"get_config_dir({app})")
            # ... looked up when load_config_toml runs: get_config_dir is a function that asks platformdirs on every call
            dm = prog.module("aw_core.dirs")
            gcd = dm.funcs.get("get_config_dir")
            at_call = gcd is not None and any(isinstance(x, ast.Call) and norm(x.func).endswith("user_config_dir") for x in ast.walk(gcd.node))
            at_import = [x for st in dm.tree.body if not isinstance(st, (ast.FunctionDef, ast.ClassDef)) for x in ast.walk(st) if isinstance(x, ast.Call) and norm(x.func).endswith("user_config_dir")]
            rep.check(at_call and not at_import, "PATH", "aw_core.dirs.get_config_dir", "config directory resolved per call", "platformdirs.user_config_dir(...) inside get_config_dir", "the configuration directory is computed once at import time (platformdirs is asked at module level) instead of on every call: after XDG_CONFIG_HOME / the home directory changes, the user's existing file is not consulted and the template is written into the old directory", f"{dm.relpath}:{at_import[0].lineno if at_import else (gcd.node.lineno if gcd else 1)}")
            if tmpl is None or d_expr is None:
                rep.undecided("PATH", fi.short, "config file name", f"cannot read the file name off `{txt[:110]}`", fi.loc(opens[0]))
            else:
                rep.check(okd and tmpl == "<A>.toml", "PATH", fi.short, "config file name", "<config dir>/<appname>.toml", f"the config file is `{txt[:110]}` (name template {tmpl!r}), not <config dir of {app}>/{app}.toml", fi.loc(opens[0]), expected="<A>.toml", found=tmpl)


def overlay(prog, rep):
    rep.rule("OVERLAY", "_merge(a, b): iterates over every key of b; key absent in a => a[key] = b[key]; both values dicts => recursive _merge(a[key], b[key]) in the same order; otherwise a[key] = b[key] (or left alone when equal); no key of a is ever deleted; returns a.  load_config_toml calls _merge(parsed defaults, parsed user file) in that order and returns the result")
    fi = prog.func("_merge")
    a, b = fi.params[0], fi.params[1]
    loops = [n for n in fi.node.body if isinstance(n, ast.For)]
    if not loops and any(isinstance(n, ast.While) for n in walk_own(fi.node)):
        rep.undecided("OVERLAY", fi.short, "iteration", "_merge walks the documents with an explicit work list (while loop), which the per-key path analysis does not follow", fi.loc())
        return
    if len(loops) != 1 or norm(loops[0].iter) not in (b, f"{b}.keys()"):
        rep.violation("OVERLAY", fi.short, "iteration", f"_merge does not iterate over every key of its second argument (loops over {[norm(l.iter) for l in loops]})", fi.loc())
        return
    lp = loops[0]
    k = norm(lp.target)
    rets = [n for n in walk_own(fi.node) if isinstance(n, ast.Return)]
    badr = [r for r in rets if r.value is None or norm(r.value) != a]
    rep.check(bool(rets) and not badr, "OVERLAY", fi.short, "return", f"every return gives back {a}", f"`{norm(badr[0]) if badr else 'no return'}`: _merge does not always return the first argument it overlaid in place; a recursive call discards the result, so where the other object is returned (e.g. an empty default table) the user's keys never reach the configuration", fi.loc(badr[0]) if badr else fi.loc())
    # deletions
    dels = [n for n in ast.walk(fi.node) if isinstance(n, ast.Delete) or (isinstance(n, ast.Call) and isinstance(n.func, ast.Attribute) and norm(n.func.value) == a and n.func.attr in ("pop", "clear", "popitem"))]
    rep.check(not dels, "OVERLAY", fi.short, "no deletion", "no key of the defaults is deleted", f"keys of the first argument are deleted ({norm(dels[0]) if dels else ''})", fi.loc())
    if any(isinstance(n, (ast.Break, ast.Return)) for n in ast.walk(lp)):
        rep.violation("OVERLAY", fi.short, "loop", "the key loop can stop before every key of the user's document was merged", fi.loc(lp))
    nested = [n for n in ast.walk(lp) if isinstance(n, (ast.For, ast.While)) and n is not lp]
    if nested:
        nl = nested[0]
        edits = [n for n in ast.walk(nl) if (isinstance(n, (ast.Assign, ast.AugAssign)) and any(isinstance(t, ast.Subscript) for t in (n.targets if isinstance(n, ast.Assign) else [n.target]))) or (isinstance(n, ast.Call) and isinstance(n.func, ast.Attribute) and n.func.attr in ("append", "extend", "insert", "update", "setdefault")) or (isinstance(n, ast.Call) and norm(n.func) == fi.name)]
        if edits:
            rep.violation("OVERLAY", fi.short, "per-key handling with a loop of its own", f"a branch of the key loop walks over a value element by element and edits it in place (`{norm(edits[0])[:60]}` inside `{norm(nl).splitlines()[0][:60]}`): for a key both documents have, whose values are not both tables, the result must be the user's value as a whole -- an element-wise merge keeps elements of the default the user did not write (a shorter or empty user array leaves the default's tail in force)", fi.loc(edits[0]))
        else:
            rep.undecided("OVERLAY", fi.short, "per-key handling with a loop of its own", f"`{norm(nl).splitlines()[0][:60]}`", fi.loc(nl))
        return
    env = Env(fi, prog, inline_locals=False)
    sums, _ = summarize(fi=None, body=lp.body, env=env, dnf=True)
    A, B = Form.atom(f"{a}[{k}]"), Form.atom(f"{b}[{k}]")
    rep.unit("paths", f"_merge loop body: {len(sums)} paths")
    for s in sums:
        present = (f"{k} in {a}", True) in s.opaque or (f"{k} not in {a}", False) in s.opaque
        absent = (f"{k} in {a}", False) in s.opaque or (f"{k} not in {a}", True) in s.opaque
        both_dict = (f"isinstance({a}[{k}], dict)", True) in s.opaque and (f"isinstance({b}[{k}], dict)", True) in s.opaque
        from ..affine import Lit

        equal = (f"{a}[{k}] == {b}[{k}]", True) in s.opaque or (f"{a}[{k}] != {b}[{k}]", False) in s.opaque or Lit(A - B, "==") in s.lits
        wrote = s.state.vals.get(f"{a}[{k}]")
        other_w = [x for x in s.state.vals if ("[" in x or "." in x) and x != f"{a}[{k}]"]
        rec = [c for c in s.calls if norm(c.func) == fi.name] + [c for c in _value_calls(s, fi.name)]
        # the value is the user's value itself, not a conversion of it (float(b[k]), str(b[k]), a copy with another type)
        from ..paths import inline_simple_locals as _isl

        conv = [st_ for st_ in s.stmts if isinstance(st_, ast.Assign) and len(st_.targets) == 1 and norm(st_.targets[0]) == f"{a}[{k}]" and norm(_isl(st_.value, fi)) != f"{b}[{k}]"]
        if conv and wrote == B:
            rep.violation("OVERLAY", fi.short, f"value stored for a key of the user's file", f"`{norm(conv[0])[:70]}` stores a conversion of the user's value, not the value: the effective configuration no longer carries what the user wrote (e.g. an integer beyond 2**53 rounded by float(), true turned into 1.0)", fi.loc(conv[0]))
            continue
        cons = f"path {sorted(f'{chr(43) if p else chr(45)}{t}' for t, p in s.opaque)}"
        if other_w:
            rep.violation("OVERLAY", fi.short, cons[:90], f"writes {other_w}", fi.loc(lp))
        elif absent:
            rep.check(wrote == B and not rec, "OVERLAY", fi.short, "key only in the user's file", f"{a}[{k}] = {b}[{k}]", f"a key that only the user has is not copied over (`{a}[{k}]` := {wrote!r})", fi.loc(lp))
        elif present and both_dict:
            from ..paths import inline_simple_locals

            okr = len(rec) == 1 and len(rec[0].args) >= 2 and norm(inline_simple_locals(rec[0].args[0], fi)) == f"{a}[{k}]" and norm(inline_simple_locals(rec[0].args[1], fi)) == f"{b}[{k}]" and wrote is None
            rep.check(okr, "OVERLAY", fi.short, "both tables", f"_merge({a}[{k}], {b}[{k}])", f"two tables under the same key are not merged recursively in the same order (calls {[norm(c)[:50] for c in rec]}, write {wrote!r}): nested defaults the user did not set are lost", fi.loc(lp))
        elif present and equal:
            rep.check(wrote in (None, B) and not rec, "OVERLAY", fi.short, "equal leaf", "left as is", f"equal leaves are rewritten as {wrote!r}", fi.loc(lp))
        elif present:
            rep.check(wrote == B and not rec, "OVERLAY", fi.short, "user overrides default", f"{a}[{k}] = {b}[{k}]", f"the user's value does not replace the default (`{a}[{k}]` := {wrote!r})", fi.loc(lp))
            # ... and a default TABLE is replaced as a whole only by something that is not a table (or it is not a table itself)
            not_both = (f"isinstance({a}[{k}], dict)", False) in s.opaque or (f"isinstance({b}[{k}], dict)", False) in s.opaque
            if wrote == B and not not_both:
                rep.violation("OVERLAY", fi.short, ("table replaced wholesale: " + cons)[:90], f"on the path {cons} the default `{a}[{k}]` is replaced by the user's `{b}[{k}]` although nothing on the path rules out that both are tables: a user table that takes this path (e.g. an empty one, as the first-run template writes for every section) wipes out every default of that section", fi.loc(lp), expected="two tables are always merged key by key", found=cons)
        elif wrote is None and not rec:
            rep.violation("OVERLAY", fi.short, cons[:90], f"a key of the user's document is skipped without being merged on the path {cons}: the user's setting (e.g. a falsy value such as 0, false or an empty table) silently loses against the default", fi.loc(lp), expected="every key of the second argument is copied, merged recursively, or equal already", found=cons)
        else:
            rep.undecided("OVERLAY", fi.short, cons[:90], "path without a membership test", fi.loc(lp))
    # the call in load_config_toml
    lc = prog.func("load_config_toml")
    calls = [c for c in prog.all_calls(lc) if norm(c.func) == "_merge"]
    if len(calls) != 1 or len(calls[0].args) < 2:
        rep.violation("OVERLAY", lc.short, "_merge call", f"{len(calls)} calls to _merge", lc.loc())
        return
    c = calls[0]
    d0 = single_def(lc, norm(c.args[0])) if isinstance(c.args[0], ast.Name) else c.args[0]
    ok0 = d0 is not None and norm(d0) == f"tomlkit.parse({lc.params[1]})"
    rb_ = local_defs(lc, lc.params[1])
    rep.check(not rb_, "OVERLAY", lc.short, "default document as given", f"`{lc.params[1]}` is not re-bound", (f"`{norm(rb_[0])[:80]}` rewrites the default document before it is parsed: whatever the rewriting does to the text is also done inside multi-line string values (dedent / strip / replace change them), so keys the user leaves alone no longer carry the default the caller gave" if rb_ else ""), lc.loc(rb_[0]) if rb_ else lc.loc())
    defs1 = local_defs(lc, norm(c.args[1])) if isinstance(c.args[1], ast.Name) else []
    # a `x = None` binding that cannot reach the call as None (`if x is None: x = {}` stands between) is not a value of the argument
    if isinstance(c.args[1], ast.Name) and any(isinstance(d, ast.Assign) and isinstance(d.value, ast.Constant) and d.value.value is None for d in defs1):
        g_ = cfg_of(lc)
        xn = c.args[1].id
        st_c = c
        from ..model import parent as _parent

        while not isinstance(st_c, ast.stmt):
            st_c = _parent(st_c)
        others = {g_.node_of(d) for d in defs1 if not (isinstance(d, ast.Assign) and isinstance(d.value, ast.Constant) and d.value.value is None)}

        def _edge(u, v, lab):
            if v in others:
                return False
            if lab and lab[0] == "cond" and isinstance(lab[1], ast.Compare) and len(lab[1].ops) == 1 and isinstance(lab[1].left, ast.Name) and lab[1].left.id == xn and isinstance(lab[1].comparators[0], ast.Constant) and lab[1].comparators[0].value is None:
                if (isinstance(lab[1].ops[0], ast.Is) and lab[2] is False) or (isinstance(lab[1].ops[0], ast.IsNot) and lab[2] is True):
                    return False  # x is still None here: this edge is not taken
            return True

        dead = [d for d in defs1 if isinstance(d, ast.Assign) and isinstance(d.value, ast.Constant) and d.value.value is None and g_.node_of(st_c) not in g_.reach_filtered(g_.node_of(d), _edge)]
        defs1 = [d for d in defs1 if d not in dead]
    vals1 = sorted(norm(d.value) for d in defs1 if isinstance(d, ast.Assign))
    ok1 = len(vals1) == 2 and any(v in ("dict()", "{}") for v in vals1) and any(v.startswith("tomlkit.parse(") for v in vals1)
    early_defaults = False
    if not ok1:
        # the first-run branch may hand back the parsed defaults themselves (_merge(defaults, {}) is the defaults): then the one
        # call of _merge takes the parsed user file, directly or through a local bound once
        a1 = c.args[1]
        v1 = a1 if not isinstance(a1, ast.Name) else (defs1[0].value if len(defs1) == 1 and isinstance(defs1[0], ast.Assign) else None)
        if isinstance(v1, ast.Call) and norm(v1.func) == "tomlkit.parse" and len(v1.args) == 1:
            erets = [r for r in walk_own(lc.node) if isinstance(r, ast.Return) and r.value is not None and norm(r.value) == norm(c.args[0])]
            early_defaults = bool(erets)
            ok1 = early_defaults
            defs1 = [ast.copy_location(ast.Assign(targets=[ast.Name(id="<user>", ctx=ast.Store())], value=v1), v1)]
            vals1 = [norm(v1), "<defaults returned on first run>"]
    rep.check(ok0 and ok1, "OVERLAY", lc.short, "_merge(defaults, user)", f"_merge({norm(c.args[0])}, {norm(c.args[1])})", f"_merge is called with ({norm(c.args[0])} := {norm(d0) if d0 is not None else '?'}, {norm(c.args[1])} := {vals1}): the defaults must be the first (overlaid) argument and the user's file the second", lc.loc(c))
    rets = [n for n in walk_own(lc.node) if isinstance(n, ast.Return)]
    asg = [n for n in walk_own(lc.node) if isinstance(n, ast.Assign) and n.value is c]
    okr = len(rets) == 1 and ((asg and norm(rets[0].value) == norm(asg[0].targets[0])) or rets[0].value is c)
    if not okr and early_defaults:
        okr = all(r.value is c or (asg and norm(r.value) == norm(asg[0].targets[0])) or norm(r.value) == norm(c.args[0]) for r in rets if r.value is not None) and any(r.value is c or (asg and norm(r.value) == norm(asg[0].targets[0])) for r in rets)
    rep.check(bool(okr), "OVERLAY", lc.short, "return", "returns the merge result", "load_config_toml does not return the overlaid configuration", lc.loc())
    # what is parsed on the exists branch is the file's content
    g = cfg_of(lc)
    for d in defs1:
        if isinstance(d, ast.Assign) and norm(d.value).startswith("tomlkit.parse("):
            arg = d.value.args[0]
            src_def = single_def(lc, norm(arg)) if isinstance(arg, ast.Name) else None
            multi = local_defs(lc, norm(arg)) if isinstance(arg, ast.Name) else []
            okf = any(isinstance(x, ast.Assign) and norm(x.value) == "f.read()" for x in multi)
            # the file's text read in one expression: Path(<config path>).read_text() / open(<config path>).read()
            ta_ = norm(arg)
            pth_ = [norm(x.args[0]) for x in walk_own(lc.node) if isinstance(x, ast.Call) and norm(x.func) in ("os.path.isfile", "os.path.exists") and x.args]
            if not okf and pth_ and ta_ in (f"Path({pth_[0]}).read_text()", f"pathlib.Path({pth_[0]}).read_text()", f"open({pth_[0]}).read()", f"Path({pth_[0]}).read_text(encoding='utf-8')"):
                okf = True
            rep.check(okf, "OVERLAY", lc.short, "user document", "parsed from the file's content", f"the user document is parsed from `{norm(arg)}`, which is not the file's content", lc.loc(d))


def _value_calls(s, name):
    return []


def first_run(prog, rep):
    rep.rule("FIRST-RUN", "on the not-exists branch the file written is _comment_out_toml(default_config) and the user document is empty; _comment_out_toml prefixes '#' to every line that is non-blank and does not start with '[' and joins with newlines")
    lc = prog.func("load_config_toml")
    writes = [n for n in walk_own(lc.node) if isinstance(n, ast.Call) and isinstance(n.func, ast.Attribute) and n.func.attr == "write"]
    from ..trace import deep as _deepw

    ok = len(writes) == 1 and len(writes[0].args) == 1 and norm(_deepw(writes[0].args[0], lc)) == f"_comment_out_toml({lc.params[1]})"
    rep.check(ok, "FIRST-RUN", lc.short, "first-run file content", "_comment_out_toml(default_config)", f"the first-run file is written as `{norm(writes[0].args[0]) if writes and writes[0].args else '?'}`: on the next load its live keys would override (or duplicate) the defaults", lc.loc())
    fi = prog.func("_comment_out_toml")
    ok, why = _comment_rule(prog, fi)
    rep.check(ok, "FIRST-RUN", fi.short, "comment-out rule", "'#' + line for non-blank non-header lines", why, fi.loc())


def _comment_rule(prog, fi):
    """-> (ok, why).  The result is "\n".join of one entry per line of s.split("\n") (comprehension or append loop); for every
    path that produces an entry: '#' + line exactly on the paths that know the line is non-blank and not a table header,
    the line itself on every other path."""
    from ..affine import Env
    from ..paths import PathSummary, _expand_test, summarize
    from ..trace import resolve

    s = fi.params[0]
    rets = [n for n in walk_own(fi.node) if isinstance(n, ast.Return)]
    if len(rets) != 1 or not (isinstance(rets[0].value, ast.Call) and norm(rets[0].value.func) == "'\\n'.join" and len(rets[0].value.args) == 1):
        return False, "the result is not the lines joined with newlines"
    coll = rets[0].value.args[0]
    env = Env(fi, prog, inline_locals=False)
    outcomes = []  # (opaque conditions, literals, produced expression text)
    if isinstance(coll, (ast.ListComp, ast.GeneratorExp)) and len(coll.generators) == 1:
        g = coll.generators[0]
        if norm(g.iter) not in (f"{s}.split('\\n')",) or g.ifs:
            return False, f"lines come from `{norm(g.iter)}` (filtered: {bool(g.ifs)}), not from every line of the text"
        ln = norm(g.target)

        def expand(e, conds):
            if isinstance(e, ast.IfExp):
                t = e.test
                if isinstance(t, ast.BoolOp) and isinstance(t.op, ast.And) and len(t.values) >= 2:
                    # X if (A and B) else Y  ==  (X if B else Y) if A else Y
                    rest = t.values[1] if len(t.values) == 2 else ast.BoolOp(op=ast.And(), values=t.values[1:])
                    e = ast.IfExp(test=t.values[0], body=ast.IfExp(test=rest, body=e.body, orelse=e.orelse), orelse=e.orelse)
                elif isinstance(t, ast.BoolOp) and isinstance(t.op, ast.Or) and len(t.values) >= 2:
                    # X if (A or B) else Y  ==  X if A else (X if B else Y)
                    rest = t.values[1] if len(t.values) == 2 else ast.BoolOp(op=ast.Or(), values=t.values[1:])
                    e = ast.IfExp(test=t.values[0], body=e.body, orelse=ast.IfExp(test=rest, body=e.body, orelse=e.orelse))
                elif isinstance(t, ast.UnaryOp) and isinstance(t.op, ast.Not) and isinstance(t.operand, ast.BoolOp):
                    e = ast.IfExp(test=t.operand, body=e.orelse, orelse=e.body)
                    return expand(e, conds)
                for pol, br in ((True, e.body), (False, e.orelse)):
                    ps = PathSummary()
                    _expand_test(e.test, pol, fi, env, ps, ps.state)
                    expand(br, conds | ps.opaque)
            else:
                outcomes.append((conds, set(), norm(e)))

        expand(coll.elt, set())
    elif isinstance(coll, ast.Name):
        loops = [l for l in walk_own(fi.node) if isinstance(l, ast.For) and norm(l.iter) == f"{s}.split('\\n')"]
        init = resolve(coll, fi)
        if len(loops) != 1 or init is coll or norm(init) not in ("[]", "list()"):
            return False, "lines are not collected by one loop over every line of the text"
        lp = loops[0]
        ln = norm(lp.target)
        if any(isinstance(x, (ast.Break, ast.Return)) for x in ast.walk(lp)):
            return False, "the line loop can stop early"
        sums, _ = summarize(fi=None, body=lp.body, env=env)
        for sm in sums:
            apps = [c for c in sm.calls if norm(c.func) == f"{coll.id}.append" and len(c.args) == 1]
            if len(apps) != 1 or len(sm.calls) != 1:
                return False, f"a path through the line loop appends {len(apps)} entries for one line (a line is dropped or duplicated)"
            produced = apps[0].args[0]
            hops = 0
            while isinstance(produced, ast.Name) and hops < 4:
                # a local set on this very path (e.g. the result of an expanded per-line helper)
                d = [x for x in sm.stmts if isinstance(x, ast.Assign) and len(x.targets) == 1 and norm(x.targets[0]) == produced.id]
                if not d:
                    break
                produced, hops = d[-1].value, hops + 1
            outcomes.append((set(sm.opaque), set(sm.lits), norm(produced)))
    else:
        return False, "unrecognised way of collecting the lines"
    nonblank, header = (f"{ln}.strip()", True), (f"{ln}.strip().startswith('[')", True)
    n_comment = 0
    for conds, lits, out in outcomes:
        if lits:
            return False, f"the line rule depends on {sorted(map(repr, lits))}"
        key_line = nonblank in conds and (header[0], False) in conds
        not_key = (nonblank[0], False) in conds or header in conds
        extra = {c for c in conds if c[0] not in (nonblank[0], header[0])}
        if out == f"'#' + {ln}":
            n_comment += 1
            if not key_line or extra:
                return False, f"a line is commented out under {sorted(conds)}, not exactly for non-blank lines that are not table headers"
        elif out == ln:
            if not not_key:
                return False, f"a line is kept as it is under {sorted(conds)}: every non-blank line that is not a table header must be commented out"
        else:
            return False, f"a line becomes `{out}`"
    if not n_comment:
        return False, "no line is ever commented out"
    return True, ""


def check(prog, rep):
    rep.level = "proof"
    rep.explanation = (
        "'Never alters an existing user file' decided on the CFG of load_config_toml: every file-writing construct is reachable only through the "
        "false edge of the existence test on the same, never re-bound, path, and no reachable callee writes files. The overlay law of _merge is "
        "decided path by path on its loop body (absent key copied, both tables recursed in order, leaf overridden or left when equal, nothing "
        "deleted, first argument returned) together with the argument order at its call site; the first-run file is the commented-out defaults."
    )
    rep.trusted_base = ["tomlkit.parse returns dict-like containers", "os.path.isfile / open semantics"]
    rep.not_decided = ["TOML semantics of multi-line values (the property restricts to one-line values)", "tomlkit container behaviour"]
    never_alters(prog, rep)
    config_path(prog, rep)
    overlay(prog, rep)
    first_run(prog, rep)
    # nothing on the way is memoised on a key that does not determine the answer
    from ..rules_own import memo_rule

    memo_rule(prog, rep, rule="MEMO")


VARIANTS = [
    ("B empty user tables are not descended into", "aw_core/config.py", "            if isinstance(a[key], dict) and isinstance(b[key], dict):", "            if b[key] and isinstance(a[key], dict) and isinstance(b[key], dict):", "OVERLAY"),
    ("B user integers for float defaults are converted with float()", "aw_core/config.py", "            else:\n                a[key] = b[key]\n        else:", "            elif isinstance(a[key], float) and isinstance(b[key], int):\n                a[key] = float(b[key])\n            else:\n                a[key] = b[key]\n        else:", "OVERLAY"),
    ("B arrays present in both documents are merged position by position", "aw_core/config.py", "            elif a[key] == b[key]:\n                pass  # same leaf value\n", "            elif isinstance(a[key], list) and isinstance(b[key], list):\n                for i, item in enumerate(b[key]):\n                    if i < len(a[key]):\n                        a[key][i] = item\n                    else:\n                        a[key].append(item)\n            elif a[key] == b[key]:\n                pass  # same leaf value\n", "OVERLAY"),
    ("B write before the existence test", C, "    # Override defaults from existing config file\n    if os.path.isfile(config_file_path):\n        with open(config_file_path) as f:\n            config = f.read()\n        config_toml = tomlkit.parse(config)\n    else:", "    if not default_config_toml:\n        with open(config_file_path, \"w\") as f:\n            f.write(default_config)\n    if os.path.isfile(config_file_path):\n        with open(config_file_path) as f:\n            config = f.read()\n        config_toml = tomlkit.parse(config)\n    else:", "NO-CLOBBER"),
    ("B rewrites the user's file after loading", C, "    config = _merge(default_config_toml, config_toml)\n", "    config = _merge(default_config_toml, config_toml)\n    save_config_toml(appname, tomlkit.dumps(config))\n", "NO-CLOBBER"),
    ("B file opened r+ on the exists branch", C, "        with open(config_file_path) as f:\n            config = f.read()\n        config_toml", "        with open(config_file_path, \"r+\") as f:\n            config = f.read()\n        config_toml", "NO-CLOBBER"),
    ("B merge arguments swapped", C, "    config = _merge(default_config_toml, config_toml)", "    config = _merge(config_toml, default_config_toml)", "OVERLAY"),
    ("B no recursion", C, "                _merge(a[key], b[key], path + [str(key)])", "                a[key] = b[key]", "OVERLAY"),
    ("B recursion swapped", C, "                _merge(a[key], b[key], path + [str(key)])", "                _merge(b[key], a[key], path + [str(key)])", "OVERLAY"),
    ("B user-only keys dropped", C, "        else:\n            a[key] = b[key]\n    return a", "        else:\n            pass\n    return a", "OVERLAY"),
    ("B defaults win", C, "            else:\n                a[key] = b[key]\n        else:", "            else:\n                pass\n        else:", "OVERLAY"),
    ("B default key popped", C, "            elif a[key] == b[key]:\n                pass  # same leaf value", "            elif a[key] == b[key]:\n                a.pop(key)", "OVERLAY"),
    ("B first-run file is the live defaults", C, "            f.write(_comment_out_toml(default_config))", "            f.write(default_config)", "FIRST-RUN"),
    ("B headers commented out too", C, 'if line.strip() and not line.strip().startswith("[") else line', "if line.strip() else line", "FIRST-RUN"),
    ("B falsy user values skipped", C, "    for key in b:\n        if key in a:", "    for key in b:\n        if not b[key]:\n            continue\n        if key in a:", "OVERLAY"),
    ("B config path through Path.with_suffix", C, '    config_file_path = os.path.join(config_dir, f"{appname}.toml")\n\n    # Run early', '    config_file_path = str(__import__("pathlib").Path(config_dir, appname).with_suffix(".toml"))\n\n    # Run early', "PATH"),
    ("OK config path by concatenation", C, '    config_file_path = os.path.join(config_dir, f"{appname}.toml")\n\n    # Run early', '    config_file_path = os.path.join(config_dir, appname + ".toml")\n\n    # Run early', "ok"),
    ("OK exists instead of isfile", C, "    if os.path.isfile(config_file_path):", "    if os.path.exists(config_file_path):", "ok"),
    ("OK inverted test", C, "    if os.path.isfile(config_file_path):\n        with open(config_file_path) as f:\n            config = f.read()\n        config_toml = tomlkit.parse(config)\n    else:\n        # If file doesn't exist, write with commented-out default config\n        with open(config_file_path, \"w\") as f:\n            f.write(_comment_out_toml(default_config))\n        config_toml = dict()\n", "    if not os.path.isfile(config_file_path):\n        with open(config_file_path, \"w\") as f:\n            f.write(_comment_out_toml(default_config))\n        config_toml = dict()\n    else:\n        with open(config_file_path) as f:\n            config = f.read()\n        config_toml = tomlkit.parse(config)\n", "ok"),
    ("OK equal-leaf branch removed", C, "            elif a[key] == b[key]:\n                pass  # same leaf value\n", "", "ok"),
]
