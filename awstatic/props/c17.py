"""C17 — any query text parses or is rejected with a query error, and terminates."""
import ast

from ..absint import F, TOP, Interp
from ..cfg import cfg_of
from ..model import norm, parent, walk_own, walk_with_nested_exprs
from ..sqlmodel import local_defs

Q2 = "aw_query/query2.py"
QF = "aw_query/functions.py"
SCOPE_FUNCS = ("_verify_bucket_exists", "_verify_variable_is_type", "q2_function.h.g", "q2_typecheck.g", "q2_find_bucket", "q2_query_bucket", "q2_query_bucket_eventcount")


def scope(prog):
    """query2.py entirely, plus the wrappers / verifiers / bucket-access functions of functions.py, plus whatever the package
    itself defines in front of them (aw_query/__init__.py: what `from aw_query import query` runs)"""
    out = [f for f in prog.funcs.values() if f.mod.name in ("aw_query.query2", "aw_query")]
    for s in SCOPE_FUNCS:
        out.append(prog.func(s, "aw_query.functions"))
    return out


def query_errors(prog):
    mi = prog.module("aw_query.exceptions")
    ok = set()
    for c in mi.classes.values():
        names = [c.name] + [b.name for b in prog.bases(c)]
        if "QueryException" in names:
            ok.add(c.name)
    return ok


def explicit_raises(prog, rep):
    rep.rule("RAISE-CLASS", "every `raise` in the query front-end (query2.py, the two decorator wrappers, the _verify_* helpers and the three bucket-access functions) raises a class whose MRO contains QueryException; the NotImplementedError of the abstract QToken methods is unreachable because every class in qtypes overrides all three; Datastore.__getitem__'s KeyError is unreachable because every datastore[x] in scope is dominated by _verify_bucket_exists(datastore, x) or x ranges over datastore.buckets()")
    good = query_errors(prog)
    # constructing (and printing) a query error cannot itself fail: the classes add nothing that computes on the message
    for c in prog.module("aw_query.exceptions").classes.values():
        if c.name in good:
            risky = [m for m in c.methods.values() if m.name in ("__init__", "__new__", "__str__", "__repr__") and any(isinstance(x, (ast.Call, ast.Subscript, ast.BinOp, ast.JoinedStr)) and not (isinstance(x, ast.Call) and norm(x.func).startswith("super")) for x in walk_with_nested_exprs(m.node))]
            rep.check(not risky, "RAISE-CLASS", c.name, "the error class computes nothing", "no method that formats / indexes", (f"{c.name}.{risky[0].name} computes on its arguments (e.g. message.format(**details)): raise sites that put user text into the message (an f-string containing a brace) make the constructor itself raise KeyError / IndexError / ValueError, which escapes instead of the query error" if risky else ""), risky[0].loc() if risky else f"{c.mod.relpath}:{c.node.lineno}")
    if len(good) < 4:
        rep.error(f"anchor vanished: query exception family is {sorted(good)}")
    n = 0
    for fi in scope(prog):
        rep.unit("functions", fi.qname)
        for r in walk_own(fi.node):
            if not isinstance(r, ast.Raise):
                continue
            n += 1
            if r.exc is None:
                h = parent(r)
                while h is not None and not isinstance(h, (ast.ExceptHandler, ast.FunctionDef, ast.AsyncFunctionDef)):
                    h = parent(h)
                if not isinstance(h, ast.ExceptHandler):
                    rep.undecided("RAISE-CLASS", fi.short, "bare raise", "re-raise outside an except handler", fi.loc(r))
                    continue
                caught = [norm(x) for x in (h.type.elts if isinstance(h.type, ast.Tuple) else [h.type])] if h.type is not None else ["BaseException"]
                foreign = [c for c in caught if c.split(".")[-1] not in good]
                rep.check(not foreign, "RAISE-CLASS", fi.short, f"re-raise in `except {', '.join(caught)}`", "only query errors are re-raised", f"a bare `raise` lets the caught {foreign} escape from the query front-end instead of translating it into a query error", fi.loc(r), expected=sorted(good), found=foreign)
                continue
            name = norm(r.exc.func) if isinstance(r.exc, ast.Call) else norm(r.exc)
            # an error built by a helper of the module: what every return of the helper constructs
            if name not in good and isinstance(r.exc, ast.Call) and isinstance(r.exc.func, ast.Name):
                hf_ = fi.mod.funcs.get(r.exc.func.id)
                if hf_ is not None:
                    rr_ = [x for x in walk_own(hf_.node) if isinstance(x, ast.Return)]
                    built = {norm(x.value.func) for x in rr_ if isinstance(x.value, ast.Call)}
                    if rr_ and len(built) == 1 and all(isinstance(x.value, ast.Call) for x in rr_) and next(iter(built)) in good:
                        name = next(iter(built))
            if name in good:
                rep.ok("RAISE-CLASS", fi.short, f"raise {name}", "query error", fi.loc(r))
            elif name == "NotImplementedError" and fi.cls is not None and fi.cls.name == "QToken":
                # unreachable iff every listed token class overrides the method
                mi = prog.module("aw_query.query2")
                qt = mi.consts.get("qtypes")
                listed = [prog.cls(norm(x)) for x in qt.elts] if isinstance(qt, (ast.List, ast.Tuple)) else []
                ok = bool(listed) and all(prog.method(c, fi.name) is not None and prog.method(c, fi.name).cls.name != "QToken" for c in listed)
                rep.check(ok, "RAISE-CLASS", fi.short, "raise NotImplementedError", "unreachable: every class in qtypes overrides it", f"{[c.name for c in listed if prog.method(c, fi.name) is None or prog.method(c, fi.name).cls.name == 'QToken']} does not override {fi.name}: NotImplementedError escapes from parsing", fi.loc(r))
            else:
                rep.violation("RAISE-CLASS", fi.short, f"raise {name}", f"`raise {name}` in the query front-end: {name} is not in the query-error family {sorted(good)}, so malformed input surfaces as a foreign exception type", fi.loc(r), expected=sorted(good), found=name)
    rep.floor("explicit raise statements in scope", n, 14)
    # datastore[x] dominated by the existence check
    for fi in scope(prog):
        g = None
        for s in walk_with_nested_exprs(fi.node):
            if isinstance(s, ast.Subscript) and isinstance(s.value, ast.Name) and s.value.id == "datastore" and isinstance(s.ctx, ast.Load):
                g = g or cfg_of(fi)
                key = norm(s.slice)
                node = g.node_of(s)
                checks = [g.node_of(c) for c in walk_own(fi.node) if isinstance(c, ast.Call) and norm(c.func) == "_verify_bucket_exists" and len(c.args) == 2 and norm(c.args[0]) == "datastore" and norm(c.args[1]) == key]
                ok = any(g.dominates(c, node) for c in checks)
                if not ok:
                    # iterating datastore.buckets()
                    p = s
                    while p is not None and not (isinstance(p, ast.For) and norm(p.target) == key and norm(p.iter) in ("datastore.buckets()", "datastore.buckets().keys()")):
                        p = parent(p)
                    ok = p is not None
                rep.check(ok, "RAISE-CLASS", fi.short, f"datastore[{key}]", "existence established first", f"`datastore[{key}]` is reached without _verify_bucket_exists(datastore, {key}): an unknown bucket surfaces as KeyError instead of a function error", fi.loc(s))
    vb = prog.func("_verify_bucket_exists")
    g = cfg_of(vb)
    t = norm(vb.node)
    ok = "if bucketname in datastore.buckets(): return else: raise QueryFunctionException(" in t or ("if bucketname not in datastore.buckets(): raise QueryFunctionException(" in t)
    if not ok:
        # by role: a raise of a function error (directly or through an error-building helper) on the branch of a membership test
        # in the bucket listing that says "not listed"
        for r_ in [x for x in walk_own(vb.node) if isinstance(x, ast.Raise) and x.exc is not None]:
            nm_ = norm(r_.exc.func) if isinstance(r_.exc, ast.Call) else norm(r_.exc)
            hf_ = vb.mod.funcs.get(nm_) if isinstance(r_.exc, ast.Call) and isinstance(r_.exc.func, ast.Name) else None
            if hf_ is not None:
                built_ = {norm(x.value.func) for x in walk_own(hf_.node) if isinstance(x, ast.Return) and isinstance(x.value, ast.Call)}
                nm_ = next(iter(built_)) if len(built_) == 1 else nm_
            p_, child_ = parent(r_), r_
            while p_ is not None and not isinstance(p_, ast.If):
                child_, p_ = p_, parent(p_)
            if p_ is None or nm_ != "QueryFunctionException":
                continue
            t_ = norm(p_.test)
            in_body = any(child_ is b_ or any(child_ is y for y in ast.walk(b_)) for b_ in p_.body)
            p0 = vb.params[1] if len(vb.params) > 1 else "bucketname"
            if (in_body and t_ in (f"{p0} not in datastore.buckets()", f"not {p0} in datastore.buckets()")) or (not in_body and t_ == f"{p0} in datastore.buckets()"):
                ok = True
    rep.check(ok, "RAISE-CLASS", vb.short, "unknown bucket -> function error", "", "_verify_bucket_exists does not raise a function error for an unknown bucket", vb.loc())


def implicit_raises(prog, rep):
    rep.rule("IMPLICIT-RAISE", "at every may-raise site of the front-end the abstract state excludes the failing case: constant-index subscripts only on strings proved non-empty (else IndexError), int(s) only on strings proved non-empty and all-decimal (else ValueError), .check/.parse only on a variable proved to hold a token class (else AttributeError on None); abstract interpretation over {STR, NE, EMPTY, RS, DEC, NOTNONE, NONE, CLS:x, GE1, ...} with disjunctive callee summaries, starting from query() with an arbitrary query string")
    mi = prog.module("aw_query.query2")
    qt = mi.consts.get("qtypes")
    if not isinstance(qt, (ast.List, ast.Tuple)):
        rep.error("anchor vanished: qtypes is not a literal list")
        return None
    classes = [prog.cls(norm(x)) for x in qt.elts]
    it = Interp(prog, classes)
    q = prog.func("query", "aw_query.query2")
    res = it.call(q, [TOP, F("STR", "NOTNONE"), TOP, TOP, TOP])
    for key, s in sorted(it.safe.items()):
        if key[2] == "Spacing":
            continue
        rep.ok("IMPLICIT-RAISE", s.fi.short, f"{key[1]} ({key[2]})", f"state has {sorted(s.have & (s.need | {'RS', 'DEC', 'NE'}))}; needs {sorted(s.need)}", s.fi.loc(s.node))
    for key, s in sorted(it.unsafe.items()):
        if key[2] == "Spacing":
            continue
        missing = sorted(s.need - s.have)
        hint = {
            "IndexError": "the string can be empty here (e.g. blank text between separators, or text that strip() empties after the emptiness test)",
            "ValueError": "the token can contain characters int() rejects (str.isdigit admits non-decimal digits such as '²')" if "DEC" in missing else "the token can be empty",
            "AttributeError": "the token class can be None here (blank argument)",
        }[key[2]]
        # the facts at this site come through the callers named in the context: if one of them works through a class the
        # analysis could not take apart, the missing fact may simply not have been carried across it
        opaque_ctx = None
        for part in [x.strip() for x in (s.ctx or "").split(">") if x.strip()]:
            short = part.split(".", 1)[1] if part.startswith("query2.") or part.startswith("functions.") else part
            opaque_ctx = opaque_ctx or rep._opaque_structure(short)
        if opaque_ctx:
            rep.undecided("IMPLICIT-RAISE", s.fi.short, f"{key[1]} ({key[2]})", f"[not decided: {opaque_ctx}] would-be finding: `{key[1]}` may raise {key[2]} (missing facts {missing}; reached via {s.ctx})", s.fi.loc(s.node))
            continue
        rep.violation("IMPLICIT-RAISE", s.fi.short, f"{key[1]} ({key[2]})", f"`{key[1]}` may raise {key[2]}: the analysis cannot exclude the failing case (missing facts {missing}; known {sorted(s.have)}; reached via {s.ctx}): {hint}; the exception is not a query error", s.fi.loc(s.node), expected=sorted(s.need), found=sorted(s.have))
    rep.floor("may-raise sites analysed", len(it.safe) + len(it.unsafe), 9)
    for x in sorted(res.raises):
        rep.unit("exceptions_raised_explicitly", x)
    # shapes of scanner / _parse_token results (tuple unpacking never fails)
    pt = prog.func("_parse_token")
    bad = [norm(r.value) for r in walk_own(pt.node) if isinstance(r, ast.Return) and not (isinstance(r.value, ast.Tuple) and len(r.value.elts) == 2 and isinstance(r.value.elts[0], ast.Tuple) and len(r.value.elts[0].elts) == 2)]
    rep.check(not bad, "IMPLICIT-RAISE", pt.short, "result shape", "((class, token), remainder) on every return", f"_parse_token returns {bad}: the callers' tuple unpacking raises ValueError/TypeError", pt.loc())
    for c in classes:
        fi = prog.method(c, "check")
        if fi is None:
            continue
        bad = [norm(r.value) for r in walk_own(fi.node) if isinstance(r, ast.Return) and not (isinstance(r.value, ast.Tuple) and len(r.value.elts) == 2)]
        rep.check(not bad, "IMPLICIT-RAISE", fi.short, "result shape", "(token, remainder) on every return", f"{fi.short} returns {bad}", fi.loc())
    return it


SAFE_METHODS = {
    # total on the str / list / dict / logger receivers the front-end uses them on
    "append", "extend", "debug", "info", "warning", "error", "find", "rfind", "count", "isalpha", "isdecimal", "isdigit", "isalnum", "isspace",
    "isidentifier", "isoformat", "items", "keys", "values", "get", "replace", "split", "rsplit", "splitlines", "strip", "lstrip", "rstrip", "startswith", "endswith",
    "lower", "upper", "casefold", "title", "join", "format", "copy", "partition", "rpartition", "removeprefix", "removesuffix", "setdefault", "update",
    "check", "parse", "interpret",  # token-class dispatch: analysed by the abstract interpreter
    "buckets", "parameters",
}
SAFE_NAMES = {"enumerate", "len", "isinstance", "issubclass", "type", "zip", "range", "sorted", "list", "dict", "tuple", "set", "frozenset", "str", "repr", "bool", "any", "all", "reversed", "print", "iter", "id", "abs", "hasattr", "callable", "int", "f", "signature", "wraps", "takewhile", "super"}
SAFE_QUALIFIED = {"iso8601.parse_date", "logging.getLogger", "itertools.takewhile", "re.compile", "re.escape", "str.isdecimal", "str.isalpha", "str.isdigit",
                  # clocks and counters: no argument, nothing to be malformed
                  "time.perf_counter", "time.monotonic", "time.time", "time.process_time", "time.perf_counter_ns", "time.monotonic_ns", "time.time_ns", "datetime.now", "datetime.utcnow", "datetime.datetime.now", "itertools.count"}


def external_calls(prog, rep):
    """a call that leaves the analysed code must be known not to raise on the values the front-end gives it"""
    from ..model import ClassInfo, FuncInfo

    good = query_errors(prog)
    n = 0
    for fi in scope(prog):
        for c in walk_with_nested_exprs(fi.node):
            if not isinstance(c, ast.Call) or prog.resolve_call(c, fi):
                continue
            f = c.func
            name = norm(f)
            ok = False
            if isinstance(f, ast.Name):
                r = prog.lookup(fi, f.id)
                ok = isinstance(r, (FuncInfo, ClassInfo)) or f.id in SAFE_NAMES or f.id in good or f.id in fi.params or prog.is_registry_value(f, fi)
                # the function a decorator wraps: a parameter of an enclosing function, whatever it is called
                o_ = fi.outer
                while not ok and o_ is not None:
                    ok = f.id in o_.params
                    o_ = o_.outer
            elif isinstance(f, ast.Attribute):
                root = f.value
                while isinstance(root, ast.Attribute):
                    root = root.value
                imp = fi.mod.imports.get(root.id) if isinstance(root, ast.Name) else None
                is_module = imp is not None and (imp[1] is None or imp[1][:1].islower() and imp[0] in ("itertools", "re", "codecs", "json", "os", "sys", "math", "functools", "operator", "collections", "datetime", "typing", "iso8601", "logging"))
                repo_object = imp is not None and imp[1] is not None and imp[0].split(".")[0] in ("aw_query", "aw_core", "aw_transform", "aw_datastore")
                if imp is not None and not repo_object and not (root.id in ("logger",)):
                    ok = name in SAFE_QUALIFIED or name.split(".")[0] in ("logger", "logging")
                else:
                    ok = f.attr in SAFE_METHODS
            elif isinstance(f, ast.Subscript):
                ok = True  # functions[name](...): the registry call, covered by KEY-GUARD
            n += 1
            if ok:
                continue
            # inside a try that turns everything into a query error?
            p_, child, covered = parent(c), c, False
            while p_ is not None and p_ is not fi.node:
                if isinstance(p_, ast.Try) and any(child is x or any(child is y for y in ast.walk(x)) for x in p_.body):
                    for h in p_.handlers:
                        broad = h.type is None or norm(h.type) in ("Exception", "BaseException")
                        last = h.body[-1] if h.body else None
                        if broad and isinstance(last, ast.Raise) and last.exc is not None and norm(last.exc.func if isinstance(last.exc, ast.Call) else last.exc) in good:
                            covered = True
                child, p_ = p_, parent(p_)
            rep.check(covered, "IMPLICIT-RAISE", fi.short, f"call {name}(...)", "known not to raise / wrapped into a query error", f"`{norm(c)[:70]}` leaves the analysed code: nothing is known about the exceptions `{name}` raises on malformed input (e.g. UnicodeDecodeError, ValueError), and no enclosing handler turns them into a query error", fi.loc(c))
    rep.floor("external call sites classified", n, 40)


def wrapper_handlers(prog, rep):
    """the registry / typecheck wrappers let the wrapped function's exceptions through as they are"""
    rep.rule("WRAP-RAISE", "the wrappers around the built-ins (registry wrapper, typecheck wrapper) do not catch TypeError or anything broader around the call of the wrapped function: QFunction.interpret tells a wrong number of arguments by the TypeError of that very call and reports it as an interpret error; a wrapper that turns it into another query error first changes the error class the property names")
    for short in ("q2_function.h.g", "q2_typecheck.g"):
        fi = prog.func(short, "aw_query.functions")
        wrapped = set()
        o_ = fi.outer
        while o_ is not None:
            wrapped |= set(o_.params)
            o_ = o_.outer
        bad = None
        for t in [x for x in walk_own(fi.node) if isinstance(x, ast.Try)]:
            calls_wrapped = any(isinstance(c, ast.Call) and isinstance(c.func, ast.Name) and c.func.id in wrapped for b in t.body for c in ast.walk(b))
            if not calls_wrapped:
                continue
            for h in t.handlers:
                names = [norm(h.type)] if h.type is not None and not isinstance(h.type, ast.Tuple) else ([norm(e) for e in h.type.elts] if h.type is not None else ["<bare>"])
                broad = [x for x in names if x in ("TypeError", "Exception", "BaseException", "<bare>")]
                reraises = len(h.body) == 1 and isinstance(h.body[0], ast.Raise) and h.body[0].exc is None
                if broad and not reraises:
                    bad = bad or (h, broad)
        rep.check(bad is None, "WRAP-RAISE", fi.short, "handlers around the wrapped call", "none that catches TypeError / Exception", (f"`except {', '.join(bad[1])}` around the call of the wrapped function: the TypeError Python raises for a wrong number of arguments is turned into `{norm(bad[0].body[-1])[:60]}` before QFunction.interpret sees it, so `f(a, b)` with one argument too many is reported as a function error, not as the interpret error the property names" if bad else ""), fi.loc(bad[0]) if bad else fi.loc())


def one_shot_iterators(prog, rep):
    """a wrapper that is called once per query must not consume an iterator that was created once, when it was defined"""
    rep.rule("ONE-SHOT", "no inner function in scope iterates over a name of its enclosing function that is bound there to a one-shot iterator (generator expression, iter / zip / map / filter / enumerate / reversed object): it is exhausted by the first call, so the guards the loop implements (type and arity checks) silently stop running")
    n = 0
    for fi in scope(prog):
        if fi.outer is None:
            continue
        local = set(fi.params) | {x.id for x in ast.walk(fi.node) if isinstance(x, ast.Name) and isinstance(x.ctx, ast.Store)}
        for node in walk_with_nested_exprs(fi.node):
            its = []
            if isinstance(node, ast.For):
                its.append(node.iter)
            elif isinstance(node, (ast.ListComp, ast.GeneratorExp, ast.SetComp, ast.DictComp)):
                its += [g_.iter for g_ in node.generators]
            elif isinstance(node, ast.Call) and norm(node.func) in ("list", "tuple", "next", "sorted", "set", "any", "all", "sum", "dict") and node.args:
                its.append(node.args[0])
            for it in its:
                if not (isinstance(it, ast.Name) and it.id not in local):
                    continue
                outer = fi.outer
                while outer is not None:
                    defs = local_defs(outer, it.id)
                    if defs:
                        break
                    outer = outer.outer
                if outer is None:
                    continue
                n += 1
                for d in defs:
                    v = d.value if isinstance(d, (ast.Assign, ast.AnnAssign)) else None
                    one_shot = isinstance(v, ast.GeneratorExp) or (isinstance(v, ast.Call) and norm(v.func) in ("iter", "zip", "map", "filter", "enumerate", "reversed", "itertools.chain", "chain"))
                    rep.check(not one_shot, "ONE-SHOT", fi.short, f"iteration over `{it.id}`", "a re-iterable object", f"`{it.id}` is bound in {outer.short} to `{norm(v)[:60]}`, a one-shot iterator, and consumed inside {fi.short}, which runs once per call: after the first call the loop body (the per-argument checks) never runs again, so wrongly typed or missing arguments reach the built-in and foreign exceptions (AttributeError, TypeError) escape", fi.loc(it))
    rep.extra["closure_iterations_checked"] = n


def typed_arguments(prog, rep):
    """the typecheck wrapper only looks at parameters annotated with one of the types it knows: a built-in whose
    argument is annotated otherwise (List[Event], Sequence, nothing) receives whatever the query text evaluates to"""
    rep.rule("ARG-TYPED", "every built-in is wrapped by the typecheck decorator, and each of its required parameters is either one the registry wrapper injects (annotated Datastore / TNamespace) or annotated with exactly one of the types the typecheck wrapper verifies (read from its `annotation in [...]` test): any other annotation makes the wrapper skip the argument, and a value of the wrong type reaches the transform, where AttributeError / TypeError escape")
    tg = prog.func("q2_typecheck.g")
    checked = None
    for n in ast.walk(prog.func("q2_typecheck").node):  # the decorator and its wrapper: the test may be made at decoration time
        if isinstance(n, ast.Compare) and len(n.ops) == 1 and isinstance(n.ops[0], (ast.In, ast.NotIn)) and norm(n.left).endswith(".annotation"):
            coll = n.comparators[0]
            if isinstance(coll, ast.Name):
                coll = tg.mod.consts.get(coll.id, coll)
            if isinstance(coll, (ast.List, ast.Tuple, ast.Set)):
                checked = {norm(x) for x in coll.elts}
    if checked is None:
        rep.undecided("ARG-TYPED", "q2_typecheck.g", "checked annotation set", "no `<param>.annotation in [<types>]` test found in the typecheck wrapper", tg.loc())
        return
    injected = {"Datastore", "TNamespace"}
    n_f = 0
    for fi in prog.funcs.values():
        if not (fi.mod.name == "aw_query.functions" and fi.outer is None and any(d.startswith("q2_function") for d in fi.decorators)):
            continue
        n_f += 1
        ds = [d for d in fi.decorators]
        okd = "q2_typecheck" in ds and ds.index("q2_typecheck") > [i for i, d in enumerate(ds) if d.startswith("q2_function")][0]
        rep.check(okd, "ARG-TYPED", fi.short, "wrapped by the typecheck decorator", "@q2_function(...) over @q2_typecheck", f"{fi.short} is registered without the typecheck wrapper (decorators: {ds}): none of its arguments is verified", fi.loc())
        a = fi.node.args
        pos = a.posonlyargs + a.args
        ndef = len(a.defaults)
        for i, p in enumerate(pos):
            if i >= len(pos) - ndef:
                continue  # optional: not checked by design (documented FIXME), its default stands in
            ann = norm(p.annotation) if p.annotation is not None else None
            if ann in injected:
                continue
            rep.check(ann in checked, "ARG-TYPED", fi.short, f"parameter {p.arg}: {ann}", f"one of {sorted(checked)}", f"parameter `{p.arg}` of built-in {fi.short} is annotated `{ann}`, which the typecheck wrapper does not recognise (it verifies only {sorted(checked)}): the argument is passed through unverified, so e.g. a string or number where a list of events is expected reaches the transform and a foreign exception (AttributeError / TypeError) escapes the query", fi.loc(p))
    rep.floor("registered built-ins", n_f, 18)
    # an optional parameter is not verified by the wrapper (documented FIXME): the built-in may only test it for truth or
    # compare it -- an attribute / method / item access or arithmetic on it fails for a value of another type
    for fi in prog.funcs.values():
        if not (fi.mod.name == "aw_query.functions" and fi.outer is None and any(d.startswith("q2_function") for d in fi.decorators)):
            continue
        a = fi.node.args
        pos = a.posonlyargs + a.args
        opt = {p.arg for p in pos[len(pos) - len(a.defaults):]} | {p.arg for p in a.kwonlyargs}
        opt = {p for p in opt if fi.annotations.get(p) not in injected}
        for nm in [x for x in walk_with_nested_exprs(fi.node) if isinstance(x, ast.Name) and x.id in opt and isinstance(x.ctx, ast.Load)]:
            par = parent(nm)
            risky = (isinstance(par, (ast.Attribute, ast.Subscript)) and par.value is nm) or isinstance(par, (ast.BinOp,)) or (isinstance(par, ast.UnaryOp) and not isinstance(par.op, ast.Not))
            if not risky:
                continue
            # ... unless the enclosing try turns the failure into a query error
            t = par
            guarded = False
            while t is not None and t is not fi.node:
                if isinstance(t, ast.Try) and any(h.type is None or any(k in norm(h.type) for k in ("AttributeError", "TypeError", "Exception")) for h in t.handlers) and any(nm is y for b in t.body for y in ast.walk(b)):
                    guarded = True
                t = parent(t)
            rep.check(guarded, "ARG-TYPED", fi.short, f"use of optional parameter {nm.id}", "tested for truth / compared only", f"`{norm(par)[:60]}`: `{nm.id}` has a default, so the typecheck wrapper does not verify it; a query that passes a value of another type (e.g. a number) reaches this operation and AttributeError / TypeError escapes instead of a query error", fi.loc(nm))


def raise_kinds(prog, rep):
    """which member of the family: the property names it per kind of error"""
    rep.rule("RAISE-KIND", "malformed text is reported as a parse error (every raise in the scanners, the parse methods, _parse_token and parse()), an unknown variable / unknown function / wrong argument count as an interpret error (the interpret methods and the typecheck wrapper's arity branch), a wrong argument type or unknown bucket as a function error (_verify_variable_is_type, _verify_bucket_exists and the bucket-access built-ins)")
    n = 0
    for fi in scope(prog):
        want = None
        if fi.name in ("check", "parse") and fi.cls is not None or (fi.cls is None and fi.outer is None and fi.name in ("_parse_token", "parse") and fi.mod.name == "aw_query.query2"):
            want = "QueryParseException"
        elif fi.name == "interpret" and fi.cls is not None or fi.short == "q2_typecheck.g":
            want = "QueryInterpretException"
        elif fi.name.startswith("_verify_") or fi.name in ("q2_find_bucket", "q2_query_bucket", "q2_query_bucket_eventcount"):
            want = "QueryFunctionException"
        if want is None or (fi.cls is not None and fi.cls.name == "QToken"):
            continue
        for r in walk_own(fi.node):
            if isinstance(r, ast.Raise) and r.exc is not None:
                name = norm(r.exc.func) if isinstance(r.exc, ast.Call) else norm(r.exc)
                if name not in query_errors(prog):
                    continue  # RAISE-CLASS speaks about it
                n += 1
                rep.check(name == want, "RAISE-KIND", fi.short, f"raise {name}", want, f"{fi.short} reports its error as {name}; the property (and callers that tell the three kinds apart) expect {want} here", fi.loc(r), expected=want, found=name)
    rep.floor("classified raises", n, 14)


def bucket_guard(prog, rep):
    """_verify_bucket_exists is what keeps Datastore.__getitem__'s KeyError unreachable: it must ask the store"""
    from ..cfg import membership

    fi = prog.func("_verify_bucket_exists", "aw_query.functions")
    ds, bn = fi.params[0], fi.params[1]
    g = cfg_of(fi)
    reach = g.reach_filtered(g.entry, lambda u, v, lab: membership(lab, bn, f"{ds}.buckets()") is not True and membership(lab, bn, f"{ds}.buckets().keys()") is not True)
    rep.check(g.exit not in reach, "RAISE-CLASS", fi.short, "returns only for existing buckets", f"every normal return lies behind `{bn} in {ds}.buckets()`", f"_verify_bucket_exists can return normally without `{bn} in {ds}.buckets()` having been established (e.g. on the word of a cache such as bucket_instances, which is not told about deletions made elsewhere): the bucket access that follows raises KeyError or answers for a bucket that does not exist instead of raising a query error", fi.loc())


def guarded_lookups(prog, rep):
    rep.rule("KEY-GUARD", "every dict lookup namespace[k] / functions[k] in scope is dominated by the matching membership test (or k is one of NAME/STARTTIME/ENDTIME, which query() sets unconditionally before the first statement and nothing deletes); the typecheck wrapper indexes args[i] only under i < len(args); the registry call sits in a try whose TypeError handler raises an interpret error")
    for fi in scope(prog):
        g = None
        for s in walk_with_nested_exprs(fi.node):
            if isinstance(s, ast.Subscript) and isinstance(s.value, ast.Name) and s.value.id in ("namespace", "functions") and isinstance(s.ctx, ast.Load) and not isinstance(s.slice, ast.Slice):
                d, k = s.value.id, norm(s.slice)
                g = g or cfg_of(fi)
                node = g.node_of(s)
                if d == "namespace" and k in ("'STARTTIME'", "'ENDTIME'", "'NAME'"):
                    q = prog.func("query", "aw_query.query2")
                    sets = [n for n in q.node.body if isinstance(n, ast.Assign) and norm(n.targets[0]) == f"namespace[{k}]"]
                    loops = [n for n in q.node.body if isinstance(n, ast.For)]
                    ok = len(sets) == 1 and loops and q.node.body.index(sets[0]) < q.node.body.index(loops[0])
                    rep.check(bool(ok), "KEY-GUARD", fi.short, f"{d}[{k}]", "set unconditionally by query() before the statements run", f"namespace[{k}] is read but query() does not set it before the first statement", fi.loc(s))
                    continue

                def asserts_present(lab):
                    if not lab or lab[0] != "cond":
                        return False
                    t = norm(lab[1])
                    return (t == f"{k} in {d}" and lab[2] is True) or (t == f"{k} not in {d}" and lab[2] is False)

                # EAFP: the lookup sits in a try whose KeyError (or LookupError) handler ends in raising a query error
                good_ = query_errors(prog)
                p_, child, eafp = parent(s), s, False
                while p_ is not None and p_ is not fi.node:
                    if isinstance(p_, ast.Try) and any(child is x or any(child is y for y in ast.walk(x)) for x in p_.body):
                        for h in p_.handlers:
                            names_ = [norm(h.type)] if h.type is not None and not isinstance(h.type, ast.Tuple) else ([norm(e_) for e_ in h.type.elts] if h.type is not None else [])
                            last = h.body[-1] if h.body else None
                            if any(x in ("KeyError", "LookupError") for x in names_) and isinstance(last, ast.Raise) and last.exc is not None and norm(last.exc.func if isinstance(last.exc, ast.Call) else last.exc) in good_:
                                eafp = True
                    child, p_ = p_, parent(p_)
                if eafp:
                    rep.ok("KEY-GUARD", fi.short, f"{d}[{k}]", "inside try / except KeyError -> query error", fi.loc(s))
                    continue
                reach = g.reach_filtered(g.entry, lambda u, v, lab: not asserts_present(lab))
                rep.check(node not in reach, "KEY-GUARD", fi.short, f"{d}[{k}]", f"dominated by `{k} in {d}`", f"`{d}[{k}]` can be reached without `{k} in {d}`: an unknown {'variable' if d == 'namespace' else 'function'} surfaces as KeyError instead of an interpret error", fi.loc(s))
        for n in walk_with_nested_exprs(fi.node):
            if isinstance(n, ast.Delete) and any(norm(t).startswith("namespace[") for t in n.targets):
                rep.violation("KEY-GUARD", fi.short, norm(n), "a namespace key is deleted", fi.loc(n))
    # args[i]
    tg = prog.func("q2_typecheck.g")
    g = cfg_of(tg)
    sites = [s for s in walk_with_nested_exprs(tg.node) if isinstance(s, ast.Subscript) and norm(s.value) == "args" and isinstance(s.slice, ast.Name) and isinstance(s.ctx, ast.Load)]
    rep.floor("args[i] sites in the typecheck wrapper", len(sites), 1)
    for s in sites:
        i = s.slice.id

        def in_range(lab):
            if not lab or lab[0] != "cond":
                return False
            t = norm(lab[1])
            return (t in (f"{i} >= len(args)", f"len(args) <= {i}") and lab[2] is False) or (t in (f"{i} < len(args)", f"len(args) > {i}") and lab[2] is True)

        reach = g.reach_filtered(g.entry, lambda u, v, lab: not in_range(lab))
        rep.check(g.node_of(s) not in reach, "KEY-GUARD", tg.short, f"args[{i}]", f"only under {i} < len(args)", f"`args[{i}]` is indexed for a parameter the caller did not supply: too few arguments surface as IndexError, which nothing translates into an interpret error", tg.loc(s))
    # the out-of-range branch raises an interpret error
    rz = [n for n in walk_own(tg.node) if isinstance(n, ast.Raise)]
    rep.check(any(norm(r.exc.func if isinstance(r.exc, ast.Call) else r.exc) == "QueryInterpretException" for r in rz), "KEY-GUARD", tg.short, "too few arguments", "raise QueryInterpretException", "a missing positional argument is not reported as an interpret error", tg.loc())
    # registry call under try/except TypeError
    fi = prog.func("QFunction.interpret")
    calls = [c for c in prog.all_calls(fi) if prog.is_registry_value(c.func, fi)]
    ok = False
    why = f"{len(calls)} registry call sites"
    if len(calls) == 1:
        p = calls[0]
        while p is not None and not isinstance(p, ast.Try):
            p = parent(p)
        if p is None:
            why = "the registry call is not inside a try: a wrong argument count escapes as TypeError"
        else:
            hs = [h for h in p.handlers if h.type is not None and "TypeError" in norm(h.type)]
            ok = bool(hs) and any(isinstance(x, ast.Raise) and x.exc is not None and norm(x.exc.func if isinstance(x.exc, ast.Call) else x.exc) == "QueryInterpretException" for x in hs[0].body)
            why = "the TypeError handler does not raise an interpret error"
            # nothing else in the try body can raise TypeError for arity
            others = [c for st in p.body for c in ast.walk(st) if isinstance(c, ast.Call) and c is not calls[0]]
            ok = ok and not others
    rep.check(ok, "KEY-GUARD", fi.short, "arity errors translated", "functions[name](*args) under except TypeError -> QueryInterpretException", why, fi.loc())


def termination(prog, rep):
    rep.rule("PROGRESS", "every `while` in scope re-binds its loop string, on every non-raising path, through `(cls, tok), s = _parse_token(s, ...)` followed by a raise when cls is falsy / not the expected class (so the token is non-empty and the remainder a proper suffix: C11-PARTITION); every other re-binding of s in the body is non-lengthening (strip, suffix slice); recursion into _parse_token from a parse method only passes slices of its own argument that drop at least one character")
    n = 0
    for fi in scope(prog):
        for lp in walk_own(fi.node):
            if not isinstance(lp, ast.While):
                continue
            n += 1
            # loop variable
            callees = {id(c.func) for c in ast.walk(lp.test) if isinstance(c, ast.Call)}
            tv = [x.id for x in ast.walk(lp.test) if isinstance(x, ast.Name) and id(x) not in callees]
            if len(set(tv)) != 1:
                rep.undecided("PROGRESS", fi.short, f"while {norm(lp.test)}", "cannot identify the loop string", fi.loc(lp))
                continue
            s = tv[0]
            okp = False
            guard = False
            for i, st in enumerate(lp.body):
                if isinstance(st, ast.Assign) and isinstance(st.value, ast.Call) and norm(st.value.func) == "_parse_token" and st.value.args and norm(st.value.args[0]) == s and isinstance(st.targets[0], ast.Tuple) and len(st.targets[0].elts) == 2 and norm(st.targets[0].elts[1]) == s and isinstance(st.targets[0].elts[0], ast.Tuple):
                    cls_var = norm(st.targets[0].elts[0].elts[0])
                    okp = True
                    for later in lp.body[i + 1 :]:
                        if isinstance(later, ast.If) and norm(later.test) in (f"not {cls_var}", f"{cls_var} is None", f"{cls_var} != QString", f"{cls_var} is not QString") and any(isinstance(x, ast.Raise) for x in later.body):
                            guard = True
                            break
                        if any(isinstance(x, ast.Name) and x.id == s and isinstance(x.ctx, ast.Store) for x in ast.walk(later)) and not guard:
                            pass
                    break
            others = []
            for st in ast.walk(lp):
                if isinstance(st, ast.Assign) and len(st.targets) == 1 and norm(st.targets[0]) == s:
                    v = st.value
                    fine = (isinstance(v, ast.Call) and norm(v.func) in (f"{s}.strip", f"{s}.lstrip", f"{s}.rstrip", f"{s}.removeprefix", f"{s}.removesuffix")) or (isinstance(v, ast.Subscript) and norm(v.value) == s and isinstance(v.slice, ast.Slice) and v.slice.upper is None and v.slice.step is None)
                    if not fine and isinstance(v, ast.Name):
                        # a part of s.partition(sep) / s.rpartition(sep), unpacked in the loop body: a substring of s
                        for d in ast.walk(lp):
                            if isinstance(d, ast.Assign) and len(d.targets) == 1 and isinstance(d.targets[0], ast.Tuple) and len(d.targets[0].elts) == 3 and any(norm(t) == v.id for t in d.targets[0].elts) and isinstance(d.value, ast.Call) and norm(d.value.func) in (f"{s}.partition", f"{s}.rpartition"):
                                fine = len([x for x in ast.walk(lp) if isinstance(x, ast.Name) and x.id == v.id and isinstance(x.ctx, ast.Store)]) == 1
                    if not fine:
                        others.append(norm(st))
            skips = [x for x in lp.body if isinstance(x, ast.Continue)] + [x for x in ast.walk(lp) if isinstance(x, ast.Continue)]
            ok = okp and guard and not others and not skips
            why = []
            if not okp:
                why.append(f"no top-level `(cls, tok), {s} = _parse_token({s}, ...)` in the loop body")
            if okp and not guard:
                why.append("no raise when the scanned token class is falsy: a blank piece of text is consumed as an empty token and the loop makes no progress / dereferences None")
            if others:
                why.append(f"`{s}` is also re-bound by {others}")
            if skips:
                why.append("`continue` can skip the progress step")
            rep.check(ok, "PROGRESS", fi.short, f"while {norm(lp.test)}", f"`{s}` shrinks on every non-raising iteration", "; ".join(why), fi.loc(lp))
    rep.floor("while loops in scope", n, 3)
    # recursion arguments
    for cname in ("QFunction", "QDict", "QList"):
        fi = prog.func(f"{cname}.parse")
        p0 = fi.params[0]
        for st in walk_own(fi.node):
            if isinstance(st, ast.Assign) and len(st.targets) == 1 and isinstance(st.value, ast.Subscript) and norm(st.value.value) == p0 and isinstance(st.value.slice, ast.Slice):
                sl = st.value.slice
                drops = (sl.lower is not None and norm(sl.lower) not in ("0",)) or (sl.upper is not None)
                rep.check(drops, "PROGRESS", fi.short, f"{norm(st)}", "strict substring of the token", "the nested text handed to the recursive scan is not a strict substring of the token: unbounded recursion", fi.loc(st))


def check(prog, rep):
    rep.level = "proof"
    rep.explanation = (
        "Totality of the front-end over all query strings, decided without running it: (D1) every explicit raise in scope is a query error (class "
        "table from exceptions.py), with the two foreign raises shown unreachable; (D2) every may-raise site - constant-index subscript, int(), "
        "method call on a possibly-None token class - is proved safe by abstract interpretation from query() with an arbitrary string (string-shape "
        "domain with disjunctive callee summaries), dict lookups and args[i] are dominated by their guards, arity errors are translated; (N1) every "
        "while loop shrinks its string on every non-raising iteration and recursion descends on strict substrings."
    )
    rep.trusted_base = ["str.strip / slicing / find semantics as modelled by the abstract domain", "int(s) accepts every non-empty all-decimal string", "C11-PARTITION (remainder = input minus a non-empty token) for PROGRESS"]
    rep.not_decided = ["exceptions raised inside built-in bodies (bad regex, missing key in simplify_string, iso8601.ParseError in query_bucket_eventcount after a query re-binds STARTTIME): outside 'parsing or name/arity/type resolution'", "RecursionError on pathological nesting (resource)"]
    explicit_raises(prog, rep)
    raise_kinds(prog, rep)
    typed_arguments(prog, rep)
    bucket_guard(prog, rep)
    implicit_raises(prog, rep)
    wrapper_handlers(prog, rep)
    # every statement of the text is parsed and interpreted, every element of a list / dict / call is interpreted by its own
    # class: a statement that is skipped (a break once RETURN is set) or an element whose value is taken without interpreting it
    # (a variable's parse-time value) is text whose errors are never reported
    rep.rule("ALL-TEXT", "query() handles every statement of the program (no break / return inside the statement loop); list, dict and call elements are evaluated through their own interpret()")
    qf = prog.func("query", "aw_query.query2")
    for lp_ in [x for x in walk_own(qf.node) if isinstance(x, (ast.For, ast.While))]:
        early = [x for b_ in lp_.body for x in ast.walk(b_) if isinstance(x, (ast.Break, ast.Return))]
        rep.check(not early, "ALL-TEXT", qf.short, "statement loop runs to the end", "no break / return", (f"the statement loop can stop at line {early[0].lineno} before every statement was parsed: malformed text or unknown names after that point are accepted silently and a value comes back where the property demands a parse / interpret error" if early else ""), qf.loc(early[0]) if early else qf.loc(lp_))
    from .c11 import loops_rule

    try:
        loops_rule(prog, rep)
    except Exception as ex_:  # C11's own check reports its analysis errors; here the rule is an extra
        rep.undecided("ALL-TEXT", "aw_query.query2", "element evaluation", f"C11-LOOPS could not be evaluated on this tree ({type(ex_).__name__})", None)
    # expressions that raise a built-in error whenever they are evaluated (integer format code on a float, text + number)
    from ..rules_raise import certain_raises

    for f_ in [x for x in prog.funcs.values() if x.mod.name in ("aw_query.query2", "aw_query.functions")]:
        for n_, why in certain_raises(f_):
            rep.violation("IMPLICIT-RAISE", f_.short, f"{norm(n_)[:40]} (raises by construction)", f"{why}: a {'ValueError' if 'ValueError' in why else 'TypeError'} leaves the query engine instead of one of the query errors", f_.loc(n_))
    external_calls(prog, rep)
    one_shot_iterators(prog, rep)
    guarded_lookups(prog, rep)
    termination(prog, rep)
    rep.note("observation: q2_query_bucket_eventcount does not translate iso8601.ParseError (only reachable after a query re-binds STARTTIME/ENDTIME to a non-timestamp); q2_query_bucket does")
    # nothing on the way is memoised on a key that does not determine the answer
    from ..rules_own import memo_rule

    memo_rule(prog, rep, rule="MEMO")


VARIANTS = [
    ("B error text quotes the built-in's docstring unguarded", "aw_query/query2.py", "                f\"Tried to call function {self.name} with invalid amount of arguments\"\n", "                f\"Tried to call function {self.name} with invalid amount of arguments ({functions[self.name].__doc__.strip()})\"\n", "OPT-ATTR"),
    ("OK error text quotes the docstring when there is one", "aw_query/query2.py", "                f\"Tried to call function {self.name} with invalid amount of arguments\"\n", "                f\"Tried to call function {self.name} with invalid amount of arguments ({(functions[self.name].__doc__ or '').strip()})\"\n", "ok"),
    ("B find_bucket lower-cases its optional (unverified) hostname argument", QF, "                if bucket_metadata[\"hostname\"] == hostname:", "                if bucket_metadata[\"hostname\"].lower() == hostname.lower():", "ARG-TYPED"),
    ("B event-list parameter annotated List[Event] (typecheck skips it)", QF, "def q2_sort_by_duration(events: list) -> List[Event]:", "def q2_sort_by_duration(events: List[Event]) -> List[Event]:", "ARG-TYPED"),
    ("B built-in registered without the typecheck wrapper", QF, "@q2_function(sort_by_timestamp)\n@q2_typecheck\n", "@q2_function(sort_by_timestamp)\n", "ARG-TYPED"),
    ("B error text built from the class of a blank token", "aw_query/query2.py", "raise QueryParseException(\"Cannot assign to a non-variable\")", "raise QueryParseException(f\"Cannot assign to a {var_t.__name__}\")", "IMPLICIT-RAISE"),
    ("B strip after the emptiness test (original defect)", Q2, "    string = string.strip()\n    if len(string) == 0:\n        return (None, \"\"), string\n", "    if len(string) == 0:\n        return (None, \"\"), string\n    string = string.strip()\n", "IMPLICIT-RAISE"),
    ("B unguarded entries_str[0] after strip (original defect)", Q2, "            if not entries_str or entries_str[0] != \":\":", "            if entries_str[0] != \":\":", "IMPLICIT-RAISE"),
    ("B isdigit admits non-decimal digits (original defect)", Q2, "            if char.isdecimal():\n                token += char", "            if char.isdigit():\n                token += char", "IMPLICIT-RAISE"),
    ("B blank argument dereferences None", Q2, "            if not arg_t:\n                raise QueryParseException(\"Function expected an argument, got nothing\")\n", "", ["IMPLICIT-RAISE", "PROGRESS"]),
    ("B list separator test before emptiness is known", Q2, "            if len(ls) > 0 and entries_str[0] == \",\":", "            if entries_str[0] == \",\":", "IMPLICIT-RAISE"),
    ("B args[i] unguarded (original defect)", QF, "                if i >= len(args):\n                    raise QueryInterpretException(\n                        f\"Tried to call function {f.__name__} with invalid amount of arguments\"\n                    )\n", "", "KEY-GUARD"),
    ("B ValueError raised by a parser", Q2, "            raise QueryParseException(\"Failed to parse string\")", "            raise ValueError(\"Failed to parse string\")", "RAISE-CLASS"),
    ("B except TypeError removed", Q2, "        try:\n            result = functions[self.name](*call_args)  # type: ignore\n        except TypeError:\n            raise QueryInterpretException(\n                f\"Tried to call function {self.name} with invalid amount of arguments\"\n            ) from None\n", "        result = functions[self.name](*call_args)  # type: ignore\n", "KEY-GUARD"),
    ("B unknown function not checked", Q2, "        if self.name not in functions:\n            raise QueryInterpretException(\n                f\"Tried to call function '{self.name}' which doesn't exist\"\n            )\n", "", "KEY-GUARD"),
    ("B bucket existence not verified", QF, "    _verify_bucket_exists(datastore, bucketname)\n    starttime = iso8601.parse_date(namespace[\"STARTTIME\"])", "    starttime = iso8601.parse_date(namespace[\"STARTTIME\"])", "RAISE-CLASS"),
    ("B RETURN lookup unguarded", Q2, "    if \"RETURN\" not in namespace:\n        raise QueryParseException(\n            \"Query doesn't assign the RETURN variable, nothing to respond\"\n        )\n", "", "KEY-GUARD"),
    ("B dict value class not checked", Q2, "            if not val_t:\n                raise QueryParseException(\"Dict expected a value, got nothing\")\n", "", ["IMPLICIT-RAISE", "PROGRESS"]),
    ("B TypeError re-raised unless its message looks like an arity error", Q2, "        except TypeError:\n            raise QueryInterpretException(", "        except TypeError as e:\n            if \"positional arguments\" not in str(e):\n                raise\n            raise QueryInterpretException(", "RAISE-CLASS"),
    ("B existence check trusts the handle cache", QF, "    if bucketname in datastore.buckets():\n        return", "    if bucketname in datastore.bucket_instances:\n        return\n    if bucketname in datastore.buckets():\n        return", "RAISE-CLASS"),
    ("B string literals decoded with codecs.decode (UnicodeDecodeError escapes)", Q2, "        string = string[1:-1]\n        return QString(string)", "        string = string[1:-1]\n        import codecs\n        string = codecs.decode(string, \"unicode_escape\")\n        return QString(string)", "IMPLICIT-RAISE"),
    {"name": "B typecheck loop over an iterator created at decoration time", "edits": [(QF, "    sig = signature(f)\n\n    @wraps(f)\n    def g(*args, **kwargs):", "    sig = signature(f)\n    numbered = enumerate(sig.parameters)\n\n    @wraps(f)\n    def g(*args, **kwargs):"), (QF, "        for i, p in enumerate(sig.parameters):\n            param = sig.parameters[p]\n", "        for i, p in numbered:\n            param = sig.parameters[p]\n")], "expect": "ONE-SHOT"},
    ("B unknown function reported as a parse error", Q2, "            raise QueryInterpretException(\n                f\"Tried to call function '{self.name}' which doesn't exist\"", "            raise QueryParseException(\n                f\"Tried to call function '{self.name}' which doesn't exist\"", "RAISE-KIND"),
    ("OK len test spelled with not", Q2, "    if len(string) == 0:\n        return (None, \"\"), string\n", "    if not string:\n        return (None, \"\"), string\n", "ok"),
    ("OK guard order swapped", Q2, "            if not entries_str or entries_str[0] != \":\":", "            if len(entries_str) == 0 or entries_str[0] != \":\":", "ok"),
    ("OK range test flipped", QF, "                if i >= len(args):", "                if len(args) <= i:", "ok"),
]
