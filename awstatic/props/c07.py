"""C07 — heartbeat ingestion through the store equals heartbeat_reduce (aw-core's share)."""
import ast

from ..rules_wrap import wrapper_rules

from ..model import norm, walk_own
from ..rules_codec import codec_peewee, codec_sqlite
from ..rules_commit import check_no_rollback
from ..rules_read import last_rule, order_rule
from ..rules_store import forward_bucket, is_param_ref, scope_memory, scope_peewee, scope_sqlite

METHODS = {"get_events", "replace_last", "insert_one", "replace"}


def check(prog, rep):
    rep.level = "other"
    rep.explanation = (
        "The ingestion loop lives in aw-server; aw-core contributes the agreement between 'newest event' as read (get limit 1) and "
        "as rewritten (replace_last). Decided: LAST under the stream assumption (order key = start instant, unique for strictly "
        "increasing timestamps; an end-instant key ties), SCOPE of both sides, replace_last touches only instant/duration/data of "
        "the selected row, Bucket.get / Bucket.replace_last / Bucket.insert are pass-throughs. The merge rule itself is C08."
    )
    rep.trusted_base = ["SQL semantics of the modelled subset", "peewee builder translation", "C08 (merge rule) for the stream-level argument"]
    rep.not_decided = ["whole-stream equality with heartbeat_reduce (inductive argument over streams, given informally in DESIGN.md)"]
    last_rule(prog, rep, stream_assumption=True)
    order_rule(prog, rep, windowless=True)  # the ingestion loop reads without a window
    scope_sqlite(prog, rep, methods=METHODS)
    scope_peewee(prog, rep, methods=METHODS)
    scope_memory(prog, rep, methods=METHODS)
    forward_bucket(prog, rep)
    # the loop merges what it reads back: the value read must be the value written (encode/decode agreement of the SQL backends)
    codec_sqlite(prog, rep)
    codec_peewee(prog, rep)
    # an accepted heartbeat stays: nothing rolls the shared open transaction back
    check_no_rollback(prog, rep)
    # (how Bucket.get passes limit / window on is C03's subject: with any limit the newest event is still the first one returned)
    wrapper_rules(prog, rep, arg_skip=("Bucket.get",))
    # replace_last rewrites by id: ids are unique within the bucket (an id handed out twice makes the rewrite hit an
    # earlier event as well), and each Datastore / storage object has its own state
    from ..rules_store import idalloc_memory, idalloc_sql, instance_state, ddl_facts

    idalloc_memory(prog, rep)
    idalloc_sql(prog, rep)
    ddl_facts(prog, rep)
    instance_state(prog, rep)
    # the loop reads back what it stored and merges into it: the stored newest event is the store's own (a caller that keeps
    # updating one data dict between heartbeats must not alter the event already stored), and what is read is a copy
    from ..rules_own import own_rules

    own_rules(prog, rep, methods=["insert_one", "replace_last", "replace", "get_events", "get_event"])
    # the other side of the comparison: heartbeat_reduce is the left fold of the same merge function the loop calls
    from .c08 import fold_rule

    fold_rule(prog, rep)
    # the memory store merges on the Event objects themselves: their arithmetic is instant arithmetic only if Event keeps UTC, and
    # a merged duration is stored as given
    from .c13 import duration_dispatch, normalisation

    normalisation(prog, rep)
    duration_dispatch(prog, rep)
    rep.rule("PASS", "Bucket.replace_last / Bucket.insert hand the caller's event to the backend unchanged")
    for m, callee, idx, p in (("replace_last", "replace_last", 1, "event"), ("insert", "insert_one", 1, "events")):
        fi = prog.func(f"Bucket.{m}")
        cs = [c for c in prog.all_calls(fi) if isinstance(c.func, ast.Attribute) and c.func.attr == callee and norm(c.func.value) == "self.ds.storage_strategy"]
        ok = len(cs) == 1 and len(cs[0].args) > idx and is_param_ref(cs[0].args[idx], fi, p)
        rep.check(ok, "PASS", fi.short, f"{callee}(bucket, {p})", "caller's event forwarded", "the event handed to the backend is not the caller's", fi.loc())


SQ = "aw_datastore/storages/sqlite.py"
PW = "aw_datastore/storages/peewee.py"
ME = "aw_datastore/storages/memory.py"
DS = "aw_datastore/datastore.py"
VARIANTS = [
    ("B memory stores a shallow copy of the heartbeat", ME, "            event = copy.deepcopy(event)\n            if self.db[bucket]:", "            event = copy.copy(event)\n            if self.db[bucket]:", "OWN-IN"),
    ("B memory ids handed out as len(bucket) (reused after a delete)", "aw_datastore/storages/memory.py", "            if self.db[bucket]:\n                event.id = max(int(e.id or 0) for e in self.db[bucket]) + 1\n            else:\n                event.id = 0\n", "            event.id = len(self.db[bucket])\n", "IDALLOC"),
    ("B reduce skips heartbeats lying within the last event without asking the merge rule", "aw_transform/heartbeats.py", "        merged = heartbeat_merge(reduced[-1], heartbeat, pulsetime)\n", "        if reduced[-1].timestamp <= heartbeat.timestamp and heartbeat.timestamp + heartbeat.duration <= reduced[-1].timestamp + reduced[-1].duration:\n            continue\n        merged = heartbeat_merge(reduced[-1], heartbeat, pulsetime)\n", "FOLD"),
    ("B sqlite newest keyed on endtime (original defect)", SQ, "ORDER BY starttime DESC, id DESC LIMIT ?", "ORDER BY endtime DESC LIMIT ?", ["LAST", "LAST-KEY", "ORDER"]),
    ("B sqlite replace_last keyed on endtime", SQ, "                        ORDER BY starttime DESC, id DESC LIMIT 1)\"\"\"", "                        ORDER BY endtime DESC, id DESC LIMIT 1)\"\"\"", ["LAST", "LAST-KEY"]),
    ("B sqlite replace_last maps max(starttime) back without scope", SQ, "                        SELECT id FROM events\n                        WHERE bucketrow = (SELECT rowid FROM buckets WHERE id = ?)\n                        ORDER BY starttime DESC, id DESC LIMIT 1)\"\"\"", "                        SELECT id FROM events WHERE starttime =\n                            (SELECT max(starttime) FROM events WHERE bucketrow =\n                                (SELECT rowid FROM buckets WHERE id = ?)))\"\"\"", ["LAST", "SCOPE"]),
    ("B memory replace_last keyed on end instant via max", ME, "last = sorted(self.db[bucket_id], key=lambda e: e.timestamp)[-1]", "last = max(self.db[bucket_id], key=lambda e: e.timestamp + e.duration)", ["LAST", "LAST-KEY"]),
    ("B peewee newest by id", PW, "            .where(EventModel.bucket == self.bucket_keys[bucket_id])\n            .order_by(EventModel.timestamp.desc())\n            .get()", "            .where(EventModel.bucket == self.bucket_keys[bucket_id])\n            .order_by(EventModel.id.desc())\n            .get()", ["LAST", "LAST-KEY"]),
    ("B replace_last rewrites bucketrow", SQ, "                   SET starttime = ?, endtime = ?, datastr = ?\n                   WHERE id = (", "                   SET starttime = ?, endtime = ?, datastr = ?, bucketrow = bucketrow\n                   WHERE id = (", ["LAST-SET", "SCOPE"]),
    ("B Bucket.replace_last forwards a copy with rounded duration", DS, "        return self.ds.storage_strategy.replace_last(self.bucket_id, event)", "        return self.ds.storage_strategy.replace_last(self.bucket_id, Event(**event))", "PASS"),
    ("B sqlite replace_last drops the days of a merged duration", SQ, "    def replace_last(self, bucket_id, event):\n        starttime = event.timestamp.timestamp() * 1000000\n        endtime = starttime + (event.duration.total_seconds() * 1000000)", "    def replace_last(self, bucket_id, event):\n        starttime = event.timestamp.timestamp() * 1000000\n        endtime = starttime + (event.duration.seconds * 1000000 + event.duration.microseconds)", "CODEC"),
    ("B peewee read path rounds durations to milliseconds", PW, '            "duration": float(self.duration),', '            "duration": round(float(self.duration), 3),', "CODEC"),
    ("B sqlite insert_one truncates to whole microseconds", SQ, "        starttime = event.timestamp.timestamp() * 1000000\n        endtime = starttime + (event.duration.total_seconds() * 1000000)\n        datastr = json.dumps(event.data)\n        c.execute(", "        starttime = int(event.timestamp.timestamp() * 1000000)\n        endtime = starttime + int(event.duration.total_seconds() * 1000000)\n        datastr = json.dumps(event.data)\n        c.execute(", "CODEC"),
    ("OK for this property: Bucket.get ignores the limit (the newest event is still first; C03 reports it)", DS, "            self.bucket_id, limit, starttime, endtime\n        )", "            self.bucket_id, -1, starttime, endtime\n        )", "ok"),
    ("OK peewee order spelled with unary minus", PW, "            .where(EventModel.bucket == self.bucket_keys[bucket_id])\n            .order_by(EventModel.timestamp.desc())\n            .get()", "            .where(EventModel.bucket == self.bucket_keys[bucket_id])\n            .order_by(-EventModel.timestamp)\n            .get()", "ok"),
]
