"""C07 — heartbeat ingestion through the store equals heartbeat_reduce (aw-core's share)."""
import ast

from ..model import norm, walk_own
from ..rules_read import last_rule, order_rule
from ..rules_store import forward_bucket, is_param_ref, scope_memory, scope_peewee, scope_sqlite

METHODS = {"get_events", "replace_last", "insert_one", "replace"}


def check(prog, rep):
    rep.level = "other"
    rep.explanation = (
        "The ingestion loop lives in aw-server; aw-core contributes the agreement between 'newest event' as read (get limit 1) and "
        "as rewritten (replace_last). Decided: LAST under the stream assumption (order key = start instant, unique for strictly "
        "increasing timestamps; an end-instant key ties), SCOPE of both sides, replace_last touches only instant/duration/data of "
        "the selected row, Bucket.get / Bucket.replace_last / Bucket.insert are pass-throughs. The merge rule itself is C08."
    )
    rep.trusted_base = ["SQL semantics of the modelled subset", "peewee builder translation", "C08 (merge rule) for the stream-level argument"]
    rep.not_decided = ["whole-stream equality with heartbeat_reduce (inductive argument over streams, given informally in DESIGN.md)"]
    last_rule(prog, rep, stream_assumption=True)
    order_rule(prog, rep)
    scope_sqlite(prog, rep, methods=METHODS)
    scope_peewee(prog, rep, methods=METHODS)
    scope_memory(prog, rep, methods=METHODS)
    forward_bucket(prog, rep)
    rep.rule("PASS", "Bucket.replace_last / Bucket.insert hand the caller's event to the backend unchanged")
    for m, callee, idx, p in (("replace_last", "replace_last", 1, "event"), ("insert", "insert_one", 1, "events")):
        fi = prog.func(f"Bucket.{m}")
        cs = [c for c in prog.all_calls(fi) if isinstance(c.func, ast.Attribute) and c.func.attr == callee and norm(c.func.value) == "self.ds.storage_strategy"]
        ok = len(cs) == 1 and len(cs[0].args) > idx and is_param_ref(cs[0].args[idx], fi, p)
        rep.check(ok, "PASS", fi.short, f"{callee}(bucket, {p})", "caller's event forwarded", "the event handed to the backend is not the caller's", fi.loc())
