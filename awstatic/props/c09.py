"""C09 — interval intersection and union of event lists (decidable clauses)."""
import ast
import os

from ..affine import Env, Form, Lit, NonAffine, lin, literal
from ..model import norm, walk_own
from ..paths import summarize
from ..rules_own import purity_rule

F = "aw_transform/filter_period_intersect.py"


def provenance(prog, rep):
    rep.rule("PROV", "every element of filter_period_intersect's result is _replace_event_period(e, ip) with e drawn from the FIRST list and ip the intersection computed for that pair; _replace_event_period deep-copies its event and assigns exactly timestamp := period.start, duration := period.duration; _get_event_period(e) is Timeslot(e.timestamp, e.timestamp + e.duration)")
    fi = prog.func("filter_period_intersect")
    rets = [n for n in walk_own(fi.node) if isinstance(n, ast.Return)]
    ok = False
    why = "result is not a comprehension over _intersecting_eventpairs"
    if len(rets) == 1 and isinstance(rets[0].value, (ast.ListComp, ast.GeneratorExp)) and len(rets[0].value.generators) == 1:
        c = rets[0].value
        g = c.generators[0]
        it = g.iter
        if isinstance(it, ast.Call) and norm(it.func) == "_intersecting_eventpairs" and len(it.args) == 2 and ((isinstance(g.target, ast.Tuple) and len(g.target.elts) == 3) or isinstance(g.target, ast.Name)) and not g.ifs:
            a0, a1 = norm(it.args[0]), norm(it.args[1])
            # the two arguments derive from the two parameters, in order
            def derives(name, param):
                if name == param:
                    defs = [n for n in walk_own(fi.node) if isinstance(n, ast.Assign) and norm(n.targets[0]) == name]
                    return all(norm(d.value) in (f"sorted({param})", f"sorted({param}, key=lambda e: e.timestamp)", f"list({param})", f"{param}[:]") for d in defs)
                return False

            if isinstance(g.target, ast.Tuple):
                t0, t2 = norm(g.target.elts[0]), norm(g.target.elts[2])
            else:
                t0, t2 = f"{g.target.id}[0]", f"{g.target.id}[2]"
            elt = c.elt
            if derives(a0, fi.params[0]) and derives(a1, fi.params[1]):
                if isinstance(elt, ast.Call) and norm(elt.func) == "_replace_event_period" and [norm(x) for x in elt.args] == [t0, t2]:
                    ok = True
                else:
                    why = f"result element is `{norm(elt)}`: it must be the first list's event cut to the intersection"
            else:
                why = f"_intersecting_eventpairs is given ({a0}, {a1}), not (events, filterevents) in that order"
    rep.check(ok, "PROV", fi.short, "result elements", "_replace_event_period(e1, ip) for (e1, _, ip) in _intersecting_eventpairs(events, filterevents)", why, fi.loc())
    # the generator yields (e1, e2, ip) with ip the intersection of their periods
    gi = prog.func("_intersecting_eventpairs")
    ys = [n.value for n in ast.walk(gi.node) if isinstance(n, ast.Yield)]
    oky = len(ys) == 1 and isinstance(ys[0], ast.Tuple) and len(ys[0].elts) == 3
    if oky:
        e1, e2, ip = [norm(x) for x in ys[0].elts]
        from ..sqlmodel import single_def

        d1, d2 = single_def(gi, e1), single_def(gi, e2)
        dip = single_def(gi, ip)
        p1, p2 = gi.params[0], gi.params[1]
        oky = d1 is not None and d2 is not None and norm(d1).startswith(f"{p1}[") and norm(d2).startswith(f"{p2}[")
        if oky and dip is not None and isinstance(dip, ast.Call) and isinstance(dip.func, ast.Attribute) and dip.func.attr == "intersection":
            a, b = dip.func.value, dip.args[0]
            da, db = single_def(gi, norm(a)), single_def(gi, norm(b))
            oky = da is not None and db is not None and {norm(da), norm(db)} == {f"_get_event_period({e1})", f"_get_event_period({e2})"}
        else:
            oky = False
    rep.check(oky, "PROV", gi.short, "yielded triple", "(events1[i], events2[j], period(e1).intersection(period(e2)))", "the generator does not yield (event of list one, event of list two, intersection of their periods)", gi.loc())
    # _replace_event_period
    rp = prog.func("_replace_event_period")
    sums, _ = summarize(rp, env=Env(rp, prog, inline_locals=False))
    okr = len(sums) == 1
    if okr:
        s = sums[0]
        ev, per = rp.params
        copies = [n for n in walk_own(rp.node) if isinstance(n, ast.Assign) and norm(n.value) in (f"deepcopy({ev})", f"copy.deepcopy({ev})")]
        okr = len(copies) == 1
        if okr:
            c = norm(copies[0].targets[0])
            fw = {k: v for k, v in s.state.vals.items() if "." in k}
            okr = set(fw) == {f"{c}.timestamp", f"{c}.duration"} and fw[f"{c}.timestamp"] == Form.atom(f"{per}.start") and fw[f"{c}.duration"] == Form.atom(f"{per}.duration") and s.ret is not None and norm(s.ret) == c
    rep.check(okr, "PROV", rp.short, "copy and assign", "deepcopy; timestamp := period.start; duration := period.duration", "_replace_event_period does not (only) deep-copy the event and set its timestamp/duration from the period: data/id of the piece would not be the source event's", rp.loc())
    gp = prog.func("_get_event_period")
    try:
        e = ast.parse(f"_get_event_period({gp.params[0]})").body[0].value
        # evaluate through the function's own body
        sums, _ = summarize(gp, env=Env(gp, prog, inline_locals=False))
        okp = len(sums) == 1 and isinstance(sums[0].ret, ast.Call) and norm(sums[0].ret.func) == "Timeslot" and len(sums[0].ret.args) == 2
        if okp:
            from ..affine import lin_in

            a = lin_in(sums[0].ret.args[0], Env(gp, prog, inline_locals=False), sums[0].state)
            b = lin_in(sums[0].ret.args[1], Env(gp, prog, inline_locals=False), sums[0].state)
            p = gp.params[0]
            okp = a == Form.atom(f"{p}.timestamp") and b == Form.atom(f"{p}.timestamp") + Form.atom(f"{p}.duration")
    except Exception:
        okp = False
    rep.check(okp, "PROV", gp.short, "period", "Timeslot(e.timestamp, e.timestamp + e.duration)", "_get_event_period is not [timestamp, timestamp + duration]", gp.loc())


def sweep(prog, rep):
    rep.rule("SWEEP", "_intersecting_eventpairs: both lists are sorted by start before the loop; every path through the loop body advances at least one index; an index advances alone only on a path carrying end_k <= end_other or end_k <= start_other; a pair is yielded only where the intersection is truthy; both indices advance together only on the else of both disjointness tests")
    fi = prog.func("_intersecting_eventpairs")
    p1, p2 = fi.params
    loops = [n for n in fi.node.body if isinstance(n, ast.While)]
    if len(loops) != 1:
        rep.undecided("SWEEP", fi.short, "loop", f"{len(loops)} while loops", fi.loc())
        return
    lp = loops[0]
    # sorted before the loop (here, or by the only caller)
    pre = [norm(s) for s in fi.node.body if s.lineno < lp.lineno]
    sorted_here = all(any(t.startswith(f"{p}.sort(key=lambda") and t.endswith(".timestamp)") for t in pre) or f"{p}.sort()" in pre for p in (p1, p2))
    if not sorted_here:
        caller = prog.func("filter_period_intersect")
        ct = norm(caller.node)
        sorted_here = "events = sorted(events)" in ct and "filterevents = sorted(filterevents)" in ct
    rep.check(sorted_here, "SWEEP", fi.short, "sorted inputs", "both lists sorted by start before the sweep", "the sweep runs over lists that are not sorted by start: overlapping pairs are skipped", fi.loc())
    # loop guard
    gt = norm(lp.test)
    # indices
    idx = {}
    for n in walk_own(fi.node):
        if isinstance(n, ast.Assign) and isinstance(n.value, ast.Subscript) and isinstance(n.value.value, ast.Name) and n.value.value.id in (p1, p2) and isinstance(n.value.slice, ast.Name):
            idx[n.value.value.id] = (n.value.slice.id, norm(n.targets[0]))
    if set(idx) != {p1, p2}:
        rep.undecided("SWEEP", fi.short, "indices", "cannot identify the two index variables", fi.loc())
        return
    (i1, e1), (i2, e2) = idx[p1], idx[p2]
    okg = gt in (f"{i1} < len({p1}) and {i2} < len({p2})", f"{i2} < len({p2}) and {i1} < len({p1})")
    rep.check(okg, "SWEEP", fi.short, "loop guard", gt, f"loop guard `{gt}` is not 'both indices in range'", fi.loc(lp))
    env = Env(fi, prog, inline_locals=True)
    env2 = Env(fi, prog, inline_locals=False)
    # period names
    try:
        sums, g = summarize(fi=None, body=lp.body, env=Env(fi, prog, inline_locals=False))
    except Exception as ex:
        rep.undecided("SWEEP", fi.short, "paths", f"cannot enumerate loop-body paths: {ex}", fi.loc(lp))
        return
    E1s, E1e = Form.atom(f"{e1}.timestamp"), Form.atom(f"{e1}.timestamp") + Form.atom(f"{e1}.duration")
    E2s, E2e = Form.atom(f"{e2}.timestamp"), Form.atom(f"{e2}.timestamp") + Form.atom(f"{e2}.duration")
    I1, I2 = Form.atom(i1), Form.atom(i2)
    rep.unit("paths", f"{fi.short} loop body: {len(sums)} paths")
    n_paths = 0
    for s in sums:
        n_paths += 1
        a1 = s.state.vals.get(i1, I1) - I1
        a2 = s.state.vals.get(i2, I2) - I2
        adv1, adv2 = a1 == Form(const=1), a2 == Form(const=1)
        if not (a1 in (Form(), Form(const=1)) and a2 in (Form(), Form(const=1))):
            rep.violation("SWEEP", fi.short, f"path {s.lines}", f"indices change by ({a1!r}, {a2!r})", fi.loc(lp))
            continue
        # the intersection variable, under whatever name: what `<period>.intersection(<period>)` is bound to in the loop
        ip_names = {norm(a_.targets[0]) for a_ in ast.walk(lp) if isinstance(a_, ast.Assign) and len(a_.targets) == 1 and isinstance(a_.value, ast.Call) and isinstance(a_.value.func, ast.Attribute) and a_.value.func.attr == "intersection"} or {"ip"}
        ip_true = any((t in ip_names or any(t == f"{n_} is not None" for n_ in ip_names)) and p for t, p in s.opaque)
        cons = f"path lines {s.lines[-3:]}"
        if not adv1 and not adv2:
            rep.violation("SWEEP", fi.short, cons, "a path through the loop body advances neither index: the sweep does not terminate", fi.loc(lp), path=[str(x) for x in s.lines])
            continue
        if s.yields and not ip_true:
            rep.violation("SWEEP", fi.short, cons, "a pair is yielded on a path where the intersection is empty", fi.loc(lp))
            continue
        if ip_true and not s.yields:
            rep.violation("SWEEP", fi.short, cons, "an intersecting pair is not yielded", fi.loc(lp))
            continue
        def _need(fs):
            out = set()
            for f in fs:
                out |= {Lit(f, "<="), Lit(f, "<"), Lit(f, "==")}
            return out

        if adv1 and not adv2:
            need = _need([E1e - E2e, E1e - E2s])
            ok = bool(s.lits & need)
            rep.check(ok, "SWEEP", fi.short, cons + f" ({i1} alone)", f"carries {sorted(map(repr, s.lits & need))}", f"index {i1} advances alone on a path that does not carry end({e1}) <= end({e2}) or end({e1}) <= start({e2}) (path literals {sorted(map(repr, s.lits))}): an event is dropped although a later event of the other list can still meet it", fi.loc(lp))
        elif adv2 and not adv1:
            need = _need([E2e - E1e, E2e - E1s])
            ok = bool(s.lits & need)
            rep.check(ok, "SWEEP", fi.short, cons + f" ({i2} alone)", f"carries {sorted(map(repr, s.lits & need))}", f"index {i2} advances alone on a path that does not carry end({e2}) <= end({e1}) or end({e2}) <= start({e1}) (path literals {sorted(map(repr, s.lits))}): an event is dropped although a later event of the other list can still meet it", fi.loc(lp))
        else:
            need = {Lit(E2s - E1e, "<"), Lit(E1s - E2e, "<")}  # not(e1.end <= e2.start), not(e2.end <= e1.start)
            ok = need <= s.lits and not ip_true
            rep.check(ok, "SWEEP", fi.short, cons + " (both)", "else of both disjointness tests", f"both indices advance on a path that is not the else of both disjointness tests (literals {sorted(map(repr, s.lits))}): pairs are skipped", fi.loc(lp))
    rep.floor("sweep loop-body paths", n_paths, 5)


def _block_of_stmt(fi, node):
    """the statement list that directly contains `node`'s statement"""
    from ..model import parent

    st = node
    while st is not None and not isinstance(st, ast.stmt):
        st = parent(st)
    p = parent(st)
    for f in ("body", "orelse", "finalbody"):
        b = getattr(p, f, None)
        if isinstance(b, list) and any(x is st for x in b):
            return b, st
    return [], st


def _copy_facts(fi, call_arg, at):
    """what a value appended to the result is, looking at the straight-line statements before it in its block:
    -> (source expression text it is a copy of / is, cleared: bool)"""
    blk, st = _block_of_stmt(fi, at)
    env = {}  # local -> (source text, is_copy, cleared)
    for x in blk:
        if x is st:
            break
        if isinstance(x, ast.Assign) and len(x.targets) == 1 and isinstance(x.targets[0], ast.Name):
            v = x.value
            if isinstance(v, ast.Call) and norm(v.func) in ("deepcopy", "copy.deepcopy") and len(v.args) == 1:
                src = env.get(norm(v.args[0]), (norm(v.args[0]), False, False))
                env[x.targets[0].id] = (src[0], True, False)
            elif isinstance(v, ast.Name):
                env[x.targets[0].id] = env.get(v.id, (v.id, False, False))
            elif isinstance(v, ast.Call) and isinstance(v.func, ast.Attribute) and v.func.attr == "pop":
                env[x.targets[0].id] = (norm(v), False, False)
        elif isinstance(x, ast.Assign) and len(x.targets) == 1 and isinstance(x.targets[0], ast.Attribute) and x.targets[0].attr == "data" and isinstance(x.targets[0].value, ast.Name) and isinstance(x.value, ast.Dict) and not x.value.keys:
            nm = x.targets[0].value.id
            if nm in env:
                env[nm] = (env[nm][0], env[nm][1], env[nm][1])  # clearing counts only on a copy
                # aliases made afterwards inherit it; aliases made before do too (same object)
    if isinstance(call_arg, ast.Name) and call_arg.id in env:
        src, is_copy, cleared = env[call_arg.id]
        # an alias taken before the clearing refers to the same (cleared) object
        for k, v_ in env.items():
            if v_[0] == src and v_[1] and v_[2]:
                cleared = True
        return src, is_copy, cleared
    return norm(call_arg), False, False


def union_rule(prog, rep):
    rep.rule("UNION", "period_union: the concatenation of both lists is sorted before the sweep; the merge test is `not gap` (touching slots merge; Timeslot.gap is None unless end < start, strict); on the merge branch the last output is replaced by the union period; every output has its data cleared")
    fi = prog.func("period_union")
    p1, p2 = fi.params
    body = fi.node.body
    t = [norm(s) for s in body]
    loops = [s for s in body if isinstance(s, ast.For)]
    sweep_l = [l for l in loops if any(isinstance(x, ast.If) for x in l.body)]
    # the list the sweep walks (under whatever name) is bound once, to the sorted concatenation of both parameters
    it_ = sweep_l[0].iter if len(sweep_l) == 1 else None
    if isinstance(it_, ast.Subscript) and isinstance(it_.slice, ast.Slice):
        it_ = it_.value  # events[1:] after the first element seeded the output
    swept = norm(it_) if it_ is not None else "events"
    sorted_defs = [s for s in body if isinstance(s, ast.Assign) and len(s.targets) == 1 and norm(s.targets[0]) == swept]
    oks = len(sorted_defs) == 1 and norm(sorted_defs[0].value) in (f"sorted({p1} + {p2})", f"sorted({p2} + {p1})", f"sorted({p1} + {p2}, key=lambda e: e.timestamp)", f"sorted({p2} + {p1}, key=lambda e: e.timestamp)")
    rep.check(oks, "UNION", fi.short, "sorted concatenation", "events = sorted(events1 + events2)", "the sweep does not run over the sorted concatenation of both lists", fi.loc())
    if len(sweep_l) != 1:
        rep.undecided("UNION", fi.short, "sweep loop", f"{len(sweep_l)} candidate loops", fi.loc())
        return
    lp = sweep_l[0]
    ev = norm(lp.target)
    # `if not acc: acc.append(e) else: <the sweep step>` (what a seed guard with `continue` is normalised to): the step is the else
    lp_body = lp.body
    if len(lp_body) == 1 and isinstance(lp_body[0], ast.If) and lp_body[0].orelse and len(lp_body[0].body) == 1 and isinstance(lp_body[0].body[0], ast.Expr) and isinstance(lp_body[0].body[0].value, ast.Call) and isinstance(lp_body[0].body[0].value.func, ast.Attribute) and lp_body[0].body[0].value.func.attr == "append" and norm(lp_body[0].test) in (f"not {norm(lp_body[0].body[0].value.func.value)}", f"len({norm(lp_body[0].body[0].value.func.value)}) == 0") and len(lp_body[0].body[0].value.args) == 1 and norm(lp_body[0].body[0].value.args[0]) == ev:
        lp_body = lp_body[0].orelse
    ifs = [x for x in lp_body if isinstance(x, ast.If)]

    def _seed_guard(x):
        # `if not acc: acc.append(e); continue` at the top of the sweep: the first event opens the output (same as seeding
        # the output with the first element before the loop)
        if x.orelse or len(x.body) != 2 or not isinstance(x.body[1], ast.Continue):
            return False
        b0 = x.body[0]
        if not (isinstance(b0, ast.Expr) and isinstance(b0.value, ast.Call) and isinstance(b0.value.func, ast.Attribute) and b0.value.func.attr == "append" and len(b0.value.args) == 1 and norm(b0.value.args[0]) == ev):
            return False
        a_ = norm(b0.value.func.value)
        return norm(x.test) in (f"not {a_}", f"len({a_}) == 0", f"{a_} == []")

    if ifs and lp.body and lp.body[0] is ifs[0] and _seed_guard(ifs[0]) and len(ifs) > 1:
        ifs = ifs[1:]
    tt = ifs[0].test
    from ..trace import deep

    neg = isinstance(tt, ast.UnaryOp) and isinstance(tt.op, ast.Not)
    core = tt.operand if neg else tt
    okt = isinstance(core, ast.Call) and isinstance(core.func, ast.Attribute) and core.func.attr == "gap" and len(core.args) == 1
    last = None
    for n in lp_body:
        if isinstance(n, ast.Assign) and norm(n.value).endswith("[-1]"):
            last = norm(n.targets[0])
    periods = set()
    if okt:
        periods = {norm(deep(core.func.value, fi, stop=(last,) if last else ())), norm(deep(core.args[0], fi, stop=(last,) if last else ()))}
        okt = last is not None and periods == {f"_get_event_period({ev})", f"_get_event_period({last})"}
    rep.check(okt, "UNION", fi.short, "merge test", "[not] period(e).gap(period(last))", f"the merge test is `{norm(tt)}`, not 'no gap between the event and the last output'", fi.loc(ifs[0]))
    if okt:
        merge_b, other_b = (ifs[0].body, ifs[0].orelse) if neg else (ifs[0].orelse, ifs[0].body)
        acc = None
        app_call = None
        for s_ in other_b:
            if isinstance(s_, ast.Expr) and isinstance(s_.value, ast.Call) and isinstance(s_.value.func, ast.Attribute) and s_.value.func.attr == "append":
                acc = norm(s_.value.func.value)
                app_call = s_.value
        yes = [norm(x) for x in merge_b]
        no = [norm(x) for x in other_b]
        oky = acc is not None and no == [f"{acc}.append({ev})"]
        if acc is not None and not oky and app_call is not None and len(app_call.args) == 1:
            # the event may enter the result as a (data-less) copy of itself: locals and `.data = {}` only besides the append
            src, is_copy, cleared = _copy_facts(fi, app_call.args[0], app_call)
            rest = [x for x in other_b if not (isinstance(x, ast.Expr) and x.value is app_call)]
            plain = all((isinstance(x, ast.Assign) and len(x.targets) == 1 and (isinstance(x.targets[0], ast.Name) or (isinstance(x.targets[0], ast.Attribute) and x.targets[0].attr == "data" and isinstance(x.targets[0].value, ast.Name) and x.targets[0].value.id != ev))) for x in rest)
            oky = src == ev and plain
        repl = [x for x in merge_b if isinstance(x, ast.Assign) and norm(x.targets[0]) == f"{acc}[-1]"]
        others = [x for x in merge_b if x not in repl and not (isinstance(x, ast.Assign) and isinstance(x.targets[0], ast.Name))]
        if oky:
            oky = len(repl) == 1 and not others and isinstance(repl[0].value, ast.Call) and norm(repl[0].value.func) == "_replace_event_period" and len(repl[0].value.args) == 2 and norm(repl[0].value.args[0]) == last
        if oky:
            u = deep(repl[0].value.args[1], fi, stop=(last,))
            oky = isinstance(u, ast.Call) and isinstance(u.func, ast.Attribute) and u.func.attr == "union" and len(u.args) == 1 and {norm(u.func.value), norm(u.args[0])} == periods
        rep.check(bool(oky), "UNION", fi.short, "branches", "merge: last := union period; else: append", f"branches are merge={yes} / else={no}", fi.loc(ifs[0]))
        # outputs cleared: what is returned is one entry per swept output, each with its data set to {} (in place or on a copy)
        from ..trace import map_desc

        rets = [s_ for s_ in body if isinstance(s_, ast.Return)]
        okc = False
        if len(rets) == 1 and rets[0].value is not None:
            rv = rets[0].value
            clear_loops = []
            for l in loops:
                if l is lp or not isinstance(l.target, ast.Name) or norm(l.iter) != acc:
                    continue
                v0 = l.target.id
                # the variable may be re-bound to a copy of itself before it is cleared
                names = {v0}
                cleared = False
                fine = True
                for st_ in l.body:
                    if isinstance(st_, ast.Expr) and isinstance(st_.value, ast.Constant):
                        continue
                    if isinstance(st_, ast.Assign) and len(st_.targets) == 1 and isinstance(st_.targets[0], ast.Name) and isinstance(st_.value, ast.Call) and norm(st_.value.func) in ("deepcopy", "copy.deepcopy", "copy.copy") and norm(st_.value.args[0]) in names:
                        names.add(st_.targets[0].id)
                    elif isinstance(st_, ast.Assign) and len(st_.targets) == 1 and isinstance(st_.targets[0], ast.Attribute) and st_.targets[0].attr == "data" and norm(st_.targets[0].value) in names and isinstance(st_.value, ast.Dict) and not st_.value.keys:
                        cleared = True
                    elif isinstance(st_, ast.Expr) and isinstance(st_.value, ast.Call) and isinstance(st_.value.func, ast.Attribute) and st_.value.func.attr == "append" and len(st_.value.args) == 1 and norm(st_.value.args[0]) in names:
                        pass
                    else:
                        fine = False
                if cleared and fine:
                    clear_loops.append(l)
            if len(clear_loops) == 1:
                if norm(rv) == acc:
                    okc = True  # cleared in place, the swept list is returned
                else:
                    md = map_desc(fi, rv)
                    okc = md is not None and md[0] == [] and md[1] == acc and md[3] is None
            elif not clear_loops and norm(rv) == acc:
                # no clearing pass: then everything that enters the result must enter it as a data-less copy
                apps = [c for c in walk_own(fi.node) if isinstance(c, ast.Call) and norm(c.func) == f"{acc}.append" and len(c.args) == 1]
                okc = bool(apps)
                for c in apps:
                    src, is_copy, cleared = _copy_facts(fi, c.args[0], c)
                    okc = okc and is_copy and cleared
        rep.check(okc, "UNION", fi.short, "outputs data-less", "every output's data is cleared; outputs returned", "outputs are not all cleared of data / not returned as swept", fi.loc())
    # third-party Timeslot.gap strictness (trusted base, looked at when the file is there)
    for cand in ("/venv/lib/python3.12/site-packages/timeslot/timeslot.py",):
        if os.path.exists(cand):
            tree = ast.parse(open(cand).read())
            for n in ast.walk(tree):
                if isinstance(n, ast.FunctionDef) and n.name == "gap":
                    cmps = [c for c in ast.walk(n) if isinstance(c, ast.Compare)]
                    strict = all(isinstance(c.ops[0], ast.Lt) for c in cmps) and len(cmps) == 2
                    rep.check(strict, "UNION", "timeslot.Timeslot.gap", "strictness", "gap is None unless end < start (strict): touching slots merge, gaps between outputs are strictly positive", "third-party Timeslot.gap is no longer strict", cand)


def check(prog, rep):
    rep.level = "other"
    rep.explanation = (
        "Decided: inputs of filter_period_intersect are untouched at any depth (E2, through the in-place sorts of the helper, which only ever "
        "see fresh sorted copies); provenance of every result piece (first list's event, deep-copied, cut to the pair's intersection); "
        "safety of the two-pointer sweep (every loop-body path enumerated, indices advance alone only under the literal that makes dropping safe); "
        "shape of period_union. Exactness of the sweeps over unbounded lists is a loop invariant and is NOT decided."
    )
    rep.trusted_base = ["third-party Timeslot.intersection/gap/union semantics (gap's strictness is looked at)", "deepcopy yields a disjoint graph"]
    rep.not_decided = ["soundness and completeness against set-theoretic intersection/union for every placement (loop invariants over unbounded lists)", "total-duration equalities", "Timeslot.intersection on degenerate slots"]
    rep.rule("PURE", "no write at or below the named input parameters, at any depth, through every inlined callee (E2)")
    purity_rule(prog, rep, "filter_period_intersect", ["events", "filterevents"])
    provenance(prog, rep)
    sweep(prog, rep)
    union_rule(prog, rep)
    rep.note("period_union clears `data` on input events it passes through (E2 sees writes below events1/events2); the property claims input preservation for filter_period_intersect only")
    # the transform's own copies (deepcopy of events) separate its output from its input only if Event keeps the default copy protocol
    from ..rules_own import copy_protocol

    copy_protocol(prog, rep)
    # nothing on the way is memoised on a key that does not determine the answer
    from ..rules_own import memo_rule

    memo_rule(prog, rep, rule="MEMO")
    # ends are timestamp + duration: instant arithmetic only because Event normalises timestamps to UTC (C13-NORMALISE)
    from .c13 import normalisation

    normalisation(prog, rep)
    # both functions sort events: the order must be defined for every pair of events
    from .c13 import event_order

    event_order(prog, rep)


VARIANTS = [
    ("B events ordered by (timestamp, duration, id)", "aw_core/models.py", "            return self.timestamp < other.timestamp\n", "            return (self.timestamp, self.duration, self.id) < (other.timestamp, other.duration, other.id)\n", "ORDER-KEY"),

    ("B deepcopy dropped in _replace_event_period", F, "    e = deepcopy(event)\n    e.timestamp = period.start", "    e = event\n    e.timestamp = period.start", "PURE"),
    ("B caller passes the input list to the in-place sort", F, "    events = sorted(events)\n    filterevents = sorted(filterevents)\n", "    filterevents = sorted(filterevents)\n", "PURE"),
    ("B advance the other index", F, "            if e1_p.end <= e2_p.end:\n                e1_i += 1\n            else:\n                e2_i += 1", "            if e1_p.end <= e2_p.end:\n                e2_i += 1\n            else:\n                e1_i += 1", "SWEEP"),
    ("B yield on the non-intersect path", F, "            if e1_p.end <= e2_p.start:\n                # Event ended before filter event started\n                e1_i += 1", "            if e1_p.end <= e2_p.start:\n                yield (e1, e2, e1_p)\n                e1_i += 1", "SWEEP"),
    ("B always advance both", F, "            else:\n                e2_i += 1\n        else:", "            else:\n                e2_i += 1\n                e1_i += 1\n        else:", "SWEEP"),
    ("B result takes filter event's data", F, "        for (e1, _, ip) in _intersecting_eventpairs(events, filterevents)", "        for (_, e1, ip) in _intersecting_eventpairs(events, filterevents)", "PROV"),
    ("B lists swapped", F, "_intersecting_eventpairs(events, filterevents)", "_intersecting_eventpairs(filterevents, events)", "PROV"),
    ("B period end is duration only", F, "    end = start + event.duration\n", "    end = start\n", "PROV"),
    ("B union merges only on gap", F, "        if not e_p.gap(le_p):", "        if e_p.gap(le_p):", "UNION"),
    ("B union unsorted", F, "    events = sorted(events1 + events2)", "    events = events1 + events2", "UNION"),
    ("OK comparison flipped", F, "            if e1_p.end <= e2_p.end:", "            if e2_p.end >= e1_p.end:", "ok"),
    ("OK sorts removed from helper (caller sorts)", F, "    events1.sort(key=lambda e: e.timestamp)\n    events2.sort(key=lambda e: e.timestamp)\n", "", "ok"),
    ("OK strict drop test", F, "            if e1_p.end <= e2_p.start:\n                # Event ended", "            if e1_p.end < e2_p.start or e1_p.end == e2_p.start:\n                # Event ended", "ok"),
]
