"""C13 — events normalise to UTC milliseconds and survive JSON round trips (decidable clauses)."""
import ast
import json
import os

from ..affine import canon_int, is_floor_ms
from ..cfg import cfg_of
from ..model import norm, parent, walk_own, walk_with_nested_exprs

M = "aw_core/models.py"
FIELDS = ("id", "timestamp", "duration", "data")


def single_writer(prog, rep):
    rep.rule("ONE-WRITER", "the only stores to the keys timestamp / duration / data / id of an Event, anywhere in the packages, are the four property setters (Event.__init__ assigns through the properties; to_json_dict writes into self.copy(), a fresh plain dict)")
    n_sites = 0
    foreign = 0
    for fi in prog.funcs.values():
        for n in walk_with_nested_exprs(fi.node):
            if isinstance(n, ast.Subscript) and isinstance(n.ctx, (ast.Store, ast.Del)) and isinstance(n.slice, ast.Constant) and n.slice.value in FIELDS:
                n_sites += 1
                is_setter = fi.cls is not None and fi.cls.name == "Event" and fi.short.endswith(".setter") and norm(n.value) == "self" and n.slice.value == fi.name
                if is_setter:
                    rep.ok("ONE-WRITER", fi.short, f"self[{n.slice.value!r}] =", "property setter", fi.loc(n))
                    continue
                # a plain dict: bound from .copy() / dict(...) / a dict literal in the same function
                base = n.value
                plain = False
                if isinstance(base, ast.Name):
                    from ..sqlmodel import local_defs

                    defs = local_defs(fi, base.id)
                    plain = bool(defs) and all(isinstance(d, ast.Assign) and (isinstance(d.value, ast.Dict) or (isinstance(d.value, ast.Call) and (norm(d.value.func) in ("dict",) or (isinstance(d.value.func, ast.Attribute) and d.value.func.attr == "copy" and not d.value.args)))) for d in defs)
                if plain:
                    rep.ok("ONE-WRITER", fi.short, f"{norm(n)} =", "store into a fresh plain dict", fi.loc(n))
                elif n.slice.value in ("id", "data"):
                    # id / data are stored as given (nothing to normalise); such keys also occur in bucket metadata dicts
                    rep.ok("ONE-WRITER", fi.short, f"{norm(n)} =", "key without normalisation (id/data)", fi.loc(n))
                else:
                    foreign += 1
                    rep.violation("ONE-WRITER", fi.short, f"{norm(n)} =", f"`{norm(n)}` is written without going through the Event property setter: the value is not normalised (UTC, millisecond floor, timedelta)", fi.loc(n))
            if isinstance(n, ast.Call) and isinstance(n.func, ast.Attribute) and n.func.attr in ("__setitem__", "update", "setdefault") and n.args:
                a0 = n.args[0]
                keys = []
                if isinstance(a0, ast.Constant):
                    keys = [a0.value]
                elif isinstance(a0, ast.Dict):
                    keys = [k.value for k in a0.keys if isinstance(k, ast.Constant)]
                keys += [k.arg for k in n.keywords if k.arg]
                if any(k in ("timestamp", "duration") for k in keys) and not norm(n.func.value).startswith(("self.db", "self._metadata")):
                    foreign += 1
                    rep.violation("ONE-WRITER", fi.short, f"{norm(n)[:50]}", "event instant/duration written through a dict method, bypassing the normalising setter", fi.loc(n))
    rep.floor("stores to Event field keys", n_sites, 6)
    # positive fixture
    fx = os.path.join(os.path.dirname(os.path.dirname(os.path.dirname(__file__))), "fixtures", "foreign_event_write.py")
    t = ast.parse(open(fx).read())
    m = [n for n in ast.walk(t) if isinstance(n, ast.Subscript) and isinstance(n.ctx, ast.Store) and isinstance(n.slice, ast.Constant) and n.slice.value in FIELDS]
    if not m:
        rep.error("positive fixture fixtures/foreign_event_write.py no longer matches the ONE-WRITER rule")
    # __init__ goes through the properties
    init = prog.func("Event.__init__")
    assigned = {}
    for n in walk_own(init.node):
        if isinstance(n, ast.Assign) and isinstance(n.targets[0], ast.Attribute) and norm(n.targets[0].value) == "self":
            assigned.setdefault(n.targets[0].attr, []).append(n)
    ok = set(assigned) == set(FIELDS)
    rep.check(ok, "ONE-WRITER", init.short, "assigns through properties", f"{sorted(assigned)}", f"Event.__init__ assigns {sorted(assigned)} (all four fields must go through their property)", init.loc())
    if ok:
        g = cfg_of(init)
        for f in FIELDS:
            nodes = [g.node_of(a) for a in assigned[f]]
            okp, w = g.must_pass(g.entry, set(nodes))
            rep.check(okp, "ONE-WRITER", init.short, f"self.{f} on every path", "", f"a path through __init__ leaves `{f}` unset", init.loc())
        vals = {f: [norm(a.value) for a in assigned[f]] for f in FIELDS}
        p = init.params
        rep.check(vals["id"] == ["id"] and vals["duration"] == ["duration"] and vals["data"] in (["data or {}"], ["data if data is not None else {}"]) and any(v == "_timestamp_parse(timestamp)" or v == "timestamp" for v in vals["timestamp"]), "ONE-WRITER", init.short, "values", f"{vals}", f"__init__ stores {vals}: each field must be set from the parameter of the same name", init.loc())


def id_setter(prog, rep, rule="ID-SETTER"):
    """assigning an id (None included) is what it says: the setter stores the value on every path"""
    rep.rule(rule, "the Event.id setter stores the value it is given, None included, on every path (`self['id'] = id`): clearing an id by assigning None is how an event is turned back into a new one (the migration does this for every legacy event; an id that sticks makes the bulk insert treat them as updates of rows that do not exist)")
    fi = prog.func("Event.id.setter")
    p = fi.params[1]
    body = [s_ for s_ in fi.node.body if not (isinstance(s_, ast.Expr) and isinstance(s_.value, ast.Constant))]
    ok = len(body) == 1 and isinstance(body[0], ast.Assign) and norm(body[0].targets[0]) == "self['id']" and norm(body[0].value) == p
    rep.check(ok, rule, fi.short, "stores what it is given", f"self['id'] = {p}", f"the id setter is `{'; '.join(norm(x)[:60] for x in body)}`: the value assigned is not stored on every path (an id that cannot be reset to None survives `event.id = None`)", fi.loc())


def event_order(prog, rep, rule="ORDER-KEY"):
    """sorted(events) is total for events: Event.__lt__ compares the timestamps and nothing that may be None or of mixed types"""
    rep.rule(rule, "Event.__lt__ on two events returns self.timestamp < other.timestamp (a comparison of two aware datetimes, always defined): comparing further fields (an id that is None for fresh events and an int for stored ones, a data dict) makes sorted() raise TypeError for events that tie on the earlier fields")
    fi = prog.func("Event.__lt__")
    o = fi.params[1] if len(fi.params) > 1 else "other"
    rets = [r for r in walk_own(fi.node) if isinstance(r, ast.Return) and r.value is not None]
    bad = None
    for r in rets:
        v = r.value
        if isinstance(v, ast.Constant) or norm(v) == "NotImplemented":
            continue
        names = {x.attr for x in ast.walk(v) if isinstance(x, ast.Attribute) and isinstance(x.value, ast.Name) and x.value.id in ("self", o)} | {x.slice.value for x in ast.walk(v) if isinstance(x, ast.Subscript) and isinstance(x.value, ast.Name) and x.value.id in ("self", o) and isinstance(x.slice, ast.Constant)}
        ok = norm(v) in (f"self.timestamp < {o}.timestamp", f"{o}.timestamp > self.timestamp", f"self['timestamp'] < {o}['timestamp']")
        if not ok:
            extra = sorted(names - {"timestamp"})
            if extra and any(e_ in ("id", "data") for e_ in extra):
                bad = (r, f"`{norm(v)[:80]}` also compares {extra}: an id is None for an event that was never stored and an int for a stored one (None < 1 raises TypeError), a data dict has no order: sorted() over events that tie on the earlier fields raises instead of sorting")
            elif not ok and bad is None:
                bad = (r, None)
    if bad and bad[1]:
        rep.violation(rule, fi.short, "sort key", bad[1], fi.loc(bad[0]))
    elif bad:
        rep.undecided(rule, fi.short, "sort key", f"unrecognised ordering `{norm(bad[0].value)[:80]}`", fi.loc(bad[0]))
    else:
        rep.ok(rule, fi.short, "sort key", "timestamp only", fi.loc())


def normalisation(prog, rep):
    rep.rule("NORMALISE", "the timestamp setter stores _timestamp_parse(x).astimezone(timezone.utc); _timestamp_parse parses strings with iso8601.parse_date, floors microseconds to a multiple of 1000 on every path, and attaches UTC exactly when the value is naive")
    st = prog.func("Event.timestamp.setter")
    p = st.params[1]
    stores = [n for n in walk_own(st.node) if isinstance(n, ast.Assign) and norm(n.targets[0]) == "self['timestamp']"]
    ok = len(stores) == 1 and norm(stores[0].value) in (f"_timestamp_parse({p}).astimezone(timezone.utc)", f"_timestamp_parse({p}).astimezone(datetime.timezone.utc)")
    rep.check(ok, "NORMALISE", st.short, "stored value", "_timestamp_parse(x).astimezone(timezone.utc)", f"the timestamp is stored as `{norm(stores[0].value) if stores else '?'}`: not parsed/floored and converted to UTC", st.loc())
    fi = prog.func("_timestamp_parse")
    g = cfg_of(fi)
    x = fi.params[0]
    if g.has_loop():
        rep.undecided("NORMALISE", fi.short, "shape", "loop in _timestamp_parse", fi.loc())
        return
    # parse step: strings (and only strings) go through iso8601.parse_date
    t = norm(fi.node)
    okp = f"iso8601.parse_date({x}) if isinstance({x}, str) else {x}" in t or (f"if isinstance({x}, str):" in t and f"iso8601.parse_date({x})" in t)
    rep.check(okp, "NORMALISE", fi.short, "string parsing", "iso8601.parse_date for str input, datetimes as is", "string input is not parsed with iso8601.parse_date (or non-strings are)", fi.loc())
    # ... on EVERY path: no second, home-made way of turning text into a datetime next to it (a fast path that builds
    # datetime(...) from regex groups, strptime, fromisoformat: each has its own idea of fractions, offsets and 'Z')
    other = [c for c in walk_with_nested_exprs(fi.node) if isinstance(c, ast.Call) and (norm(c.func) in ("datetime", "datetime.datetime", "datetime.strptime", "datetime.fromisoformat", "datetime.datetime.strptime", "datetime.datetime.fromisoformat", "dateutil.parser.parse", "parser.parse", "ciso8601.parse_datetime") or (isinstance(c.func, ast.Attribute) and c.func.attr in ("strptime", "fromisoformat", "fromtimestamp")))]
    rep.check(not other, "NORMALISE", fi.short, "one parser", "iso8601.parse_date is the only way text becomes a datetime", (f"`{norm(other[0])[:70]}` builds the datetime by other means on some path: text the ISO standard allows (a fraction of one or two digits, a basic-format offset) is read differently there, so the event holds another instant than the string denotes" if other else ""), fi.loc(other[0]) if other else fi.loc())

    def replace_kw(e):
        """<v>.replace(<kw>=value) applications inside an expression -> list of (kw, value expr, receiver text)"""
        out = []
        for n in ast.walk(e):
            if isinstance(n, ast.Call) and isinstance(n.func, ast.Attribute) and n.func.attr == "replace" and not n.args and len(n.keywords) == 1:
                out.append((n.keywords[0].arg, n.keywords[0].value, norm(n.func.value)))
        return out

    def naive_literal(lab):
        """edge asserts 'the value has no tzinfo' -> True; asserts it has -> False; else None"""
        if not lab or lab[0] != "cond":
            return None
        tt, pol = norm(lab[1]), lab[2]
        if tt.endswith(".tzinfo"):
            return not pol
        if tt.endswith(".tzinfo is None"):
            return pol
        if tt.endswith(".tzinfo is not None"):
            return not pol
        return None

    paths = g.paths(ends={g.exit})
    n_ok = 0
    for path in paths:
        floors, tzs, other = [], [], []
        naive = None
        returns_value = False
        for nid, lab in path:
            nl = naive_literal(lab)
            if nl is not None:
                naive = nl
            n = g.nodes[nid]
            if n.kind != "stmt":
                continue
            a = n.ast
            exprs = []
            if isinstance(a, ast.Assign):
                exprs = [a.value]
            elif isinstance(a, ast.Return) and a.value is not None:
                exprs = [a.value]
                returns_value = True
            for e in exprs:
                for kw, val, recv in replace_kw(e):
                    if kw == "microsecond":
                        floors.append((val, recv))
                    elif kw == "tzinfo":
                        tzs.append(val)
                    else:
                        other.append(kw)
        if not returns_value:
            continue
        where = fi.loc(g.nodes[path[-2][0]].ast) if len(path) > 1 and g.nodes[path[-2][0]].ast is not None else fi.loc()
        if len(floors) != 1 or not is_floor_ms(canon_int(floors[0][0], fi), f"{floors[0][1]}.microsecond"):
            why = "the millisecond floor is skipped on this path" if not floors else f"microsecond is set to `{norm(floors[0][0])}`, which is not a floor to a multiple of 1000"
            rep.violation("NORMALISE", fi.short, "millisecond floor", why + f" (path through lines {[g.nodes[i].line for i, _ in path if g.nodes[i].line][-4:]})", where)
            continue
        if other:
            rep.violation("NORMALISE", fi.short, "no other rewriting", f"the value is also rewritten by replace({other[0]}=...)", where)
            continue
        if tzs:
            okz = all(norm(v) in ("timezone.utc", "datetime.timezone.utc") for v in tzs) and naive is True
            if not okz:
                rep.violation("NORMALISE", fi.short, "UTC for naive values", f"tzinfo is attached as `{norm(tzs[0])}` on a path that is not known to carry a naive value: replace() on an aware value changes the instant, and the zone must be UTC", where)
                continue
        else:
            if naive is True:
                rep.violation("NORMALISE", fi.short, "UTC for naive values", "a naive timestamp is returned without a timezone", where)
                continue
            if naive is None:
                rep.violation("NORMALISE", fi.short, "UTC for naive values", "naive timestamps are not given a timezone (no test of tzinfo on this path)", where)
                continue
        n_ok += 1
    if n_ok:
        rep.ok("NORMALISE", fi.short, "millisecond floor", f"floor to a multiple of 1000 on each of {n_ok} returning path(s)", fi.loc())
        rep.ok("NORMALISE", fi.short, "UTC for naive values", "replace(tzinfo=timezone.utc) exactly on the naive path(s)", fi.loc())
    rep.floor("_timestamp_parse returning paths", len([p for p in paths]), 2)


def duration_dispatch(prog, rep):
    rep.rule("DURATION", "the duration setter is a total type dispatch: timedelta stored as is, numbers.Real stored as timedelta(seconds=x), everything else raises TypeError")
    fi = prog.func("Event.duration.setter")
    p = fi.params[1]
    from ..paths import summarize
    from ..affine import Env

    sums, g = summarize(fi, env=Env(fi, prog, inline_locals=False))
    seen = {"td": False, "real": False, "else": False}
    for s in sums:
        is_td = (f"isinstance({p}, timedelta)", True) in s.opaque
        not_td = (f"isinstance({p}, timedelta)", False) in s.opaque
        is_real = (f"isinstance({p}, numbers.Real)", True) in s.opaque
        w = [a for a in s.state.vals if a == "self.duration" or a == "self[duration]" or a.startswith("self")]
        stored = None
        # what is stored, as an expression over the parameter as it was given (re-bindings along the path substituted)
        from ..normalize import _subst_names

        env_ = {}
        for n in s.stmts:
            if isinstance(n, ast.Assign) and len(n.targets) == 1 and isinstance(n.targets[0], ast.Name):
                env_[n.targets[0].id] = _subst_names(n.value, env_)
            if isinstance(n, ast.Assign) and norm(n.targets[0]) == "self['duration']":
                stored = norm(_subst_names(n.value, env_))
        if is_td:
            seen["td"] = True
            rep.check(stored == p and s.kind == "return", "DURATION", fi.short, "timedelta branch", "stored as is", f"a timedelta is stored as `{stored}`", fi.loc())
        elif not_td and is_real:
            seen["real"] = True
            rep.check(stored == f"timedelta(seconds={p})" and s.kind == "return", "DURATION", fi.short, "number branch", "timedelta(seconds=x)", f"a number is stored as `{stored}` (seconds expected)", fi.loc())
        else:
            seen["else"] = True
            ok = s.kind == "raise" and s.ret is not None and norm(s.ret).startswith("TypeError") and stored is None
            rep.check(ok, "DURATION", fi.short, "other types", "raise TypeError", f"a duration of another type {'is stored as ' + str(stored) if stored else 'does not raise TypeError'}", fi.loc())
    rep.check(all(seen.values()), "DURATION", fi.short, "total dispatch", "three branches", f"dispatch branches present: {seen}", fi.loc())


JSON_TYPES = {"string", "number", "boolean", "array", "object", "null"}
ANNOTATIONS = {"description", "title", "default", "examples", "$comment"}


def _restricts_json(decl, depth=0):
    """does this (sub)schema exclude some JSON value?  -> "" (admits all) | reason | None (cannot tell)"""
    if decl is True or decl == {}:
        return ""
    if decl is False:
        return "`false` admits nothing"
    if not isinstance(decl, dict) or depth > 4:
        return None
    for kw, v in decl.items():
        if kw in ANNOTATIONS or kw == "format":
            continue
        if kw == "type":
            have = set(v if isinstance(v, list) else [v])
            if "number" in have:
                have.add("integer")
            if depth == 0:
                continue  # the type of `data` itself is checked above
            miss = sorted(JSON_TYPES - have)
            if miss:
                return f"`type` {sorted(have)} leaves out {miss}"
            continue
        if kw in ("additionalProperties", "items", "additionalItems", "unevaluatedProperties"):
            r = _restricts_json(v, depth + 1)
            if r != "":
                return (f"{kw}: " + r) if r else None
            continue
        if kw in ("properties", "patternProperties"):
            for name, sub in (v or {}).items():
                r = _restricts_json(sub, depth + 1)
                if r != "":
                    return (f"{kw}[{name}]: " + r) if r else None
            continue
        if kw in ("required", "minProperties", "maxProperties", "propertyNames", "enum", "const", "not", "minItems", "maxItems", "dependencies", "dependentRequired"):
            if v in ([], 0, {}, None):
                continue
            return f"`{kw}` = {json.dumps(v)[:60]}"
        return None
    return ""


def json_agreement(prog, rep):
    rep.rule("JSON", "keys emitted by to_json_dict = keyword parameters of Event.__init__ = {id, timestamp, duration, data}; timestamp is emitted as .astimezone(timezone.utc).isoformat(), duration as .total_seconds(); they match schemas/event.json (required ⊆ emitted; string/date-time, number, object); __eq__ compares timestamp, duration and data")
    init = prog.func("Event.__init__")
    rep.check(init.params[1:] == list(FIELDS) or set(init.params[1:]) == set(FIELDS), "JSON", init.short, "keyword parameters", f"{init.params[1:]}", f"Event.__init__ takes {init.params[1:]}: Event(**json) needs exactly id/timestamp/duration/data", init.loc())
    fi = prog.func("Event.to_json_dict")
    asg = {}
    base = None
    for n in walk_own(fi.node):
        if isinstance(n, ast.Assign) and isinstance(n.targets[0], ast.Subscript) and isinstance(n.targets[0].slice, ast.Constant):
            asg[n.targets[0].slice.value] = norm(n.value)
            base = norm(n.targets[0].value)
        if isinstance(n, ast.Assign) and norm(n.value) == "self.copy()":
            copyvar = norm(n.targets[0])
    rets = [n for n in walk_own(fi.node) if isinstance(n, ast.Return)]
    if not asg and len(rets) == 1 and isinstance(rets[0].value, ast.Dict) and rets[0].value.keys and rets[0].value.keys[0] is None and norm(rets[0].value.values[0]) == "self" and all(isinstance(k, ast.Constant) for k in rets[0].value.keys[1:]):
        # {**self, "timestamp": ..., "duration": ...}: a fresh plain dict, later keys override the copied ones
        for k, v in zip(rets[0].value.keys[1:], rets[0].value.values[1:]):
            asg[k.value] = norm(v)
        base = norm(rets[0].value)
    ok = asg.get("timestamp") in ("self.timestamp.astimezone(timezone.utc).isoformat()",) and asg.get("duration") == "self.duration.total_seconds()" and set(asg) == {"timestamp", "duration"} and len(rets) == 1 and norm(rets[0].value) == base
    rep.check(ok, "JSON", fi.short, "encodings", "timestamp -> UTC isoformat, duration -> total_seconds(), id/data copied", f"to_json_dict emits {asg}: timestamp must be the UTC ISO-8601 string and duration the number of seconds, other keys copied unchanged", fi.loc())
    # schema
    sp = os.path.join(prog.repo, "aw_core", "schemas", "event.json")
    try:
        sch = json.load(open(sp))
        props = sch.get("properties", {})
        oks = set(sch.get("required", [])) <= set(FIELDS) and props.get("timestamp", {}).get("type") == "string" and props.get("timestamp", {}).get("format") == "date-time" and props.get("duration", {}).get("type") == "number" and props.get("data", {}).get("type") == "object" and sch.get("type") == "object"
        rep.check(oks, "JSON", "schemas/event.json", "schema vs emitted types", "string/date-time, number, object", f"the published schema ({ {k: v for k, v in props.items()} }, required {sch.get('required')}) no longer matches what to_json_dict emits", "aw_core/schemas/event.json")
        # every key the model can emit must be admitted with every JSON type the model allows for it
        mi = prog.module("aw_core.models")
        id_alias = norm(mi.consts["Id"]) if "Id" in mi.consts else ""
        id_types = set()
        if "int" in id_alias:
            id_types.add("integer")
        if "str" in id_alias:
            id_types.add("string")
        if "Optional" in id_alias or "None" in id_alias:
            id_types.add("null")
        emitted = {"id": id_types or {"integer", "string", "null"}, "timestamp": {"string"}, "duration": {"number"}, "data": {"object"}}
        for k, need in emitted.items():
            decl = props.get(k)
            if decl is None:
                rep.check(sch.get("additionalProperties", True) is not False, "JSON", "schemas/event.json", f"key {k}", "not declared, additional properties allowed", f"the schema forbids additional properties but does not declare `{k}`, which every serialised event carries", "aw_core/schemas/event.json")
                continue
            ty = decl.get("type")
            have = set(ty if isinstance(ty, list) else [ty]) if ty is not None else None
            if have is not None and "number" in have:
                have.add("integer")
            okk = have is None or need <= have
            rep.check(okk, "JSON", "schemas/event.json", f"key {k}", f"admits {sorted(need)}", f"the schema restricts `{k}` to {sorted(have or [])} but the model ({'Id = ' + id_alias if k == 'id' else 'to_json_dict'}) emits {sorted(need)}: the JSON form of such an event no longer validates against the published schema", "aw_core/schemas/event.json", expected=sorted(need), found=sorted(have or []))
            extra = sorted(set(decl) - {"type", "format", "description", "title", "default", "examples", "$comment"})
            if k == "timestamp" and "pattern" in decl:
                # a pattern is data: it is matched (JSON-schema semantics: re.search) against the shapes datetime.isoformat()
                # produces for a UTC, millisecond-floored instant -- with and without a fractional part
                import re as _re

                shapes = ["2024-05-17T12:00:27+00:00", "2024-05-17T12:00:27.870000+00:00", "1970-01-01T00:00:00+00:00", "2099-12-31T23:59:59.001000+00:00"]
                try:
                    rx = _re.compile(decl["pattern"])
                    miss = [x for x in shapes if rx.search(x) is None]
                except _re.error as ex_:
                    miss = [f"(pattern does not compile: {ex_})"]
                rep.check(not miss, "JSON", "schemas/event.json", "pattern of timestamp", "matches every shape isoformat() emits", f"the schema's pattern for `timestamp` rejects {miss[:2]}: isoformat() leaves the fraction out when the (floored) microsecond is 0, so the JSON form of every event on a whole second no longer validates", "aw_core/schemas/event.json")
                extra = [x for x in extra if x != "pattern"]
            if k == "data" and extra:
                # the data dict is arbitrary JSON: whatever the schema says about its members must admit every JSON value
                why = _restricts_json(decl)
                if why is not None:
                    rep.check(why == "", "JSON", "schemas/event.json", "members of data", "every JSON value admitted", f"the schema constrains the members of `data`: {why}; data is free-form JSON (the setter stores any dict), so the JSON form of some event no longer validates", "aw_core/schemas/event.json")
                    continue
            if k == "duration" and extra and set(extra) <= {"minimum", "maximum", "exclusiveMinimum", "exclusiveMaximum", "multipleOf", "enum", "const"}:
                # the model emits total_seconds() of whatever timedelta the setter stored; if the setter applies no range test,
                # every real number of seconds (negative ones, fractions of a microsecond grid) is emitted for some event
                ds_ = prog.func("Event.duration#setter") if "Event.duration#setter" in getattr(prog, "by_short", {}) else None
                if ds_ is None:
                    cands = [f_ for f_ in prog.funcs.values() if f_.cls is not None and f_.cls.name == "Event" and f_.name == "duration" and len(f_.params) == 2]
                    ds_ = cands[0] if cands else None
                ranged = ds_ is None or any(isinstance(x, ast.Compare) and any(isinstance(o, (ast.Lt, ast.LtE, ast.Gt, ast.GtE)) for o in x.ops) for x in ast.walk(ds_.node)) or any(isinstance(x, ast.Call) and norm(x.func) in ("max", "min", "abs") for x in ast.walk(ds_.node))
                if not ranged:
                    rep.violation("JSON", "schemas/event.json", f"key {k}", f"the schema constrains `duration` with {({x: decl[x] for x in extra})} but the model stores any timedelta it is given (the setter applies no range test) and emits its total_seconds(): an event with a duration outside the constraint (e.g. a negative one) has a JSON form that no longer validates against the published schema", "aw_core/schemas/event.json", expected="type number, no range", found=str({x: decl[x] for x in extra}))
                    continue
            if extra:
                rep.undecided("JSON", "schemas/event.json", f"key {k}", f"the schema constrains `{k}` with {extra}, which this analysis does not relate to the values the model emits", "aw_core/schemas/event.json")
    except Exception as e:
        rep.error(f"anchor vanished: aw_core/schemas/event.json ({e})")
    tj = prog.func("Event.to_json_str")
    from ..trace import deep as _deep

    rj = [n for n in walk_own(tj.node) if isinstance(n, ast.Return) and n.value is not None]
    okj = len(rj) == 1 and norm(_deep(rj[0].value, tj)) in ("json.dumps(self.to_json_dict())",)
    rep.check(okj, "JSON", tj.short, "string form", "json.dumps(self.to_json_dict())", f"to_json_str returns `{norm(_deep(rj[0].value, tj)) if rj else ''}`: the string form is not the JSON text of to_json_dict() (extra dumps options such as default=str / sort_keys / a different dict change what a reader parses back)", tj.loc())
    eq = prog.func("Event.__eq__")
    t = norm(eq.node)
    cmp_fields = [f for f in ("timestamp", "duration", "data") if f"self.{f} == other.{f}" in t]
    rep.check(len(cmp_fields) == 3, "JSON", eq.short, "equality", "timestamp, duration and data", f"__eq__ compares only {cmp_fields}", eq.loc())
    # getters read the same keys the setters write
    for f in FIELDS:
        gt = prog.func(f"Event.{f}")
        tg = norm(gt.node)
        rep.check(f"self['{f}']" in tg or f"self.get('{f}'" in tg, "JSON", gt.short, "getter", f"reads self['{f}']", f"the {f} getter does not read the key its setter writes", gt.loc())


def check(prog, rep):
    rep.level = "other"
    rep.explanation = (
        "Decided: every store to an Event's timestamp/duration/data/id goes through the four property setters (who-may-write over all packages, "
        "with a positive fixture); the timestamp setter's value passes, on every path, through iso8601 parsing for strings, a floor-to-1000 "
        "microsecond idiom, UTC attachment exactly for naive values and astimezone(UTC); the duration setter is a total type dispatch; "
        "to_json_dict / Event.__init__ / the schema / __eq__ agree on keys and encodings. Numeric round trips are NOT decided."
    )
    rep.trusted_base = ["iso8601.parse_date", "datetime.replace / astimezone semantics", "int(x / 1000) * 1000 floors for 0 <= x < 10**6"]
    rep.not_decided = ["microsecond-exact float round trip of durations", "the 10^6 microsecond values", "the year range", "iso8601's parsing of every offset"]
    single_writer(prog, rep)
    normalisation(prog, rep)
    duration_dispatch(prog, rep)
    json_agreement(prog, rep)
    # nothing on the way is memoised on a key that does not determine the answer
    from ..rules_own import memo_rule

    memo_rule(prog, rep, rule="MEMO")


VARIANTS = [
    ("B schema types the members of data without null", "aw_core/schemas/event.json", '\t\t"data": {\n\t\t\t"type": "object"\n', '\t\t"data": {\n\t\t\t"type": "object",\n\t\t\t"additionalProperties": {"type": ["string", "number", "boolean", "array", "object"]}\n', "JSON"),
    ("OK schema spells out that members of data may be any JSON value", "aw_core/schemas/event.json", '\t\t"data": {\n\t\t\t"type": "object"\n', '\t\t"data": {\n\t\t\t"type": "object",\n\t\t\t"additionalProperties": {"type": ["string", "number", "boolean", "array", "object", "null"]}\n', "ok"),
    ("B floor replaced by round", M, "ts.replace(microsecond=int(ts.microsecond / 1000) * 1000)", "ts.replace(microsecond=round(ts.microsecond / 1000) * 1000)", "NORMALISE"),
    ("B floor to 100 us", M, "ts.replace(microsecond=int(ts.microsecond / 1000) * 1000)", "ts.replace(microsecond=int(ts.microsecond / 100) * 100)", "NORMALISE"),
    ("B floor only for strings", M, "    ts = ts.replace(microsecond=int(ts.microsecond / 1000) * 1000)\n", "    if isinstance(ts_in, str):\n        ts = ts.replace(microsecond=int(ts.microsecond / 1000) * 1000)\n", "NORMALISE"),
    ("B astimezone dropped from the setter", M, 'self["timestamp"] = _timestamp_parse(timestamp).astimezone(timezone.utc)', 'self["timestamp"] = _timestamp_parse(timestamp)', "NORMALISE"),
    ("B tz replaced for aware values too", M, "    if not ts.tzinfo:\n", "    if True:\n", "NORMALISE"),
    ("B foreign write in a transform", "aw_transform/flood.py", "                    e2.timestamp = e2_end\n", '                    e2["timestamp"] = e2_end\n', "ONE-WRITER"),
    ("B init bypasses the setter", M, "            self.timestamp = _timestamp_parse(timestamp)", '            self["timestamp"] = timestamp', "ONE-WRITER"),
    ("B numbers stored as milliseconds", M, 'self["duration"] = timedelta(seconds=duration)', 'self["duration"] = timedelta(milliseconds=duration)', "DURATION"),
    ("B other types accepted silently", M, '            raise TypeError(f"Couldn\'t parse duration of invalid type {type(duration)}")', '            self["duration"] = timedelta(0)', "DURATION"),
    ("B schema gives duration a minimum the model does not enforce", "aw_core/schemas/event.json", '            "type": "number"\n\t\t},\n\t\t"data"', '            "type": "number",\n            "minimum": 0\n\t\t},\n\t\t"data"', "JSON"),
    ("B schema restricts id to integers (the model allows strings)", "aw_core/schemas/event.json", '\t"properties": {\n', '\t"properties": {\n\t\t"id": {"type": ["integer", "null"]},\n', "JSON"),
    ("OK schema documents id with every type the model allows", "aw_core/schemas/event.json", '\t"properties": {\n', '\t"properties": {\n\t\t"id": {"type": ["integer", "string", "null"]},\n', "ok"),
    ("B to_json_str serialises the raw dict (datetime via default=str)", M, "        data = self.to_json_dict()\n        return json.dumps(data)", "        return json.dumps(dict(self), default=str)", "JSON"),
    ("B duration emitted as string", M, 'json_data["duration"] = self.duration.total_seconds()', 'json_data["duration"] = str(self.duration.total_seconds())', "JSON"),
    ("B timestamp emitted in local zone", M, 'json_data["timestamp"] = self.timestamp.astimezone(timezone.utc).isoformat()', 'json_data["timestamp"] = self.timestamp.astimezone().isoformat()', "JSON"),
    ("B equality ignores data", M, "                and self.data == other.data\n", "", "JSON"),
    ("OK floor via floor division", M, "int(ts.microsecond / 1000) * 1000", "ts.microsecond // 1000 * 1000", "ok"),
    ("OK floor via modulo", M, "int(ts.microsecond / 1000) * 1000", "ts.microsecond - ts.microsecond % 1000", "ok"),
    ("OK tzinfo is None", M, "    if not ts.tzinfo:\n", "    if ts.tzinfo is None:\n", "ok"),
]
