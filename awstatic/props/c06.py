"""C06 — after a crash: a prefix of what was done, minus a bounded tail.

Decided statically: the commit *discipline* of the lazily-committing sqlite store (D1 a-f)
and the absence of transaction-opening constructs in the auto-committing peewee store (D2).
Not decided: that SQLite/WAL really loses exactly the statements since the last commit.
"""
import ast

from ..model import norm, walk_with_nested_exprs
from ..rules_commit import check_commit_discipline

TXN_ATTRS = ("atomic", "transaction", "manual_commit", "savepoint", "begin", "rollback", "session_start", "session_rollback")
EXEMPT = {"auto_migrate": "module function run on its own short-lived connection for a start-up schema change, not part of any storage operation"}


def check(prog, rep):
    rep.level = "proof"
    rep.explanation = (
        "Commit discipline of SqliteStorage decided by must-pass-through / dominance queries on each method's CFG "
        "(E1) over the DML statements classified by the embedded-SQL model (E3); PeeweeStorage checked for absence of "
        "transaction-opening constructs. Argument: SQLite makes exactly the statements since the last conn.commit() vanish "
        "together, each statement atomically; with rules COMMIT-A..F every event-level call returns with the counter <= threshold "
        "and the counter counts every buffered row, so at most `threshold` acknowledged writes are uncommitted; bucket-level "
        "calls return with none."
    )
    rep.trusted_base = [
        "SQLite implicit transactions + WAL: statements since the last commit roll back together, each statement is atomic",
        "python sqlite3 default isolation_level opens the transaction at the first DML statement",
        "peewee autocommits each statement outside atomic()/transaction()/manual_commit()",
    ]
    rep.not_decided = ["behaviour of the file under SIGKILL / fsync (trusted)", "peewee internals"]
    check_commit_discipline(prog, rep)

    # D2: auto-committing store opens no transaction
    rep.rule("AUTOCOMMIT", "no PeeweeStorage method (nor module-level database construction) uses atomic/transaction/manual_commit/savepoint/begin/rollback or autocommit=False")
    mi = prog.module("aw_datastore.storages.peewee")
    scanned = 0
    hits = 0
    for fi in prog.funcs.values():
        if fi.mod is not mi:
            continue
        scanned += 1
        rep.unit("functions", fi.qname)
        for n in walk_with_nested_exprs(fi.node):
            if isinstance(n, ast.Call) and isinstance(n.func, ast.Attribute) and n.func.attr in TXN_ATTRS:
                if fi.short in EXEMPT:
                    rep.note(f"{fi.short}: {norm(n.func)}() exempt: {EXEMPT[fi.short]}")
                    continue
                hits += 1
                rep.violation("AUTOCOMMIT", fi.short, f".{n.func.attr}()", "a transaction is opened in the auto-committing store: completed operations inside it are not durable until it ends, and a crash loses them together", fi.loc(n))
            if isinstance(n, ast.keyword) and n.arg == "autocommit" and isinstance(n.value, ast.Constant) and n.value.value is False:
                hits += 1
                rep.violation("AUTOCOMMIT", fi.short, "autocommit=False", "autocommit disabled", fi.loc(n.value))
    for name, e in mi.consts.items():
        for n in ast.walk(e):
            if isinstance(n, ast.keyword) and n.arg == "autocommit" and isinstance(n.value, ast.Constant) and n.value.value is False:
                hits += 1
                rep.violation("AUTOCOMMIT", f"module {mi.name}", f"{name} = ...autocommit=False", "autocommit disabled on the shared database object", f"{mi.relpath}:{e.lineno}")
    rep.floor("peewee module functions scanned", scanned, 20)
    if not hits:
        rep.ok("AUTOCOMMIT", "PeeweeStorage", "transaction constructs", f"0 in {scanned} functions", mi.relpath)
    # positive fixture: the rule must be able to match
    import os
    fx = os.path.join(os.path.dirname(os.path.dirname(os.path.dirname(__file__))), "fixtures", "peewee_atomic.py")
    t = ast.parse(open(fx).read())
    m = [n for n in ast.walk(t) if isinstance(n, ast.Call) and isinstance(n.func, ast.Attribute) and n.func.attr in TXN_ATTRS]
    if not m:
        rep.error("positive fixture fixtures/peewee_atomic.py no longer matches the AUTOCOMMIT rule")
    rep.extra["fixture_matches"] = len(m)
