"""C06 — after a crash: a prefix of what was done, minus a bounded tail.

Decided statically: the commit *discipline* of the lazily-committing sqlite store (D1 a-f)
and the absence of transaction-opening constructs in the auto-committing peewee store (D2).
Not decided: that SQLite/WAL really loses exactly the statements since the last commit.
"""
import ast

from ..model import norm, walk_with_nested_exprs
from ..rules_commit import check_commit_discipline, check_no_rollback

TXN_ATTRS = ("atomic", "transaction", "manual_commit", "savepoint", "begin", "rollback", "session_start", "session_rollback")
EXEMPT = {"auto_migrate": "module function run on its own short-lived connection for a start-up schema change, not part of any storage operation"}


def check(prog, rep):
    rep.level = "proof"
    rep.explanation = (
        "Commit discipline of SqliteStorage decided by must-pass-through / dominance queries on each method's CFG "
        "(E1) over the DML statements classified by the embedded-SQL model (E3); PeeweeStorage checked for absence of "
        "transaction-opening constructs. Argument: SQLite makes exactly the statements since the last conn.commit() vanish "
        "together, each statement atomically; with rules COMMIT-A..F every event-level call returns with the counter <= threshold "
        "and the counter counts every buffered row, so at most `threshold` acknowledged writes are uncommitted; bucket-level "
        "calls return with none."
    )
    rep.trusted_base = [
        "SQLite implicit transactions + WAL: statements since the last commit roll back together, each statement is atomic",
        "python sqlite3 default isolation_level opens the transaction at the first DML statement",
        "peewee autocommits each statement outside atomic()/transaction()/manual_commit()",
    ]
    rep.not_decided = ["behaviour of the file under SIGKILL / fsync (trusted)", "peewee internals"]
    check_commit_discipline(prog, rep)
    check_no_rollback(prog, rep)
    # a statement that fails half way (a constraint the interface does not have) leaves rows pending that nothing counted
    from ..rules_store import ddl_facts

    ddl_facts(prog, rep)

    # D2: auto-committing store opens no transaction
    rep.rule("AUTOCOMMIT", "no PeeweeStorage method (nor module-level database construction) uses atomic/transaction/manual_commit/savepoint/begin/rollback or autocommit=False")
    mi = prog.module("aw_datastore.storages.peewee")
    scanned = 0
    hits = 0
    for fi in prog.funcs.values():
        if fi.mod is not mi:
            continue
        scanned += 1
        rep.unit("functions", fi.qname)
        for n in walk_with_nested_exprs(fi.node):
            if isinstance(n, ast.Call) and isinstance(n.func, ast.Attribute) and n.func.attr in TXN_ATTRS:
                if fi.short in EXEMPT:
                    rep.note(f"{fi.short}: {norm(n.func)}() exempt: {EXEMPT[fi.short]}")
                    continue
                hits += 1
                rep.violation("AUTOCOMMIT", fi.short, f".{n.func.attr}()", "a transaction is opened in the auto-committing store: completed operations inside it are not durable until it ends, and a crash loses them together", fi.loc(n))
            if isinstance(n, ast.keyword) and n.arg == "autocommit" and isinstance(n.value, ast.Constant) and n.value.value is False:
                hits += 1
                rep.violation("AUTOCOMMIT", fi.short, "autocommit=False", "autocommit disabled", fi.loc(n.value))
    for name, e in mi.consts.items():
        for n in ast.walk(e):
            if isinstance(n, ast.keyword) and n.arg == "autocommit" and isinstance(n.value, ast.Constant) and n.value.value is False:
                hits += 1
                rep.violation("AUTOCOMMIT", f"module {mi.name}", f"{name} = ...autocommit=False", "autocommit disabled on the shared database object", f"{mi.relpath}:{e.lineno}")
    rep.floor("peewee module functions scanned", scanned, 20)
    if not hits:
        rep.ok("AUTOCOMMIT", "PeeweeStorage", "transaction constructs", f"0 in {scanned} functions", mi.relpath)
    # each statement is its own commit there: a single-event operation must therefore be ONE writing statement per path
    rep.rule("PW-ATOMIC", "on the auto-committing store every path through insert_one / replace / replace_last / delete / create_bucket / update_bucket (one event, one bucket row: one elementary write) executes at most one writing statement (save / create / delete_instance / an executed insert-update-delete chain), directly or through the one self-method it delegates to: two statements are two commits, and a crash between them leaves a state that is no prefix of the issued writes")
    from ..cfg import cfg_of

    pcls = prog.cls("PeeweeStorage")

    def write_nodes(fi):
        out = []
        for n in walk_with_nested_exprs(fi.node):
            if isinstance(n, ast.Call) and isinstance(n.func, ast.Attribute):
                a = n.func.attr
                if a in ("save", "create", "delete_instance", "insert_many", "bulk_create", "bulk_update"):
                    out.append(n)
                elif a == "execute" and any(isinstance(x, ast.Call) and isinstance(x.func, ast.Attribute) and x.func.attr in ("delete", "update", "insert", "replace", "insert_many") for x in ast.walk(n.func.value)):
                    out.append(n)
                elif isinstance(n.func.value, ast.Name) and n.func.value.id == "self" and a in ("insert_one", "replace", "replace_last", "delete", "insert_many", "create_bucket", "update_bucket", "delete_bucket"):
                    out.append(n)
        return out

    for m in ("insert_one", "replace", "replace_last", "delete", "create_bucket", "update_bucket"):
        fi = pcls.methods.get(m)
        if fi is None:
            continue
        g = cfg_of(fi)
        ws = write_nodes(fi)
        nodes = [g.node_of(w) for w in ws]
        twice = None
        for i, a in enumerate(nodes):
            after = g.reach_avoiding([a])
            for j, b in enumerate(nodes):
                if b in after and (i != j or a in after):
                    twice = (ws[i], ws[j])
        rep.check(twice is None, "PW-ATOMIC", fi.short, "one writing statement per path", f"{len(ws)} writing call site(s), no two on one path", f"`{norm(twice[0])[:50]}` and then `{norm(twice[1])[:50]}` run on the same path: on the auto-committing store these are two commits, so a crash in between leaves the event half-rewritten (e.g. deleted but not re-inserted), a state no prefix of the issued writes produces" if twice else "", fi.loc(twice[1]) if twice else fi.loc())
    # a bucket-level operation on the store that commits every statement: the order of its statements is the order of the
    # states a crash can leave behind
    rep.rule("PW-ORDER", "PeeweeStorage.delete_bucket removes the bucket's event rows before the bucket row (every path): every state a crash can leave has each event row under an existing bucket row; with the bucket row gone first the events stay behind under a key that the next bucket created is given, and show up in it")
    from ..sqlmodel import peewee_chains

    fi = pcls.methods.get("delete_bucket")
    if fi is not None:
        g = cfg_of(fi)
        ch = [c for c in peewee_chains(prog) if c.fi is fi and c.op in ("delete", "delete_instance", "truncate_table", "delete_by_id")]
        ev = [c for c in ch if c.model == "EventModel"]
        bk = [c for c in ch if c.model == "BucketModel"]
        if not bk:
            rep.undecided("PW-ORDER", fi.short, "statement order", "no BucketModel delete chain found in delete_bucket", fi.loc())
        elif not ev:
            rep.violation("PW-ORDER", fi.short, "statement order", "delete_bucket removes the bucket row but never the bucket's events: they stay behind under the old key", fi.loc())
        else:
            bad = None
            for b in bk:
                bn = g.node_of(b.node)
                for e in ev:
                    en = g.node_of(e.node)
                    if en in g.reach_avoiding([bn]) and bn not in g.reach_avoiding([en]):
                        bad = bad or (b, e)
                ok_dom = all(any(g.dominates(g.node_of(e.node), bn) for e in ev) for _ in [0])
                if not ok_dom and bad is None:
                    bad = (b, None)
            rep.check(bad is None, "PW-ORDER", fi.short, "statement order", "events deleted first, bucket row last", (f"`{bad[0].text()[:60]}` runs " + (f"before `{bad[1].text()[:60]}`" if bad[1] is not None else "on a path on which the events were not deleted before") + ": each statement is its own commit here, so a crash in between leaves the bucket's events without a bucket row; the key is handed to the next bucket created, which then shows events never inserted into it") if bad else "", fi.loc(bad[0].node) if bad else fi.loc())
    # positive fixture: the rule must be able to match
    import os
    fx = os.path.join(os.path.dirname(os.path.dirname(os.path.dirname(__file__))), "fixtures", "peewee_atomic.py")
    t = ast.parse(open(fx).read())
    m = [n for n in ast.walk(t) if isinstance(n, ast.Call) and isinstance(n.func, ast.Attribute) and n.func.attr in TXN_ATTRS]
    if not m:
        rep.error("positive fixture fixtures/peewee_atomic.py no longer matches the AUTOCOMMIT rule")
    rep.extra["fixture_matches"] = len(m)
    # the commit bookkeeping (counter, time of the last flush) belongs to one store: nothing of it is shared between instances
    from ..rules_store import instance_state

    instance_state(prog, rep)


SQ = "aw_datastore/storages/sqlite.py"
PW = "aw_datastore/storages/peewee.py"
VARIANTS = [
    ("B journal kept in memory", "aw_datastore/storages/sqlite.py", 'self.conn.execute("PRAGMA journal_mode=WAL;")', 'self.conn.execute("PRAGMA journal_mode=MEMORY;")', "CONN"),
    ("OK journal mode DELETE", "aw_datastore/storages/sqlite.py", 'self.conn.execute("PRAGMA journal_mode=WAL;")', 'self.conn.execute("PRAGMA journal_mode=DELETE;")', "ok"),
    ("B stale -wal file removed before connecting", "aw_datastore/storages/sqlite.py", "        self.conn = sqlite3.connect(filepath)\n", "        if os.path.exists(filepath + \"-wal\"):\n            os.remove(filepath + \"-wal\")\n        self.conn = sqlite3.connect(filepath)\n", "CONN"),
    {"name": "B connections shared through a module-level table", "edits": [("aw_datastore/storages/sqlite.py", "def _rows_to_events(", "_conns: dict = {}\n\n\ndef _rows_to_events("), ("aw_datastore/storages/sqlite.py", "        self.conn = sqlite3.connect(filepath)\n", "        if filepath not in _conns:\n            _conns[filepath] = sqlite3.connect(filepath)\n        self.conn = _conns[filepath]\n")], "expect": "CONN"},
    ("B peewee delete_bucket removes the bucket row first", "aw_datastore/storages/peewee.py", "            EventModel.delete().where(\n                EventModel.bucket == self.bucket_keys[bucket_id]\n            ).execute()\n            BucketModel.delete().where(\n                BucketModel.key == self.bucket_keys[bucket_id]\n            ).execute()\n", "            BucketModel.delete().where(\n                BucketModel.key == self.bucket_keys[bucket_id]\n            ).execute()\n            EventModel.delete().where(\n                EventModel.bucket == self.bucket_keys[bucket_id]\n            ).execute()\n", "PW-ORDER"),
    ("B lazy flag defaults through `or True`", "aw_datastore/storages/sqlite.py", "        self.enable_lazy_commit = enable_lazy_commit\n", "        self.enable_lazy_commit = enable_lazy_commit or True\n", "COMMIT-C"),
    ("B autocommit connection", "aw_datastore/storages/sqlite.py", "sqlite3.connect(filepath)", "sqlite3.connect(filepath, isolation_level=None)", "COMMIT-F"),

    ("B peewee create_bucket writes the row and then its data in a second statement", PW, "            datastr=json.dumps(data or {}),\n        )\n        self.update_bucket_keys()\n", "            datastr=\"{}\",\n        )\n        self.update_bucket_keys()\n        if data:\n            self.update_bucket(bucket_id, data=data)\n", "PW-ATOMIC"),
    {"name": "B one threshold attribute for both modes: 1 when not lazy, tested with >", "edits": [(SQ, "        self.enable_lazy_commit = enable_lazy_commit\n", "        self.enable_lazy_commit = enable_lazy_commit\n        self.commit_threshold = 50 if enable_lazy_commit else 1\n"), (SQ, "        if self.enable_lazy_commit:\n            self.num_uncommitted_statements += num_statements\n            if self.num_uncommitted_statements > 50:\n                self.commit()\n            if (datetime.now() - self.last_commit) > timedelta(seconds=10):\n                self.commit()\n        else:\n            self.commit()\n", "        self.num_uncommitted_statements += num_statements\n        if self.num_uncommitted_statements > self.commit_threshold:\n            self.commit()\n        elif (datetime.now() - self.last_commit) > timedelta(seconds=10):\n            self.commit()\n")], "expect": "COMMIT-C"},
    {"name": "OK one threshold attribute for both modes: 0 when not lazy", "edits": [(SQ, "        self.enable_lazy_commit = enable_lazy_commit\n", "        self.enable_lazy_commit = enable_lazy_commit\n        self.commit_threshold = 50 if enable_lazy_commit else 0\n"), (SQ, "        if self.enable_lazy_commit:\n            self.num_uncommitted_statements += num_statements\n            if self.num_uncommitted_statements > 50:\n                self.commit()\n            if (datetime.now() - self.last_commit) > timedelta(seconds=10):\n                self.commit()\n        else:\n            self.commit()\n", "        self.num_uncommitted_statements += num_statements\n        if self.num_uncommitted_statements > self.commit_threshold:\n            self.commit()\n        elif (datetime.now() - self.last_commit) > timedelta(seconds=10):\n            self.commit()\n")], "expect": "ok"},
    ("B chunked bulk insert counts each chunk BEFORE writing it (last chunk never counted after it is written)", SQ, "        self.conn.executemany(query, event_rows)\n        self.conditional_commit(len(event_rows))\n", "        for i in range(0, len(event_rows), 100):\n            chunk = event_rows[i : i + 100]\n            self.conditional_commit(len(chunk))\n            self.conn.executemany(query, chunk)\n", "COMMIT-B"),
    ("OK chunked bulk insert, each chunk counted after it is written", SQ, "        self.conn.executemany(query, event_rows)\n        self.conditional_commit(len(event_rows))\n", "        for i in range(0, len(event_rows), 100):\n            chunk = event_rows[i : i + 100]\n            self.conn.executemany(query, chunk)\n            self.conditional_commit(len(chunk))\n", "ok"),
    ("B peewee replace = delete + insert (two commits)", PW, "        e = self._get_event(bucket_id, event_id)\n        e.timestamp = event.timestamp\n        e.duration = event.duration.total_seconds()\n        e.datastr = json.dumps(event.data)\n        e.save()\n        event.id = e.id\n        return event\n\n    def get_event", "        old = self._get_event(bucket_id, event_id)\n        old.delete_instance()\n        event.id = event_id\n        e = EventModel.from_event(self.bucket_keys[bucket_id], event)\n        e.save(force_insert=True)\n        return event\n\n    def get_event", "PW-ATOMIC"),
    ("B commit() swallows a failed flush and stamps anyway", SQ, "        self.conn.commit()\n        self.last_commit = datetime.now()", "        try:\n            self.conn.commit()\n        except sqlite3.OperationalError as e:\n            logger.warning(f\"Commit failed: {e}\")\n        self.last_commit = datetime.now()", "COMMIT-D"),
    ("B delete without conditional_commit (original defect)", SQ, "        cursor = self.conn.execute(query, [event_id, bucket_id])\n        self.conditional_commit(1)\n", "        cursor = self.conn.execute(query, [event_id, bucket_id])\n", "COMMIT-B"),
    ("B create_bucket not committed", SQ, "                json.dumps(data or {}),\n            ],\n        )\n        self.commit()\n", "                json.dumps(data or {}),\n            ],\n        )\n", "COMMIT-A"),
    ("B replace early return before commit", SQ, "        self.conn.execute(\n            query, [bucket_id, starttime, endtime, datastr, event_id, bucket_id]\n        )\n        self.conditional_commit(1)", "        cur = self.conn.execute(\n            query, [bucket_id, starttime, endtime, datastr, event_id, bucket_id]\n        )\n        if cur.rowcount == 0:\n            return False\n        self.conditional_commit(1)", "COMMIT-B"),
    ("B threshold 5000", SQ, "if self.num_uncommitted_statements > 50:", "if self.num_uncommitted_statements > 5000:", "COMMIT-C"),
    ("B counter not reset", SQ, "        self.last_commit = datetime.now()\n        self.num_uncommitted_statements = 0\n\n    def conditional_commit", "        self.last_commit = datetime.now()\n\n    def conditional_commit", "COMMIT-D"),
    ("B insert_many counts one statement", SQ, "self.conditional_commit(len(event_rows))", "self.conditional_commit(1)", "COMMIT-B"),
    ("B counter counts calls not statements", SQ, "self.num_uncommitted_statements += num_statements", "self.num_uncommitted_statements += 1", "COMMIT-C"),
    ("B commit between the two deletes of delete_bucket", SQ, "            [bucket_id],\n        )\n        cursor = self.conn.execute(\"DELETE FROM buckets WHERE id = ?\", [bucket_id])", "            [bucket_id],\n        )\n        self.commit()\n        cursor = self.conn.execute(\"DELETE FROM buckets WHERE id = ?\", [bucket_id])", "COMMIT-A"),
    ("B threshold tested before the increment", SQ, "            self.num_uncommitted_statements += num_statements\n            if self.num_uncommitted_statements > 50:\n                self.commit()\n", "            if self.num_uncommitted_statements > 50:\n                self.commit()\n            self.num_uncommitted_statements += num_statements\n", "COMMIT-C"),
    ("B non-lazy mode never commits", SQ, "        else:\n            self.commit()\n\n    def buckets", "        else:\n            pass\n\n    def buckets", "COMMIT-C"),
    ("B peewee bulk insert inside atomic()", PW, "        for chunk in chunks(events_dictlist, 100):\n            EventModel.insert_many(chunk).execute()", "        with self.db.atomic():\n            for chunk in chunks(events_dictlist, 100):\n                EventModel.insert_many(chunk).execute()", "AUTOCOMMIT"),
    ("B raw conn.commit in a write method", SQ, "        event.id = c.lastrowid\n        self.conditional_commit(1)", "        event.id = c.lastrowid\n        self.conn.commit()\n        self.conditional_commit(1)", "COMMIT-F"),
    ("OK commit() instead of conditional_commit in delete", SQ, "        cursor = self.conn.execute(query, [event_id, bucket_id])\n        self.conditional_commit(1)\n", "        cursor = self.conn.execute(query, [event_id, bucket_id])\n        self.commit()\n", "ok"),
    ("OK threshold 40 with >=", SQ, "if self.num_uncommitted_statements > 50:", "if self.num_uncommitted_statements >= 40:", "ok"),
    ("OK chunk size 500 (chunking is irrelevant to durability)", PW, "chunks(events_dictlist, 100)", "chunks(events_dictlist, 500)", "ok"),
]
