"""C10 — flood (decidable clauses: input untouched, positive-length output, threshold, per-branch post-conditions)."""
import ast

from ..affine import Env, Form, Lit, NonAffine, lin, literal
from ..model import norm, walk_own
from ..paths import seed_state, summarize
from ..rules_own import purity_rule
from ..sqlmodel import single_def

F = "aw_transform/flood.py"


def output_filter(prog, rep):
    rep.rule("POSITIVE", "flood returns the comprehension [e for e in events if e.duration > 0] over the swept list, after the sweep")
    fi = prog.func("flood")
    rets = [n for n in fi.node.body if isinstance(n, ast.Return)]
    loops = [n for n in fi.node.body if isinstance(n, ast.For)]
    # any other way out must hand back nothing at all (an empty list literal): everything else bypasses the filter
    early = [n for n in walk_own(fi.node) if isinstance(n, ast.Return) and n not in rets]
    for r in early:
        empty = isinstance(r.value, ast.List) and not r.value.elts
        rep.check(empty, "POSITIVE", fi.short, f"early return {norm(r)[:50]}", "returns the empty list", f"`{norm(r)}` leaves flood before the sweep and the positive-duration filter: zero-length events in the input are returned as they are", fi.loc(r))
    # event fields may be rewritten only inside the sweep (where THRESHOLD / FILL bound what happens): any other loop that
    # assigns timestamp / duration closes or opens time without a gap test
    if loops:
        sweep = loops[0]
        for other in [n for n in walk_own(fi.node) if isinstance(n, (ast.For, ast.While)) and n is not sweep and not any(n is x for x in ast.walk(sweep))]:
            ws = [a for a in ast.walk(other) if isinstance(a, (ast.Assign, ast.AugAssign)) and any(isinstance(t, ast.Attribute) and t.attr in ("timestamp", "duration") for t in (a.targets if isinstance(a, ast.Assign) else [a.target]))]
            if ws:
                rep.violation("POSITIVE", fi.short, f"second pass at line {other.lineno}", f"`{norm(ws[0])[:70]}` rewrites event fields outside the sweep: nothing there compares the distance between the events with the pulsetime, so neighbours further apart than the pulsetime can be joined (or time lost)", fi.loc(ws[0]))
        loops = loops[:1] if all(not any(isinstance(a, (ast.Assign, ast.AugAssign)) for a in ast.walk(l)) or l is loops[0] for l in loops) else loops
    if len(rets) != 1 or len(loops) != 1:
        rep.undecided("POSITIVE", fi.short, "return", f"{len(rets)} returns / {len(loops)} loops", fi.loc())
        return
    rv = rets[0].value
    comp = rv
    if isinstance(rv, ast.Name):
        defs = [n for n in fi.node.body if isinstance(n, ast.Assign) and norm(n.targets[0]) == rv.id and n.lineno > loops[0].lineno]
        comp = defs[-1].value if defs else None
    ok = False
    why = "the returned list is not filtered by positive duration after the sweep"
    if isinstance(comp, ast.ListComp) and len(comp.generators) == 1:
        g = comp.generators[0]
        v = norm(g.target)
        if norm(comp.elt) == v and len(g.ifs) == 1 and norm(g.iter) == "events":
            try:
                lit = literal(g.ifs[0], Env(fi, prog, inline_locals=False))
                ok = lit == Lit(-Form.atom(f"{v}.duration"), "<")
                if not ok:
                    why = f"the output filter is `{norm(g.ifs[0])}` ({lit!r}), not duration > 0: zero-length (or negative) events are returned"
            except NonAffine as e:
                why = f"output filter not affine: {e}"
    rep.check(ok, "POSITIVE", fi.short, "output filter", "e.duration > 0", why, fi.loc(rets[0]))


def sweep_rules(prog, rep):
    rep.rule("THRESHOLD", "pairs are consecutive elements of the list sorted by timestamp; the fill branch is entered on gap <= pulsetime (non-strict) with gap = e2.ts - (e1.ts + e1.dur); every other gap literal on a fill path is a lower bound that every positive gap satisfies")
    rep.rule("FILL-NEXT", "in every fill sub-branch the right neighbour's end is preserved (e2.ts' + e2.dur' = e2.ts + e2.dur): e2 is the left element of the next pair, so the next gap is measured from its end; an emptied e2 must be parked at the merged end")
    rep.rule("FILL", "per fill sub-branch (constant propagation of affine forms): differing data => e1.ts' + e1.dur' = e2.ts', e1.ts' = e1.ts, e2.end' = e2.end (gap closed, nothing lost, no overlap created); equal data => one of the two covers [e1.ts, e2.end] and the other has duration 0")
    fi = prog.func("flood")
    loops = [n for n in fi.node.body if isinstance(n, ast.For)]
    lp = loops[0]
    # pairs
    okp = norm(lp.iter) in ("zip(events[:-1], events[1:])", "zip(events, events[1:])", "pairwise(events)", "itertools.pairwise(events)") and isinstance(lp.target, ast.Tuple) and len(lp.target.elts) == 2
    pre = [norm(s) for s in fi.node.body if s.lineno < lp.lineno]
    oks = any(t in ("events = sorted(events, key=lambda e: e.timestamp)", "events = sorted(events)", "events.sort(key=lambda e: e.timestamp)") for t in pre)
    rep.check(okp and oks, "THRESHOLD", fi.short, "pairs", "consecutive elements of the list sorted by timestamp", f"pairs are not consecutive elements of the timestamp-sorted list (iter `{norm(lp.iter)}`, sorted: {oks})", fi.loc(lp))
    # ... of ALL the input events: a zero-length event is a neighbour like any other (the gaps on either side of it are
    # measured to it), so nothing may be dropped from the list before the sweep
    pname = fi.params[0]
    for s_ in [x for x in fi.node.body if x.lineno < lp.lineno and isinstance(x, ast.Assign) and len(x.targets) == 1 and norm(x.targets[0]) == pname]:
        v = s_.value
        drops = [n for n in ast.walk(v) if (isinstance(n, (ast.ListComp, ast.GeneratorExp)) and any(g_.ifs for g_ in n.generators)) or (isinstance(n, ast.Call) and norm(n.func) in ("filter", "itertools.filterfalse", "filterfalse", "itertools.takewhile", "takewhile", "itertools.dropwhile", "dropwhile")) or (isinstance(n, ast.Subscript) and isinstance(n.slice, ast.Slice))]
        if drops:
            rep.violation("THRESHOLD", fi.short, f"input filtered before the sweep: {norm(drops[0])[:50]}", f"`{norm(s_)[:90]}` drops events from the list before the pairs are formed: the neighbours of a dropped event (e.g. a zero-length one) are then paired with each other, their gap is the sum of the two gaps, and short gaps on either side of it are left open when that sum exceeds the pulsetime", fi.loc(s_))
        else:
            keeps = isinstance(v, ast.Call) and norm(v.func) in ("deepcopy", "copy.deepcopy", "sorted", "list", "copy.copy", "copy") and v.args and all(isinstance(n, (ast.Name, ast.Call, ast.Attribute, ast.Load, ast.keyword, ast.Lambda, ast.arguments, ast.arg, ast.Constant)) for n in ast.walk(v))
            if not keeps:
                rep.undecided("THRESHOLD", fi.short, f"re-binding of {pname} before the sweep", f"cannot see that `{norm(s_)[:80]}` keeps every input event", fi.loc(s_))
    if not okp:
        return
    e1, e2 = [norm(x) for x in lp.target.elts]
    from ..sqlmodel import local_defs

    pt = fi.params[1] if len(fi.params) > 1 else "pulsetime"
    rb = local_defs(fi, pt)
    rep.check(not rb, "THRESHOLD", fi.short, "pulsetime used as given", f"`{pt}` is not re-bound", f"`{pt}` is re-bound (`{norm(rb[0]) if rb else ''}`): the threshold is no longer the caller's pulsetime (e.g. `pulsetime or DEFAULT` turns 0 into the default and closes gaps longer than asked for)", fi.loc(rb[0]) if rb else fi.loc())
    env = Env(fi, prog, inline_locals=False)

    def data_eq(e):
        if isinstance(e, ast.Compare) and len(e.ops) == 1 and isinstance(e.ops[0], (ast.Eq, ast.NotEq)) and {norm(e.left), norm(e.comparators[0])} == {f"{e1}.data", f"{e2}.data"}:
            return ("DATA_EQ", isinstance(e.ops[0], ast.Eq))
        return None

    try:
        pre_stmts = [s for s in fi.node.body if s.lineno < lp.lineno]
        sums, g = summarize(fi=None, body=lp.body, env=env, data_eq=data_eq, limit=4000, init_state=seed_state(pre_stmts, env), dnf=True)
    except Exception as ex:
        rep.undecided("FILL", fi.short, "paths", f"cannot enumerate loop-body paths: {ex}", fi.loc(lp))
        return
    T1, D1, T2, D2 = Form.atom(f"{e1}.timestamp"), Form.atom(f"{e1}.duration"), Form.atom(f"{e2}.timestamp"), Form.atom(f"{e2}.duration")
    G = T2 - T1 - D1
    P = Form.atom("pulsetime")
    rep.unit("paths", f"flood loop body: {len(sums)} paths")
    fields = (f"{e1}.timestamp", f"{e1}.duration", f"{e2}.timestamp", f"{e2}.duration")
    n_fill = 0
    seen = set()
    n_skip = 0
    for s in sums:
        fw = {k: v for k, v in s.state.vals.items() if k in fields and v != Form.atom(k)}
        other_w = [k for k in s.state.vals if ("." in k or "[" in k) and k not in fields]
        if other_w:
            rep.violation("FILL", fi.short, f"write {other_w[0]}", "the sweep writes something other than timestamp/duration of the two neighbours", fi.loc(lp))
            continue
        if not fw:
            # a pair that is left as it is: only when there is nothing to fill (gap <= 0) or the gap is longer than the pulsetime
            from ..affine import infeasible, normalize_lits

            hyp = set(s.lits) | {Lit(-G, "<"), Lit(G - P, "<=")}
            if not infeasible(normalize_lits(hyp)):
                k = (tuple(sorted(map(repr, s.lits))), tuple(sorted(s.opaque)))
                if k not in seen:
                    seen.add(k)
                    conds = sorted(map(repr, s.lits)) + sorted(f"{'' if p_ else 'not '}{t}" for t, p_ in s.opaque)
                    rep.violation("THRESHOLD", fi.short, f"pair skipped under {conds}"[:120], f"a pair whose gap is positive and within the pulsetime is left unfilled on the path with conditions {conds}: the property fills every such gap", fi.loc(lp), expected="every path that writes nothing implies gap <= 0 or gap > pulsetime", found=str(conds))
            continue
        upper = Lit(G - P, "<=")
        neg_gap = any(l.form == G and l.op == "<" for l in s.lits)  # gap < 0: overlapping input, outside the property's quantifier
        if neg_gap:
            continue
        key = (tuple(sorted((k, repr(v)) for k, v in fw.items())), tuple(sorted(s.opaque)))
        if key in seen:
            continue
        seen.add(key)
        n_fill += 1
        cons = "fill: " + ", ".join(f"{k} := {v!r}" for k, v in sorted(fw.items()))
        # threshold literals
        if upper not in s.lits:
            strict = Lit(G - P, "<") in s.lits
            rep.violation("THRESHOLD", fi.short, cons[:80], ("the fill branch is entered on gap < pulsetime (strict): a gap of exactly the pulsetime is left open" if strict else f"the fill branch is not guarded by gap <= pulsetime (gap literals: {[repr(l) for l in s.lits if _gap_only(l, G) is not None or 'pulsetime' in repr(l)]})"), fi.loc(lp), expected=repr(upper), found=sorted(map(repr, s.lits)))
        else:
            bad = []
            for l in s.lits:
                r = _gap_only(l, G)
                if r is None:
                    continue
                lam, c = r
                # lam*G + c (<|<=) 0
                if lam < 0:
                    # G > c/(-lam)... lower bound: fine iff every G>0 satisfies it: c/(-lam) <= 0  <=> c <= 0
                    if c > 0:
                        bad.append(l)
                else:
                    bad.append(l)  # a constant upper bound on the gap other than the pulsetime
            rep.check(not bad, "THRESHOLD", fi.short, cons[:80], "gap <= pulsetime (non-strict); other gap literals hold for every positive gap", f"extra condition(s) on the gap exclude short positive gaps: {[repr(b) for b in bad]}", fi.loc(lp))
        # post-conditions
        t1, d1, t2, d2 = (fw.get(f"{e1}.timestamp", T1), fw.get(f"{e1}.duration", D1), fw.get(f"{e2}.timestamp", T2), fw.get(f"{e2}.duration", D2))
        same = ("DATA_EQ", True) in s.opaque
        diff = ("DATA_EQ", False) in s.opaque
        end2 = T2 + D2
        if diff:
            ok = (t1 + d1 == t2) and (t1 == T1) and (t2 + d2 == end2)
            rep.check(ok, "FILL", fi.short, cons[:80], "differing data: e1 ends where e2 starts, e1.start and e2.end unchanged", f"differing data: after the fill e1 = [{t1!r}, +{d1!r}], e2 = [{t2!r}, +{d2!r}]: the gap is not closed exactly, or covered time is lost, or the neighbours overlap", fi.loc(lp), expected="e1.ts' + e1.dur' == e2.ts', e1.ts' == e1.ts, e2.ts' + e2.dur' == e2.ts + e2.dur", found=f"e1=[{t1!r}; {d1!r}] e2=[{t2!r}; {d2!r}]")
        elif same:
            ok = ((t1 == T1) and (t1 + d1 == end2) and d2 == Form()) or ((t2 == T1) and (t2 + d2 == end2) and d1 == Form())
            rep.check(ok, "FILL", fi.short, cons[:80], "equal data: one event covers [e1.ts, e2.end], the other is emptied", f"equal data: after the merge e1 = [{t1!r}, +{d1!r}], e2 = [{t2!r}, +{d2!r}]: the merged event does not cover [e1.ts, e2.end] or the other is not emptied (time lost or counted twice)", fi.loc(lp), expected="one covers [e1.ts, e2.ts + e2.dur], the other has duration 0", found=f"e1=[{t1!r}; {d1!r}] e2=[{t2!r}; {d2!r}]")
        else:
            rep.violation("FILL", fi.short, cons[:80], "neighbours are rewritten on a path that does not compare their data: labels can be merged across different data", fi.loc(lp))
        # cut points stay on the grid of the inputs: Event.timestamp floors what it is given to the millisecond, so a new start
        # that is not an integer combination of the inputs' instants and durations (gap / 2, a scaled duration) is moved by
        # the setter while the neighbour's end, computed from the exact value, is not: the two then overlap or leave a hole
        offgrid = [k for k, v in fw.items() if k.endswith(".timestamp") and any(c.denominator != 1 for c in v.terms.values())]
        rep.check(not offgrid, "FILL", fi.short, (cons + " [grid]")[:80], "new start instants are integer combinations of the inputs' instants and durations", f"`{offgrid[0] if offgrid else ''}` is set to {fw.get(offgrid[0]) if offgrid else ''!r}, which has a fractional coefficient: for inputs on the millisecond grid the point can fall between two grid points, the timestamp setter floors it and the other event's end (computed from the exact value) no longer meets it: the outputs overlap by a fraction of a millisecond", fi.loc(lp))
        # the right neighbour is the left element of the next pair: the next gap is measured from its end
        rep.check(t2 + d2 == end2, "FILL-NEXT", fi.short, cons[:80], "e2.ts' + e2.dur' == e2.ts + e2.dur", f"after the fill the right neighbour ends at {(t2 + d2)!r} instead of its original end {end2!r}: it is the left element of the next pair, so the next gap is measured from the wrong instant (a chain of three events then overlaps or keeps a short gap open)", fi.loc(lp), expected=f"{end2!r}", found=f"{(t2 + d2)!r}")
    rep.floor("flood fill sub-branches", n_fill, 4)
    # zero gap is skipped
    return n_fill


def _gap_only(l, G):
    """literal = lam*G + c (op) 0 with no other atoms -> (lam, c)"""
    if l.op not in ("<", "<="):
        return None
    f = l.form
    atoms = G.atoms()
    if not f.atoms() or f.atoms() != atoms:
        return None
    a0 = sorted(atoms)[0]
    lam = f.coef(a0) / G.coef(a0)
    if f - G.scale(lam) != Form(const=f.const):
        return None
    return lam, f.const


def check(prog, rep):
    rep.level = "other"
    rep.explanation = (
        "Decided: the input is not modified (E2: deepcopy dominates every write); only positive-length events are returned; the fill threshold "
        "is gap <= pulsetime on consecutive timestamp-sorted pairs; each fill sub-branch's assignments, propagated as affine forms, close the gap "
        "exactly without losing covered time or creating overlap (differing data) or merge into one covering event (equal data). "
        "The property proper (non-overlap, coverage, label monotonicity over chains of three and more events) depends on how these local steps "
        "compose while the loop mutates neighbours and is NOT decided."
    )
    rep.trusted_base = ["datetime arithmetic is integer microsecond arithmetic", "deepcopy yields a disjoint graph"]
    rep.not_decided = ["non-overlap / coverage / label monotonicity over chains of >= 3 events", "the negative-gap branches (overlapping input is outside the property's quantifier)"]
    rep.rule("PURE", "no write at or below the input parameter, at any depth (E2)")
    purity_rule(prog, rep, "flood", ["events"])
    output_filter(prog, rep)
    # flood assigns its results through Event.duration: what it assigns must be what is stored (C13's DURATION rule)
    from .c13 import duration_dispatch

    duration_dispatch(prog, rep)
    # gaps are differences of timestamp + duration: instant arithmetic only because Event keeps timestamps in UTC
    from .c13 import normalisation

    normalisation(prog, rep)
    sweep_rules(prog, rep)
    # the transform's own copies (deepcopy of events) separate its output from its input only if Event keeps the default copy protocol
    from ..rules_own import copy_protocol

    copy_protocol(prog, rep)
    # nothing on the way is memoised on a key that does not determine the answer
    from ..rules_own import memo_rule

    memo_rule(prog, rep, rule="MEMO")


VARIANTS = [
    ("B equally long neighbours with differing data meet in the middle of the gap", "aw_transform/flood.py", "            if e1.duration >= e2.duration:\n", "            if e1.duration == e2.duration and e1.data != e2.data:\n                middle = e1.timestamp + e1.duration + gap / 2\n                e1.duration = middle - e1.timestamp\n                e2.timestamp = middle\n                e2.duration = e2_end - e2.timestamp\n            elif e1.duration >= e2.duration:\n", "FILL"),
    ("B deepcopy removed", F, "    events = deepcopy(events)\n", "", "PURE"),
    ("B shallow copy", F, "    events = deepcopy(events)\n", "    events = list(events)\n", "PURE"),
    ("B zero-length kept", F, "if e.duration > timedelta(0)]", "if e.duration >= timedelta(0)]", "POSITIVE"),
    ("B no output filter", F, "    events = [e for e in events if e.duration > timedelta(0)]\n", "", "POSITIVE"),
    ("B strict threshold", F, "< gap <= timedelta(seconds=pulsetime):", "< gap < timedelta(seconds=pulsetime):", "THRESHOLD"),
    ("B threshold in minutes", F, "gap <= timedelta(seconds=pulsetime):", "gap <= timedelta(minutes=pulsetime):", "THRESHOLD"),
    ("B small gaps ignored", F, "elif -negative_gap_trim_thres < gap <=", "elif negative_gap_trim_thres < gap <=", "THRESHOLD"),
    ("B extend e1 past e2 start", F, "                    e1.duration = e2.timestamp - e1.timestamp\n", "                    e1.duration = e2_end - e1.timestamp\n", "FILL"),
    ("B e2 moved without keeping its end", F, "                    e2.timestamp = e1.timestamp + e1.duration\n                    e2.duration = e2_end - e2.timestamp", "                    e2.timestamp = e1.timestamp + e1.duration", "FILL"),
    ("B merged event loses e2's length", F, "                    e1.duration = e2_end - e1.timestamp\n                    e2.timestamp = e2_end", "                    e1.duration = e2.timestamp - e1.timestamp\n                    e2.timestamp = e2_end", "FILL"),
    ("B discard e1 without extending e2", F, "                    e2.timestamp = e1.timestamp\n                    e2.duration = e2_end - e2.timestamp\n                    e1.duration = timedelta(0)", "                    e1.duration = timedelta(0)", "FILL"),
    ("B emptied neighbour left at its old start", F, "                    e1.duration = e2_end - e1.timestamp\n                    e2.timestamp = e2_end\n", "                    e1.duration = e2_end - e1.timestamp\n", "FILL-NEXT"),
    ("B falsy-zero pulsetime default", F, "    events = deepcopy(events)\n", "    pulsetime = pulsetime or 5\n    events = deepcopy(events)\n", "THRESHOLD"),
    ("B unsorted pairs", F, "    events = sorted(events, key=lambda e: e.timestamp)\n", "", "THRESHOLD"),
    ("B early return for short lists skips the filter", F, "    events = deepcopy(events)\n    events = sorted(", "    events = deepcopy(events)\n    if len(events) < 2:\n        return events\n    events = sorted(", "POSITIVE"),
    ("B pairs whose left event is empty are skipped", F, "        if not gap:\n            continue", "        if not gap or not e1.duration:\n            continue", "THRESHOLD"),
    ("B gaps under a second left open", F, "        if not gap:\n            continue", "        if gap < timedelta(seconds=1):\n            continue", "THRESHOLD"),
    ("B second pass joins equal-data neighbours without a gap test", F, "    return events\n", "    joined = []\n    for e in events:\n        if joined and joined[-1].data == e.data:\n            joined[-1].duration = (e.timestamp + e.duration) - joined[-1].timestamp\n        else:\n            joined.append(e)\n    return joined\n", "POSITIVE"),
    ("B durations truncated to milliseconds by the Event setter", "aw_core/models.py", '            self["duration"] = duration\n', '            self["duration"] = timedelta(milliseconds=int(duration.total_seconds() * 1000))\n', "DURATION"),
    ("B zero-length events dropped before the sweep", F, "    events = deepcopy(events)\n", "    events = deepcopy([e for e in events if e.duration > timedelta(0)])\n", "THRESHOLD"),
    {"name": "B shallow copy through an imported alias, sorted in place", "edits": [(F, "from copy import deepcopy\n", "from copy import copy as _cp\n"), (F, "    events = deepcopy(events)\n    events = sorted(events, key=lambda e: e.timestamp)\n", "    events = _cp(events)\n    events.sort(key=lambda e: e.timestamp)\n")], "expect": "PURE"},
    ("OK empty input returns early", F, "    events = deepcopy(events)\n    events = sorted(", "    if not events:\n        return []\n    events = deepcopy(events)\n    events = sorted(", "ok"),
    ("OK comparison flipped", F, "if e1.duration >= e2.duration:", "if e2.duration <= e1.duration:", "ok"),
    ("OK temp inlined", F, "                    e2.duration = e2_end - e2.timestamp\n                    e1.duration = timedelta(0)", "                    e2.duration = e2_end - e1.timestamp\n                    e1.duration = timedelta(0)", "ok"),
    ("OK shorter-event priority (implementation choice)", F, "if e1.duration >= e2.duration:", "if e1.duration < e2.duration:", "ok"),
]
