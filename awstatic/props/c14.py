"""C14 — migrating a legacy database to the SQLite store loses nothing (decidable clauses)."""
import ast

from ..cfg import cfg_of
from ..model import norm, parent, walk_own, walk_with_nested_exprs
from ..rules_codec import codec_peewee, codec_sqlite
from ..rules_read import const_value
from ..rules_store import _id_partition, is_param_ref
from ..sqlmodel import local_defs, single_def, sql_sites

MG = "aw_datastore/migration.py"
SQ = "aw_datastore/storages/sqlite.py"
KEY_TO_PARAM = {"id": "bucket_id", "type": "type_id", "client": "client", "hostname": "hostname", "created": "created", "name": "name", "data": "data"}


def json_keys(prog, model):
    fi = prog.func(f"{model}.json")
    rets = [n for n in walk_own(fi.node) if isinstance(n, ast.Return) and isinstance(n.value, ast.Dict)]
    if len(rets) != 1:
        return None
    return {k.value: v for k, v in zip(rets[0].value.keys, rets[0].value.values) if isinstance(k, ast.Constant)}


def metadata_coverage(prog, rep, fi, L):
    loop, bvar = L["loop"], L["bvar"]
    rep.rule("COVERAGE", "every key of the dict BucketModel.json() returns is forwarded by the migration loop to datastore.create_bucket, on the parameter of the same meaning (id->bucket_id, type->type_id, client, hostname, created, name, data)")
    keys = json_keys(prog, "BucketModel")
    if keys is None:
        rep.undecided("COVERAGE", "BucketModel.json", "keys", "json() is not a single dict literal")
        return
    target = prog.func("SqliteStorage.create_bucket")
    params = target.params[1:]
    calls = [c for c in ast.walk(loop) if isinstance(c, ast.Call) and norm(c.func) == "datastore.create_bucket"]
    if len(calls) != 1:
        rep.violation("COVERAGE", fi.short, "create_bucket call", f"{len(calls)} calls to datastore.create_bucket in the bucket loop", fi.loc(loop))
        return
    c = calls[0]
    passed = {}
    for i, a in enumerate(c.args):
        if i < len(params):
            passed[params[i]] = a
    for k in c.keywords:
        if k.arg:
            passed[k.arg] = k.value
    forwarded = {}
    for p, a in passed.items():
        if isinstance(a, ast.Subscript) and norm(a.value) == bvar and isinstance(a.slice, ast.Constant):
            forwarded[a.slice.value] = p
        elif isinstance(a, ast.Call) and isinstance(a.func, ast.Attribute) and a.func.attr == "get" and norm(a.func.value) == bvar and a.args and isinstance(a.args[0], ast.Constant):
            forwarded[a.args[0].value] = p
        elif p == "bucket_id" and isinstance(a, ast.Name) and a.id == L["idvar"]:
            forwarded["id"] = p  # the loop variable is the key of buckets(), i.e. the id
    missing = sorted(set(keys) - set(forwarded))
    rep.check(not missing, "COVERAGE", fi.short, "metadata fields forwarded", f"{sorted(forwarded)}", f"legacy bucket field(s) {missing} are read from the old store but never forwarded to create_bucket: the migrated bucket loses them", fi.loc(c), expected=sorted(keys), found=sorted(forwarded))
    wrong = {k: p for k, p in forwarded.items() if KEY_TO_PARAM.get(k) != p}
    rep.check(not wrong, "COVERAGE", fi.short, "fields land on the right parameter", "id->bucket_id, type->type_id, ...", f"field(s) forwarded to the wrong parameter: {wrong}", fi.loc(c))
    rep.unit("call_sites", f"{fi.short}: {norm(c)[:160]}")
    # the dict the loop reads comes from pw_db.buckets(): its listing must really carry every field json() reads
    from ..sqlmodel import peewee_chains

    js = prog.func("BucketModel.json")
    jr = [n for n in walk_own(js.node) if isinstance(n, ast.Return) and isinstance(n.value, ast.Dict)]
    json_fields = {n.attr for n in ast.walk(jr[0].value) if isinstance(n, ast.Attribute) and isinstance(n.value, ast.Name) and n.value.id == "self"} if jr else set()
    for ch in peewee_chains(prog):
        if ch.fi.short == "PeeweeStorage.buckets" and ch.model == "BucketModel" and ch.op == "select":
            cols = {norm(a).split(".")[-1] for a in ch.op_call.args}
            missing = sorted(json_fields - cols) if cols else []
            rep.check(not missing, "COVERAGE", "PeeweeStorage.buckets", "legacy listing carries every field", f"select({sorted(cols) or 'all columns'})", f"the legacy store's listing selects only {sorted(cols)}; json() then reports {missing} as empty, and the migration copies that emptiness into the new store", ch.loc())


def id_typestate(prog, rep, fi, loop):
    rep.rule("ID-TYPESTATE", "events read from the legacy store carry ids (PeeweeStorage.get_events builds Event(**EventModel.json(row)) and json() emits id = AutoField); SqliteStorage.insert_many sends id-bearing events to replace(), an UPDATE that can only touch existing rows; so in a freshly created bucket they must reach the sink with their ids cleared (loop `e.id = None` over all elements / events rebuilt without id) or through a sink that inserts regardless of id")
    # source fact
    ej = json_keys(prog, "EventModel")
    src_has_id = ej is not None and "id" in ej and norm(ej["id"]) == "self.id"
    ge = prog.func("PeeweeStorage.get_events")
    from ..rules_codec import rebuilds_through_json

    src_has_id = src_has_id and rebuilds_through_json(ge)
    # sink fact: insert_many's id-bearing partition reaches replace only, and replace has no INSERT
    im = prog.func("SqliteStorage.insert_many")
    has_part = False
    for n in walk_with_nested_exprs(im.node):
        if isinstance(n, ast.ListComp) and len(n.generators) == 1 and n.generators[0].ifs and isinstance(n.generators[0].target, ast.Name):
            if _id_partition(n.generators[0].ifs[0], n.generators[0].target.id) == "has":
                has_part = True
    repl_inserts = [s for s in sql_sites(prog) if s.fi.short == "SqliteStorage.replace" and s.stmt.kind == "insert"]
    repl_updates = [s for s in sql_sites(prog) if s.fi.short == "SqliteStorage.replace" and s.stmt.kind == "update"]
    # (whatever test picks them: a partition by `id is not None` or by any other condition -- e.g. "id already stored
    # somewhere" -- sends some id-bearing events to the UPDATE; only id-less events are certain to be inserted)
    sink_update_only = not repl_inserts and bool(repl_updates) and "self.replace(" in norm(im.node)
    rep.extra["id_partition_recognised"] = has_part
    rep.extra["id_typestate_facts"] = {"source_events_carry_ids": bool(src_has_id), "sink_updates_only_for_id_bearing": bool(sink_update_only)}
    sinks = [c for c in ast.walk(loop) if isinstance(c, ast.Call) and norm(c.func) in ("datastore.insert_many", "datastore.insert_one")]
    if not sinks:
        rep.violation("ID-TYPESTATE", fi.short, "event sink", "the bucket loop never writes the fetched events to the new store", fi.loc(loop))
        return
    sink = sinks[0]
    if norm(sink.func) == "datastore.insert_one":
        rep.ok("ID-TYPESTATE", fi.short, "event sink", "insert_one inserts regardless of id in the sqlite store", fi.loc(sink))
        return
    arg = sink.args[1] if len(sink.args) > 1 else None
    if not isinstance(arg, ast.Name):
        rep.undecided("ID-TYPESTATE", fi.short, "event sink", f"insert_many is given `{norm(arg) if arg is not None else ''}`", fi.loc(sink))
        return
    d = [x for x in local_defs(fi, arg.id) if isinstance(x, ast.Assign)]
    tag = "?"
    if len(d) == 1:
        v = d[0].value
        if isinstance(v, ast.Call) and norm(v.func) == "pw_db.get_events":
            tag = "HAS-ID" if src_has_id else "?"
        elif isinstance(v, ast.ListComp) and isinstance(v.elt, ast.Call) and norm(v.elt.func) == "Event" and not any(k.arg == "id" or k.arg is None for k in v.elt.keywords):
            tag = "NO-ID"
    # clearing loop between definition and sink
    cleared = False
    g = None
    for n in ast.walk(loop):
        if isinstance(n, ast.For) and n is not loop and norm(n.iter) == arg.id and isinstance(n.target, ast.Name):
            v = n.target.id
            body = [s for s in n.body if not (isinstance(s, ast.Expr) and isinstance(s.value, ast.Constant))]
            if len(body) == 1 and isinstance(body[0], ast.Assign) and norm(body[0].targets[0]) in (f"{v}.id", f"{v}['id']") and isinstance(body[0].value, ast.Constant) and body[0].value.value is None:
                # order by position in the bucket loop's body (expanded helpers keep the line numbers of their own definition)
                def _pos(x):
                    for i_, b_ in enumerate(loop.body):
                        if b_ is x or any(x is y for y in ast.walk(b_)):
                            return i_
                    return None

                pn, ps, pd = _pos(n), _pos(sink), (_pos(d[0]) if d else -1)
                if pn is not None and ps is not None and pd is not None and pd < pn < ps:
                    cleared = True
    if cleared:
        tag = "NO-ID"
    if tag == "NO-ID" or not sink_update_only:
        rep.ok("ID-TYPESTATE", fi.short, "events reach the sink without ids", f"tag {tag}; sink update-only for id-bearing events: {sink_update_only}", fi.loc(sink))
    else:
        rep.violation("ID-TYPESTATE", fi.short, "id-bearing events reach an update-only sink", f"`{arg.id}` comes from the legacy store with ids set (tag {tag}) and is passed to insert_many, which routes id-bearing events to replace() = UPDATE ... WHERE id = ?: in the freshly created bucket no such rows exist, so every legacy event is silently dropped", fi.loc(sink), expected="ids cleared (for e in events: e.id = None) or events rebuilt without id", found=f"{norm(sink)}")


def bucket_loops(fi):
    """top-level loops of the migration that range over the legacy bucket listing, with the expressions that denote
    the current bucket's id / metadata dict inside each"""
    out = []
    for loop in [n for n in fi.node.body if isinstance(n, ast.For)]:
        base, how = loop.iter, "keys"
        if isinstance(base, ast.Call) and isinstance(base.func, ast.Attribute) and base.func.attr in ("items", "keys", "values") and not base.args:
            how = base.func.attr
            base = base.func.value
        d = single_def(fi, norm(base)) if isinstance(base, ast.Name) else base
        over_all = d is not None and norm(d) == "pw_db.buckets()"
        idvar = bvar = None
        if how == "items" and isinstance(loop.target, ast.Tuple) and len(loop.target.elts) == 2:
            idvar, bvar = norm(loop.target.elts[0]), norm(loop.target.elts[1])
        elif how == "values" and isinstance(loop.target, ast.Name):
            bvar = loop.target.id
        elif how == "keys" and isinstance(loop.target, ast.Name):
            idvar = loop.target.id
            for n in loop.body:
                if isinstance(n, ast.Assign) and isinstance(n.value, ast.Subscript) and norm(n.value.slice) == idvar and norm(n.value.value) == norm(base):
                    bvar = norm(n.targets[0])
        idexprs = set()
        if idvar:
            idexprs.add(idvar)
        if bvar:
            idexprs.add(f"{bvar}['id']")
        out.append({"loop": loop, "over_all": over_all, "iter": norm(loop.iter), "def": norm(d) if d is not None else "?", "idvar": idvar, "bvar": bvar, "idexprs": idexprs})
    return out


def loop_with(loops, pred):
    return [L for L in loops if any(isinstance(c, ast.Call) and pred(norm(c.func)) for c in ast.walk(L["loop"]))]


def visit_all(prog, rep, fi, loops):
    rep.rule("VISIT-ALL", "every loop of the migration that creates buckets or copies events iterates over all of pw_db.buckets() with no break / continue / conditional skip; events are fetched with a negative limit and no window, for the bucket the loop is currently at (its own loop variable, not one left over from an earlier loop); the fetched list is the one passed on, to that same bucket")
    used = loop_with(loops, lambda f: f in ("datastore.create_bucket", "pw_db.get_events", "datastore.insert_many", "datastore.insert_one"))
    for L in used:
        loop = L["loop"]
        rep.check(bool(L["over_all"]), "VISIT-ALL", fi.short, "iterates over every legacy bucket", f"for ... in {L['iter']}", f"the loop ranges over `{L['iter']}` (:= {L['def']}), not over every bucket of the legacy store", fi.loc(loop))
        skips = [n for n in ast.walk(loop) if isinstance(n, (ast.Break, ast.Continue, ast.Return))]
        conds = [n for n in loop.body if isinstance(n, (ast.If, ast.Try, ast.While))]
        rep.check(not skips and not conds, "VISIT-ALL", fi.short, "no skipping", "no break/continue/conditional in the bucket loop", f"buckets or their events can be skipped ({[type(x).__name__ for x in skips + conds]})", fi.loc(loop))
    gl = loop_with(loops, lambda f: f == "pw_db.get_events")
    gets = [c for L in gl for c in ast.walk(L["loop"]) if isinstance(c, ast.Call) and norm(c.func) == "pw_db.get_events"]
    if len(gets) != 1:
        rep.violation("VISIT-ALL", fi.short, "event fetch", f"{len(gets)} calls to pw_db.get_events inside the bucket loops", fi.loc())
        return
    L = gl[0]
    loop = L["loop"]
    gcall = gets[0]
    names = ["bucket_id", "limit", "starttime", "endtime"]
    a = {names[i]: x for i, x in enumerate(gcall.args) if i < 4}
    a.update({k.arg: k.value for k in gcall.keywords if k.arg})
    lim = const_value(a.get("limit"), fi, prog) if a.get("limit") is not None else None
    okl = lim is not None and lim < 0 and "starttime" not in a and "endtime" not in a
    rep.check(okl, "VISIT-ALL", fi.short, "all events fetched", f"{norm(gcall)}", f"events are fetched as `{norm(gcall)}`: a non-negative limit or a window leaves legacy events behind", fi.loc(gcall), expected="get_events(bucket_id, <negative limit>)", found=norm(gcall))
    okb = a.get("bucket_id") is not None and norm(a["bucket_id"]) in L["idexprs"]
    rep.check(okb, "VISIT-ALL", fi.short, "events fetched for the current bucket", f"{norm(gcall)}", f"`{norm(a['bucket_id']) if a.get('bucket_id') is not None else '?'}` is not the id of the bucket this loop is at (that is {sorted(L['idexprs'])}): every pass copies the events of the wrong (or the same) bucket", fi.loc(gcall))
    asg = parent(gcall)
    sinks = [c for c in ast.walk(loop) if isinstance(c, ast.Call) and norm(c.func) == "datastore.insert_many"]
    if isinstance(asg, ast.Assign) and sinks:
        v = norm(asg.targets[0])
        passed = sinks[0].args[1] if len(sinks[0].args) > 1 else None
        if isinstance(passed, ast.Name) and passed.id != v:
            dd = single_def(fi, passed.id)
            if isinstance(dd, ast.ListComp) and len(dd.generators) == 1 and norm(dd.generators[0].iter) == v and not dd.generators[0].ifs:
                passed = ast.Name(id=v)  # one rebuilt event per fetched event
        okp = passed is not None and norm(passed) == v and norm(sinks[0].args[0]) in L["idexprs"] and not [x for x in local_defs(fi, v) if x is not asg and isinstance(x, ast.Assign)]
        rep.check(okp, "VISIT-ALL", fi.short, "fetched list passed on", f"insert_many(<current bucket>, {v})", f"what is inserted (`{norm(sinks[0])}`) is not the list that was fetched for this bucket, into this bucket", fi.loc(sinks[0]))
    elif not sinks:
        rep.violation("VISIT-ALL", fi.short, "fetched list passed on", "the loop that fetches the events does not insert them", fi.loc(loop))


def legacy_read_only(prog, rep, fi):
    rep.rule("LEGACY-RO", "on the legacy store object the migration calls only non-writers (writer set computed as for C12); expected writer calls: 0")
    from .c12 import call_graph, direct_writers

    dw = direct_writers(prog)
    edges, _ = call_graph(prog)
    writers = set(dw)
    changed = True
    while changed:
        changed = False
        for f, outs in edges.items():
            if f.qname not in writers and any(g.qname in writers for g in outs):
                writers.add(f.qname)
                changed = True
    n = 0
    for c in prog.all_calls(fi):
        if isinstance(c.func, ast.Attribute) and norm(c.func.value) == "pw_db":
            n += 1
            callees = prog.resolve_call(c, fi)
            if not callees:
                rep.undecided("LEGACY-RO", fi.short, f"pw_db.{c.func.attr}()", "unresolved method on the legacy store", fi.loc(c))
                continue
            bad = [x for x in callees if x.qname in writers]
            rep.check(not bad, "LEGACY-RO", fi.short, f"pw_db.{c.func.attr}()", "not a writer", f"the migration calls {bad[0].short if bad else ''} on the legacy store, which modifies it", fi.loc(c))
    rep.floor("calls on the legacy store object", n, 2)
    if "aw_datastore.storages.peewee.PeeweeStorage.delete_bucket" not in writers:
        rep.error("writer computation lost PeeweeStorage.delete_bucket (LEGACY-RO would pass vacuously)")
    # opening the legacy store: schema statements only, no statement that rewrites rows
    from ..sqlmodel import fold_str

    init = prog.func("PeeweeStorage.__init__")
    seen, work = set(), [init]
    while work:
        f = work.pop()
        if f.qname in seen:
            continue
        seen.add(f.qname)
        for g_ in edges.get(f, ()):
            if g_.mod is init.mod:
                work.append(g_)
    n_open = 0
    for q in sorted(seen):
        f = prog.funcs[q]
        for c in walk_with_nested_exprs(f.node):
            if not (isinstance(c, ast.Call) and isinstance(c.func, ast.Attribute)):
                continue
            a = c.func.attr
            if a == "execute_sql" and c.args:
                n_open += 1
                txt = fold_str(c.args[0], f, prog)
                head = (txt or "").strip().split(" ")[0].upper() if txt else None
                if head is None:
                    rep.undecided("LEGACY-RO", f.short, "execute_sql(...)", "SQL text run while opening the legacy store is not a compile-time string", f.loc(c))
                else:
                    rep.check(head in ("PRAGMA", "SELECT"), "LEGACY-RO", f.short, f"execute_sql({head} ...)", "reads only", f"opening the legacy store runs `{txt.strip()[:80]}`: rows of the legacy database are rewritten by the migration's mere act of opening it (the legacy file is not left untouched)", f.loc(c))
            elif a in ("save", "delete_instance", "create", "insert", "insert_many", "update", "replace", "bulk_create", "bulk_update") and not (isinstance(c.func.value, ast.Name) and c.func.value.id in ("self",)) and f is not init:
                rep.violation("LEGACY-RO", f.short, f".{a}()", f"`{norm(c)[:60]}` runs while the legacy store is being opened and writes rows", f.loc(c))
    rep.note("opening the legacy store runs PeeweeStorage.__init__ (CREATE TABLE IF NOT EXISTS + auto_migrate's add_column for pre-datastr files): byte-level immutability of the legacy file is decided only up to those schema statements")


def fold(e, env, prog, fi):
    """finite fold of a string-building expression under a valuation of its boolean atoms"""
    if isinstance(e, ast.Constant):
        return e.value
    if isinstance(e, ast.BinOp) and isinstance(e.op, ast.Add):
        a, b = fold(e.left, env, prog, fi), fold(e.right, env, prog, fi)
        return None if a is None or b is None else a + b
    if isinstance(e, ast.IfExp):
        t = norm(e.test)
        if t in env:
            return fold(e.body if env[t] else e.orelse, env, prog, fi)
        return None
    if isinstance(e, ast.JoinedStr):
        out = ""
        for v in e.values:
            if isinstance(v, ast.Constant):
                out += str(v.value)
            elif isinstance(v, ast.FormattedValue):
                x = fold(v.value, env, prog, fi)
                if x is None:
                    return None
                out += str(x)
        return out
    if isinstance(e, ast.Name):
        if e.id in env:
            return env[e.id]
        d = single_def(fi, e.id) if fi is not None else None
        if d is not None:
            return fold(d, env, prog, fi)
        r = prog.lookup(fi, e.id) if fi is not None else None
        if isinstance(r, tuple) and r[0] == "const":
            return fold(r[2], env, prog, None)
        return None
    if isinstance(e, ast.Attribute):
        t = norm(e)
        if t in env:
            return env[t]
        if isinstance(e.value, ast.Name) and e.value.id == "self" and fi is not None and fi.cls is not None and e.attr in fi.cls.attrs:
            return fold(fi.cls.attrs[e.attr], env, prog, None)
    return None


def legacy_file_opened(prog, rep):
    """the store object the migration reads from must be connected to the legacy file it computed: the peewee database handle
    is one module-level object shared by all PeeweeStorage instances, so the constructor has to point it at ITS file every time"""
    rep.rule("LEGACY-OPEN", "PeeweeStorage.__init__ points the (shared, module-level) database handle at the file it resolved on every path: a call <handle>.init(<the file path variable>) dominates every <handle>.connect() and the normal exit, and connect() does not ask to reuse an open connection")
    fi = prog.func("PeeweeStorage.__init__")
    g = cfg_of(fi)
    fp = "filepath" if "filepath" in fi.params else None
    inits = [c for c in prog.all_calls(fi) if isinstance(c.func, ast.Attribute) and c.func.attr == "init" and norm(c.func.value) in ("self.db", "_db", "db")]
    conns = [c for c in prog.all_calls(fi) if isinstance(c.func, ast.Attribute) and c.func.attr == "connect" and norm(c.func.value) in ("self.db", "_db", "db")]
    if not inits:
        rep.violation("LEGACY-OPEN", fi.short, "<handle>.init(file)", "the constructor never points the shared database handle at its file", fi.loc())
        return
    good = [c for c in inits if c.args and fp is not None and norm(c.args[0]) == fp]
    rep.check(bool(good), "LEGACY-OPEN", fi.short, "init argument", f"the resolved `{fp}`", f"the handle is initialised with `{norm(inits[0].args[0]) if inits[0].args else ''}`, not the file path the constructor resolved", fi.loc(inits[0]))
    if not good:
        return
    ni = {g.node_of(c) for c in good}
    reach = g.reach_avoiding([g.entry], avoid=frozenset(ni), include_start=True, skip_exc=True)
    bad = None
    for c in conns:
        if g.node_of(c) in reach:
            bad = bad or (c, "is reached on a path that did not initialise the handle")
        for k in c.keywords:
            if k.arg == "reuse_if_open" and not (isinstance(k.value, ast.Constant) and not k.value.value):
                bad = bad or (c, "asks to reuse a connection that is already open")
    if bad is None and g.exit in reach:
        bad = (good[0], "does not lie on every path to the constructor's normal exit")
    rep.check(bad is None, "LEGACY-OPEN", fi.short, "every path initialises the handle before connecting", f"{len(good)} init call(s) dominate {len(conns)} connect call(s)", (f"`{norm(bad[0])[:60]}` {bad[1]}: once any PeeweeStorage has been opened in the process the shared handle keeps pointing at THAT file, so the store the migration opens for the legacy database silently reads another profile's file (or the wrong one of testing / production) and the new store is filled from it" if bad else ""), fi.loc(bad[0]) if bad else fi.loc())
    rep.floor("connect() calls in PeeweeStorage.__init__", len(conns), 1)
    # opening must not rewrite the file: pragmas that are stored in the database header / change its journal
    FILE_CHANGING = {"journal_mode", "auto_vacuum", "page_size", "user_version", "application_id", "encoding", "schema_version", "locking_mode"}
    for c in [x for x in ast.walk(fi.mod.tree) if isinstance(x, ast.Call)]:
        for k in c.keywords:
            if k.arg == "pragmas" and isinstance(k.value, (ast.Dict, ast.List, ast.Tuple)):
                keys = [x.value for x in (k.value.keys if isinstance(k.value, ast.Dict) else [e.elts[0] for e in k.value.elts if isinstance(e, (ast.Tuple, ast.List)) and e.elts]) if isinstance(x, ast.Constant)]
                hit = sorted(set(map(str, keys)) & FILE_CHANGING)
                rep.check(not hit, "LEGACY-RO", "PeeweeStorage", f"pragmas {keys}", "no pragma that is persisted in the file", f"the peewee database is opened with pragmas {hit}: these are written into the database file (journal_mode=wal rewrites the header and leaves -wal / -shm files), so merely opening the legacy store for the migration modifies the legacy file", f"{fi.mod.relpath}:{c.lineno}")


LEGACY_V2 = {
    # the on-disk format of peewee-sqlite.v2.db: column -> (field class, index-relevant options).  This is a fact about files
    # that exist on users' disks, not about the code: it does not move with a refactoring
    "BucketModel": {"key": ("IntegerField", {"primary_key"}), "id": ("CharField", {"unique"}), "created": ("DateTimeField", set()), "name": ("CharField", set()), "type": ("CharField", set()), "client": ("CharField", set()), "hostname": ("CharField", set()), "datastr": ("CharField", set())},
    "EventModel": {"id": ("AutoField", set()), "bucket": ("ForeignKeyField", {"index"}), "timestamp": ("DateTimeField", {"index"}), "duration": ("DecimalField", set()), "datastr": ("CharField", set())},
}


def legacy_schema(prog, rep, rule="LEGACY-RO"):
    """opening the legacy file creates nothing in it: the models declare the columns and indexes the v2 file already has"""
    rep.rule("LEGACY-SCHEMA", "the peewee models declare exactly the columns, unique constraints and indexes of the v2 file format (BucketModel: key pk, id unique, created, name, type, client, hostname, datastr; EventModel: id, bucket indexed, timestamp indexed, duration, datastr; no Meta.indexes): PeeweeStorage.__init__ runs create_tables(safe=True), which issues CREATE INDEX IF NOT EXISTS for every declared index, so an index the file does not have is CREATED IN THE LEGACY FILE when the migration opens it, and a column it does not have makes every read of the legacy store fail")
    for cname, want in LEGACY_V2.items():
        ci = prog.cls(cname)
        have = {}
        und = None
        for st in ci.node.body:
            if isinstance(st, (ast.Assign, ast.AnnAssign)):
                tg = st.targets[0] if isinstance(st, ast.Assign) else st.target
                v = st.value
                if isinstance(tg, ast.Name) and isinstance(v, ast.Call) and norm(v.func).split(".")[-1].endswith("Field"):
                    opts = set()
                    for k in v.keywords:
                        if k.arg in ("index", "unique", "primary_key") and not (isinstance(k.value, ast.Constant) and not k.value.value):
                            opts.add(k.arg)
                        if k.arg in ("column_name", "db_column", "constraints"):
                            und = und or (st, k.arg)
                    have[tg.id] = (norm(v.func).split(".")[-1], opts)
            if isinstance(st, ast.ClassDef) and st.name == "Meta":
                for ms in st.body:
                    if isinstance(ms, ast.Assign) and any(isinstance(t, ast.Name) and t.id in ("indexes", "constraints", "primary_key", "table_name", "db_table", "without_rowid") for t in ms.targets):
                        nm = [t.id for t in ms.targets if isinstance(t, ast.Name)][0]
                        empty = isinstance(ms.value, (ast.Tuple, ast.List)) and not ms.value.elts
                        if not empty:
                            rep.violation("LEGACY-SCHEMA", cname, f"Meta.{nm}", f"`{norm(ms)[:80]}` declares something the v2 file format does not have: create_tables(safe=True) in PeeweeStorage.__init__ issues the matching CREATE ... IF NOT EXISTS against whatever file is opened, so the legacy database is altered by merely being opened for the migration", f"{ci.mod.relpath}:{ms.lineno}")
        if und:
            rep.undecided("LEGACY-SCHEMA", cname, f"field option {und[1]}", "column naming / constraints overridden: cannot compare with the v2 file format", f"{ci.mod.relpath}:{und[0].lineno}")
            continue
        extra = sorted(set(have) - set(want))
        missing = sorted(set(want) - set(have))
        idx = sorted(k for k in set(have) & set(want) if (have[k][1] - {"primary_key"}) != (want[k][1] - {"primary_key"}))
        why = []
        if extra:
            why.append(f"declares column(s) {extra} the v2 file does not have (reads of the legacy store fail: no such column)")
        if missing:
            why.append(f"no longer declares column(s) {missing} of the v2 file (their values are not migrated)")
        if idx:
            why.append("changes the index / unique options of " + ", ".join(f"{k}: {sorted(want[k][1])} -> {sorted(have[k][1])}" for k in idx) + " (create_tables creates the new index in the legacy file when the migration opens it)")
        rep.check(not why, "LEGACY-SCHEMA", cname, "columns and indexes", "those of the v2 file format", f"{cname} " + "; ".join(why), f"{ci.mod.relpath}:{ci.node.lineno}")


def trigger(prog, rep):
    rep.rule("TRIGGER", "SqliteStorage.__init__ calls check_for_migration(self) on the path (new db file and no custom filepath), after the CREATE statements and their commit; check_for_migration builds the legacy file name with the same -testing suffix rule and version as PeeweeStorage.__init__ (both string expressions are folded for testing in {True, False} and compared), opens the legacy store with the same testing flag, and migrates when a matching file exists")
    init = prog.func("SqliteStorage.__init__")
    g = cfg_of(init)
    calls = [c for c in prog.all_calls(init) if norm(c.func) == "check_for_migration"]
    if len(calls) != 1:
        rep.violation("TRIGGER", init.short, "check_for_migration call", f"{len(calls)} calls: a new default-location database never looks for a legacy one", init.loc())
        return
    c = calls[0]
    rep.check(len(c.args) == 1 and norm(c.args[0]) == "self", "TRIGGER", init.short, "argument", "check_for_migration(self)", f"called with `{norm(c)}`", init.loc(c))
    node = g.node_of(c)
    # path condition: the database file is new and no custom path was given
    fp = init.params[init.params.index("filepath")] if "filepath" in init.params else "filepath"
    reassigned = [n.lineno for n in walk_own(init.node) if isinstance(n, ast.Assign) and any(norm(t) == fp for t in n.targets)]
    first_re = min(reassigned) if reassigned else 10**9

    def facts(e, pol, at_line, depth=0):
        """what the test e (taken with polarity pol) says: {'new': bool} / {'custom': bool} / {}"""
        if depth > 4:
            return {}
        if isinstance(e, ast.UnaryOp) and isinstance(e.op, ast.Not):
            return facts(e.operand, not pol, at_line, depth + 1)
        if isinstance(e, ast.Name):
            defs = [n for n in walk_own(init.node) if isinstance(n, ast.Assign) and len(n.targets) == 1 and norm(n.targets[0]) == e.id]
            if len(defs) == 1:
                return facts(defs[0].value, pol, defs[0].lineno, depth + 1)
            if e.id == fp and at_line < first_re:
                return {"custom": pol}
            return {}
        t = norm(e)
        if t in (f"os.path.exists({fp})", f"os.path.isfile({fp})"):
            # the existence test must look at the final path (after the default was filled in)
            return {"new": not pol} if (at_line > first_re or not reassigned) else {}
        if at_line < first_re:
            if t in (f"{fp} is not None", f"{fp} != None"):
                return {"custom": pol}
            if t in (f"{fp} is None", f"{fp} == None"):
                return {"custom": not pol}
        return {}

    def lab_facts(lab):
        if not lab or lab[0] != "cond":
            return {}
        return facts(lab[1], lab[2], getattr(lab[1], "lineno", 0))

    r1 = g.reach_filtered(g.entry, lambda u, v, lab: lab_facts(lab).get("new") is not True)
    r2 = g.reach_filtered(g.entry, lambda u, v, lab: lab_facts(lab).get("custom") is not False)
    rep.check(node not in r1 and node not in r2, "TRIGGER", init.short, "path condition", "only when the file is new and no custom path was given", "the migration is attempted for existing databases or custom paths (or never): the call is not guarded by both `the file did not exist before connect()` and `no filepath argument was given` (each either tested directly or through a flag computed before `filepath` is re-bound)", init.loc(c))
    # reachable at all under those literals: the call is reachable from entry
    rep.check(node in g.reach_from(g.entry), "TRIGGER", init.short, "reachable", "", "the migration call is unreachable", init.loc(c))
    # the ordering: new_db_file computed before connect; creates + commit before the call
    order = {}
    for n in walk_own(init.node):
        # the existence test of the database file, under whatever name its result is kept (or used on the spot)
        if isinstance(n, ast.Call) and norm(n.func) in ("os.path.exists", "os.path.isfile") and n.args and norm(n.args[0]) == fp:
            order["new"] = n.lineno
        if isinstance(n, ast.Call) and norm(n.func) == "sqlite3.connect":
            order["connect"] = n.lineno
    creates = [s for s in sql_sites(prog) if s.fi is init and s.stmt.kind == "create_table"]
    # the commit that follows the CREATE statements (a later one, e.g. after the migration, is not this one)
    commits = sorted(n.lineno for n in walk_own(init.node) if isinstance(n, ast.Call) and norm(n.func) == "self.commit")
    after_creates = [l for l in commits if all(s.call.lineno < l for s in creates)]
    if after_creates:
        order["commit"] = after_creates[0]
    oko = order.get("new", 10**9) < order.get("connect", 0) and all(s.call.lineno < order.get("commit", 0) for s in creates) and order.get("commit", 10**9) < c.lineno and len(creates) == 2
    rep.check(oko, "TRIGGER", init.short, "ordering", "existence test before connect; tables created and committed before migrating", f"ordering broken (lines: {order}, creates {[s.call.lineno for s in creates]}, migrate {c.lineno}): e.g. testing for the file after connect() has created it means the migration never runs", init.loc(c))
    # name agreement
    cm = prog.func("check_for_migration", "aw_datastore.migration")
    # a function of the same name elsewhere in the package (what `from aw_datastore import check_for_migration` then finds) must
    # hand every call on to the real one: a guard kept per process (seen storage ids, a flag) skips the second profile's store
    from ..cfg import cfg_of as _cfg_of

    for w_ in [f_ for f_ in prog.funcs.values() if f_.name == "check_for_migration" and f_ is not cm and f_.mod.name.startswith("aw_datastore")]:
        g_ = _cfg_of(w_)
        fw_ = {g_.node_of(c_) for c_ in prog.all_calls(w_) if norm(c_.func).split(".")[-1] == "check_for_migration" and c_.args and isinstance(c_.args[0], ast.Name) and c_.args[0].id in w_.params}
        okw, wit_ = g_.must_pass(g_.entry, fw_) if fw_ else (False, None)
        rep.check(bool(okw), "TRIGGER", w_.short, "wrapper forwards every call", "every path calls migration.check_for_migration(datastore)", f"{w_.short} (what SqliteStorage.__init__ imports) can return without calling the migration: a store that is opened later in the same process (the other profile, a second data directory) is never migrated and stays empty, and because its file then exists the migration is not retried on the next start either", w_.loc())
    pw = prog.func("PeeweeStorage.__init__")
    fn_def = single_def(pw, "filename")
    if fn_def is None:
        # the file name is whatever is joined onto the data directory for the default path
        from ..trace import deep

        for c_ in walk_with_nested_exprs(pw.node):
            if isinstance(c_, ast.Call) and norm(c_.func) == "os.path.join" and len(c_.args) == 2 and norm(deep(c_.args[0], pw)).startswith("get_data_dir("):
                fn_def = deep(c_.args[1], pw, stop=("testing",))
    det = [x for x in prog.all_calls(cm) if norm(x.func) == "detect_db_files"]
    det_args = None
    if len(det) == 1:
        # arguments by parameter, positional or keyword
        dps = prog.func("detect_db_files").params
        det_args = {p_: a_ for p_, a_ in zip(dps, det[0].args)}
        det_args.update({k_.arg: k_.value for k_ in det[0].keywords if k_.arg})
    if fn_def is None or det_args is None or not {"datastore_name", "version"} <= set(det_args):
        rep.undecided("TRIGGER", cm.short, "legacy file name", "cannot find PeeweeStorage's filename expression / the detect_db_files call", cm.loc())
        return
    okn = True
    detail = []
    for testing in (True, False):
        legacy = fold(fn_def, {"testing": testing}, prog, pw)
        name = fold(det_args["datastore_name"], {"datastore.testing": testing}, prog, cm)
        ver = fold(det_args["version"], {}, prog, cm)
        detail.append((testing, legacy, name, ver))
        if legacy is None or name is None or ver is None or legacy.split(".")[0] != name or legacy.split(".")[1] != f"v{ver}":
            okn = False
    rep.check(okn, "TRIGGER", cm.short, "legacy file name agrees with PeeweeStorage", f"{detail}", f"the name / version the migration looks for does not match the file PeeweeStorage uses (testing, legacy file, looked-for name, version): {detail}", cm.loc(det[0]))
    # detect_db_files filters by those two parts
    dd = prog.func("detect_db_files")
    t = norm(dd.node)
    okd = "filename.split('.')[0] == datastore_name" in t and "filename.split('.')[1] == f'v{version}'" in t
    if not okd:
        # by role: a file is kept only if part 0 of its name (split at '.') equals the name asked for and part 1 equals
        # 'v<version>': `==` as a condition of a comprehension over the listing, or `!=` guarding a `continue` in a loop over it
        from ..trace import deep as _deep2

        found_ = set()
        for cmp_ in [x for x in walk_with_nested_exprs(dd.node) if isinstance(x, ast.Compare) and len(x.ops) == 1 and isinstance(x.ops[0], (ast.Eq, ast.NotEq))]:
            for a_, b_ in ((cmp_.left, cmp_.comparators[0]), (cmp_.comparators[0], cmp_.left)):
                ta_ = norm(_deep2(a_, dd))
                tb_ = norm(b_)
                m_ = None
                for i_ in (0, 1):
                    if ta_.endswith(f".split('.')[{i_}]"):
                        m_ = i_
                if m_ is None:
                    continue
                want_ = "datastore_name" if m_ == 0 else "f'v{version}'"
                if tb_ != want_:
                    continue
                keep = isinstance(cmp_.ops[0], ast.Eq)
                # where the comparison stands
                p_, ok_place = parent(cmp_), False
                while p_ is not None and not isinstance(p_, (ast.comprehension, ast.If, ast.FunctionDef)):
                    p_ = parent(p_)
                if isinstance(p_, ast.comprehension) and keep:
                    ok_place = True
                if isinstance(p_, ast.If) and not keep and len(p_.body) == 1 and isinstance(p_.body[0], ast.Continue):
                    ok_place = True
                if ok_place:
                    found_.add(m_)
        okd = found_ == {0, 1}
    rep.check(okd, "TRIGGER", dd.short, "file filter", "split('.')[0] == name and split('.')[1] == v<version>", "detect_db_files no longer filters by name and version part", dd.loc())
    # sid test and the call
    mcalls = [x for x in prog.all_calls(cm) if norm(x.func) == "peewee_v2_to_sqlite_v1"]
    okc = len(mcalls) == 1 and len(mcalls[0].args) == 1 and norm(mcalls[0].args[0]) == cm.params[0]
    if okc:
        gg = cfg_of(cm)
        nn = gg.node_of(mcalls[0])
        dv = norm(parent(det[0]).targets[0]) if isinstance(parent(det[0]), ast.Assign) else "?"
        found_texts = set()
        for x in (dv, norm(det[0])):
            found_texts |= {f"len({x}) > 0", x, f"len({x}) >= 1", f"len({x}) != 0", f"bool({x})", f"0 < len({x})"}
        # a local bound once to such a test (has_legacy = len(files) > 0)
        for nm in {y.id for y in ast.walk(cm.node) if isinstance(y, ast.Name)}:
            d_ = single_def(cm, nm)
            if d_ is not None and norm(d_) in found_texts:
                found_texts.add(nm)

        def says_found(lab):
            if not (bool(lab) and lab[0] == "cond" and lab[2] is True):
                return False
            t_ = lab[1]
            conj = t_.values if isinstance(t_, ast.BoolOp) and isinstance(t_.op, ast.And) else [t_]
            return any(norm(c_) in found_texts for c_ in conj)

        r = gg.reach_filtered(gg.entry, lambda u, v, lab: not says_found(lab))
        okc = nn not in r
    rep.check(bool(okc), "TRIGGER", cm.short, "migrates when a legacy file exists", "peewee_v2_to_sqlite_v1(datastore) under len(files) > 0", "the migration is not started exactly when a matching legacy file was found", cm.loc())
    sid = prog.cls("SqliteStorage").attrs.get("sid")
    oks = False
    if sid is not None and mcalls:
        from ..cfg import equality

        gg = cfg_of(cm)
        r = gg.reach_filtered(gg.entry, lambda u, v, lab: equality(lab, f"{cm.params[0]}.sid", norm(sid)) is not True)
        oks = gg.node_of(mcalls[0]) not in r
    rep.check(oks, "TRIGGER", cm.short, "store kind test", f"sid == {norm(sid) if sid is not None else '?'}", "the migration is not restricted to (or never runs for) the store whose sid is SqliteStorage.sid", cm.loc())
    mg = prog.func("peewee_v2_to_sqlite_v1")
    opens = [x for x in prog.all_calls(mg) if norm(x.func) == "PeeweeStorage"]
    oko = len(opens) == 1 and ((len(opens[0].args) == 1 and norm(opens[0].args[0]) == "datastore.testing" and not opens[0].keywords) or (not opens[0].args and [norm(k.value) for k in opens[0].keywords if k.arg == "testing"] == ["datastore.testing"] and len(opens[0].keywords) == 1))
    rep.check(oko, "TRIGGER", mg.short, "legacy store opened with the same profile", "PeeweeStorage(datastore.testing)", f"the legacy store is opened as `{norm(opens[0]) if opens else '?'}`: a different profile / path than the one that was detected", mg.loc())
    # who gives check_for_migration its argument (confirms the frozen receiver type)
    callers = [(f, x) for f in prog.funcs.values() for x in prog.all_calls(f) if norm(x.func) == "check_for_migration"]
    rep.check(all(f.cls is not None and f.cls.name == "SqliteStorage" and norm(x.args[0]) == "self" for f, x in callers) and bool(callers), "TRIGGER", "check_for_migration", "callers", "only SqliteStorage passes itself", "check_for_migration is called with something other than a SqliteStorage (receiver-type table is stale)", None)


def check(prog, rep):
    rep.level = "other"
    rep.explanation = (
        "The migration path is executed by no test; its correctness is almost entirely a matter of which API is called with which value. "
        "Decided: every metadata field the legacy store hands out is forwarded to create_bucket on the right parameter; id typestate (events from "
        "the legacy store carry ids, the sqlite bulk insert only UPDATEs id-bearing events, so ids must be cleared before the sink); every bucket "
        "and every event is visited (no skip, negative limit, no window, the fetched list is what is inserted); only non-writers are called on the "
        "legacy store; the trigger fires exactly for a new default-location file, after the schema is committed, and looks for the file name and "
        "version PeeweeStorage actually uses (finite fold over testing in {True, False})."
    )
    rep.trusted_base = ["C12's writer computation", "peewee AutoField ids are never None on fetched rows"]
    rep.not_decided = ["byte-for-byte immutability of the legacy file (the PeeweeStorage constructor runs CREATE TABLE IF NOT EXISTS and auto_migrate)", "numeric fidelity of migrated instants (C01's undecided clause)"]
    fi = prog.func("peewee_v2_to_sqlite_v1")
    rep.unit("functions", fi.qname)
    loops = bucket_loops(fi)
    cl = loop_with(loops, lambda f: f == "datastore.create_bucket")
    sl = loop_with(loops, lambda f: f in ("datastore.insert_many", "datastore.insert_one"))
    if len(cl) != 1 or len(sl) != 1:
        if not cl or not sl:
            rep.violation("VISIT-ALL", fi.short, "bucket loops", f"{len(cl)} loop(s) create buckets and {len(sl)} loop(s) write events: buckets or events are not migrated", fi.loc())
        else:
            rep.undecided("VISIT-ALL", fi.short, "bucket loops", f"{len(cl)} loops create buckets, {len(sl)} loops write events", fi.loc())
        return
    if cl[0]["bvar"] is None:
        rep.undecided("COVERAGE", fi.short, "bucket metadata variable", "cannot find the legacy metadata dict of the bucket loop", fi.loc(cl[0]["loop"]))
    else:
        metadata_coverage(prog, rep, fi, cl[0])
    id_typestate(prog, rep, fi, sl[0]["loop"])
    visit_all(prog, rep, fi, loops)
    legacy_read_only(prog, rep, fi)
    trigger(prog, rep)
    legacy_file_opened(prog, rep)
    legacy_schema(prog, rep)
    # the migration's rows are written through the lazy path: nothing after it may need a closed transaction
    from ..rules_commit import txn_free

    txn_free(prog, rep)
    # the new store and the legacy store are two storage objects in one process: nothing is shared between instances
    from ..rules_store import instance_state

    instance_state(prog, rep)
    from ..rules_store import ddl_facts

    ddl_facts(prog, rep)
    # "same instant, duration and data": what the legacy store decodes and the new store encodes (tables and scale constants)
    codec_sqlite(prog, rep)
    codec_peewee(prog, rep)
    # "same id and metadata": what create_bucket of the new store is given comes back under the same keys, the id unchanged
    from .c05 import field_tables

    field_tables(prog, rep)
    # nothing on the way is memoised on a key that does not determine the answer
    from ..rules_own import memo_rule

    memo_rule(prog, rep, rule="MEMO")


VARIANTS = [
    ("B the new store normalises bucket ids (NFC) before storing them", "aw_datastore/storages/sqlite.py", "        data: Optional[dict] = None,\n    ):\n        self.conn.execute(\n            \"INSERT INTO buckets(", "        data: Optional[dict] = None,\n    ):\n        import unicodedata\n        bucket_id = unicodedata.normalize(\"NFC\", bucket_id)\n        self.conn.execute(\n            \"INSERT INTO buckets(", "FIELDS"),
    ("B shared peewee handle initialised only while still deferred", "aw_datastore/storages/peewee.py", "        self.db.init(filepath)\n", "        if self.db.deferred:\n            self.db.init(filepath)\n", "LEGACY-OPEN"),
    {"name": "B insert_many upserts by a global id-exists test and the migration keeps the legacy ids", "edits": [("aw_datastore/migration.py", "        for event in bucket_events:\n            event.id = None\n", ""), ("aw_datastore/storages/sqlite.py", "        events_upsert = [e for e in events if e.id is not None]", "        known = {e.id for e in events if e.id is not None and self.conn.execute(\"SELECT 1 FROM events WHERE id = ?\", [e.id]).fetchone() is not None}\n        events_upsert = [e for e in events if e.id in known]"), ("aw_datastore/storages/sqlite.py", "        events_insert = [e for e in events if e.id is None]", "        events_insert = [e for e in events if e.id not in known]")], "expect": "ID-TYPESTATE"},
    ("B data not forwarded (original defect)", MG, '            bucket["name"],\n            bucket["data"],\n', '            bucket["name"],\n', "COVERAGE"),
    ("B hostname forwarded as client", MG, '            bucket["client"],\n            bucket["hostname"],\n', '            bucket["hostname"],\n            bucket["client"],\n', "COVERAGE"),
    ("B ids not cleared (original defect)", MG, "        for event in bucket_events:\n            event.id = None\n", "", "ID-TYPESTATE"),
    ("B ids cleared only for some", MG, "        for event in bucket_events:\n            event.id = None\n", "        for event in bucket_events[1:]:\n            event.id = None\n", "ID-TYPESTATE"),
    ("B limit 1000", MG, "pw_db.get_events(bucket_id, -1)", "pw_db.get_events(bucket_id, 1000)", "VISIT-ALL"),
    ("B empty buckets skipped before creation", MG, '        bucket = buckets[bucket_id]\n', '        bucket = buckets[bucket_id]\n        if not pw_db.get_eventcount(bucket_id):\n            continue\n', "VISIT-ALL"),
    ("B legacy bucket deleted after copy", MG, "        datastore.insert_many(bucket_id, bucket_events)\n", "        datastore.insert_many(bucket_id, bucket_events)\n        pw_db.delete_bucket(bucket_id)\n", "LEGACY-RO"),
    ("B testing suffix differs", MG, 'peewee_name = peewee_type + ("-testing" if datastore.testing else "")', 'peewee_name = peewee_type + ("_testing" if datastore.testing else "")', "TRIGGER"),
    ("B looks for v1", MG, "detect_db_files(data_dir, peewee_name, 2)", "detect_db_files(data_dir, peewee_name, 1)", "TRIGGER"),
    ("B legacy store opened in the other profile", MG, "pw_db = PeeweeStorage(datastore.testing)", "pw_db = PeeweeStorage()", "TRIGGER"),
    ("B existence tested after connect", SQ, "        new_db_file = not os.path.exists(filepath)\n        self.conn = sqlite3.connect(filepath)\n", "        self.conn = sqlite3.connect(filepath)\n        new_db_file = not os.path.exists(filepath)\n", "TRIGGER"),
    ("B migration for custom paths too", SQ, "        if new_db_file and not ignore_migration_check:", "        if new_db_file:", "TRIGGER"),
    ("B events fetched with a stale loop variable", MG, "        bucket_events = pw_db.get_events(bucket_id, -1)", "        pass\n    for bucket in buckets.values():\n        bucket_events = pw_db.get_events(bucket_id, -1)", "VISIT-ALL"),
    ("B sqlite bulk insert drops the days of a duration", SQ, "            endtime = starttime + (event.duration.total_seconds() * 1000000)\n            datastr = json.dumps(event.data)\n            event_rows.append", "            endtime = starttime + (event.duration.seconds * 1000000)\n            datastr = json.dumps(event.data)\n            event_rows.append", "CODEC"),
    ("B opening the legacy store normalises NULL datastr in place", "aw_datastore/storages/peewee.py", "    db.close()\n", "    db.execute_sql(\"UPDATE bucketmodel SET datastr = '{}' WHERE datastr IS NULL\")\n    db.close()\n", "LEGACY-RO"),
    ("B composite index declared on the event model", "aw_datastore/storages/peewee.py", "    datastr = CharField()\n\n    @classmethod\n", "    datastr = CharField()\n\n    class Meta:\n        indexes = (((\"bucket\", \"timestamp\"), False),)\n\n    @classmethod\n", "LEGACY-SCHEMA"),
    ("B duration column indexed", "aw_datastore/storages/peewee.py", "    duration = DecimalField()\n", "    duration = DecimalField(index=True)\n", "LEGACY-SCHEMA"),
    ("B WAL checkpoint right after the migration", SQ, "            check_for_migration(self)\n", "            check_for_migration(self)\n            self.conn.execute(\"PRAGMA wal_checkpoint(TRUNCATE);\")\n", "TXN-FREE"),
    ("OK WAL checkpoint after the migration and a commit", SQ, "            check_for_migration(self)\n", "            check_for_migration(self)\n            self.commit()\n            self.conn.execute(\"PRAGMA wal_checkpoint(TRUNCATE);\")\n", "ok"),
    ("OK buckets created first, events copied in a second loop", MG, "        bucket_events = pw_db.get_events(bucket_id, -1)", "        pass\n    for bucket_id in buckets:\n        bucket_events = pw_db.get_events(bucket_id, -1)", "ok"),
    ("OK ids cleared by rebuilding events", MG, "        for event in bucket_events:\n            event.id = None\n        datastore.insert_many(bucket_id, bucket_events)", "        fresh = [Event(timestamp=e.timestamp, duration=e.duration, data=e.data) for e in bucket_events]\n        datastore.insert_many(bucket_id, fresh)", "ok"),
    ("OK keyword arguments", MG, '            bucket["name"],\n            bucket["data"],\n', '            name=bucket["name"],\n            data=bucket["data"],\n', "ok"),
]
