"""C04 — operations addressed to one bucket never change any other bucket."""
from ..rules_commit import check_no_rollback
from ..rules_store import instance_state, ddl_facts, forward_bucket, scope_memory, scope_peewee, scope_sqlite


def check(prog, rep):
    rep.level = "proof"
    rep.explanation = (
        "Frame property decided by the SCOPE rule over every SQL statement (all query levels) of SqliteStorage, every peewee "
        "query chain / save() of PeeweeStorage and every use of the per-bucket containers of MemoryStorage, plus the FORWARD rule "
        "for the Bucket/Datastore wrappers and storage self-calls, plus the schema facts that make the bucket key unique. "
        "Argument: a row is changed only if it satisfies the statement's WHERE; if every level that ranges over events is "
        "restricted to the addressed bucket's key, and that key is selected by the unique buckets.id, rows of other buckets satisfy no WHERE."
    )
    rep.trusted_base = [
        "SQL semantics of the modelled subset (a statement outside it is an analysis error, not a pass)",
        "peewee translates the modelled builder calls literally; save() on an instance with a primary key is UPDATE ... WHERE pk = ?",
        "OWN-IN/OWN-OUT (C01) exclude object sharing between two buckets' lists in MemoryStorage",
    ]
    rep.not_decided = ["nothing of substance beyond the trusted base"]
    instance_state(prog, rep)
    scope_sqlite(prog, rep)
    scope_peewee(prog, rep)
    scope_memory(prog, rep)
    forward_bucket(prog, rep)
    ddl_facts(prog, rep)
    # a rollback of the shared open transaction undoes buffered writes of *other* buckets
    check_no_rollback(prog, rep)
    # two buckets' containers share no object: what a write method stores is not the caller's object (which the caller may
    # hand to an operation on another bucket, whose id assignment / edits would then show in this bucket too)
    from ..rules_own import own_rules

    own_rules(prog, rep, methods=["insert_one", "insert_many", "replace", "replace_last", "create_bucket", "update_bucket"])


SQ = "aw_datastore/storages/sqlite.py"
PW = "aw_datastore/storages/peewee.py"
ME = "aw_datastore/storages/memory.py"
DS = "aw_datastore/datastore.py"
VARIANTS = [
    ("B memory replace stores the caller's event object", ME, "            event = copy.deepcopy(event)\n            event.id = event_id\n", "            event.id = event_id\n", "OWN-IN"),
    ("B peewee upserts of a batch applied with bulk_update (by id alone)", PW, "        for e in events_updates:\n            self.insert_one(bucket_id, e)\n", "        if events_updates:\n            EventModel.bulk_update([EventModel.from_event(self.bucket_keys[bucket_id], e) for e in events_updates], fields=[EventModel.timestamp, EventModel.duration, EventModel.datastr], batch_size=100)\n", "SCOPE"),
    ("B sqlite replace unscoped (original defect)", SQ, "                     WHERE id = ?\n                       AND bucketrow = (SELECT rowid FROM buckets WHERE id = ?)\"\"\"\n        self.conn.execute(\n            query, [bucket_id, starttime, endtime, datastr, event_id, bucket_id]\n        )", "                     WHERE id = ?\"\"\"\n        self.conn.execute(query, [bucket_id, starttime, endtime, datastr, event_id])", "SCOPE"),
    ("B sqlite replace_last picks the newest event of any bucket", SQ, "                        SELECT id FROM events\n                        WHERE bucketrow = (SELECT rowid FROM buckets WHERE id = ?)\n                        ORDER BY starttime DESC, id DESC LIMIT 1)\"\"\"\n        self.conn.execute(query, [starttime, endtime, datastr, bucket_id])", "                        SELECT id FROM events\n                        ORDER BY starttime DESC, id DESC LIMIT 1)\"\"\"\n        self.conn.execute(query, [starttime, endtime, datastr])", "SCOPE"),
    ("B sqlite delete by id only", SQ, "\"WHERE id = ? AND bucketrow = (SELECT b.rowid FROM buckets b WHERE b.id = ?)\"\n        )\n        cursor = self.conn.execute(query, [event_id, bucket_id])", "\"WHERE id = ?\"\n        )\n        cursor = self.conn.execute(query, [event_id])", "SCOPE"),
    ("B sqlite delete_bucket deletes all events", SQ, "\"DELETE FROM events WHERE bucketrow IN (SELECT rowid FROM buckets WHERE id = ?)\",\n            [bucket_id],", "\"DELETE FROM events WHERE bucketrow IN (SELECT rowid FROM buckets)\",\n            [],", "SCOPE"),
    ("B sqlite scope placeholder bound to the event id", SQ, "cursor = self.conn.execute(query, [event_id, bucket_id])", "cursor = self.conn.execute(query, [bucket_id, event_id])", "SCOPE"),
    ("B sqlite get_events without scope", SQ, "            WHERE bucketrow = (SELECT rowid FROM buckets WHERE id = ?)\n            AND endtime >= ? AND starttime <= ?\n            ORDER BY starttime DESC, id DESC LIMIT ?\n        \"\"\"\n        rows = c.execute(query, [bucket_id, starttime_i, endtime_i, limit])", "            WHERE endtime >= ? AND starttime <= ?\n            ORDER BY starttime DESC, id DESC LIMIT ?\n        \"\"\"\n        rows = c.execute(query, [starttime_i, endtime_i, limit])", "SCOPE"),
    ("B peewee upsert saves a constructed instance (original defect)", PW, "        if event.id is not None:\n            # Upsert: only ever touch an event that belongs to this bucket\n            return self.replace(bucket_id, event.id, event)\n", "", "SCOPE"),
    ("B peewee _get_event by id only", PW, "                .where(EventModel.id == event_id)\n                .where(EventModel.bucket == self.bucket_keys[bucket_id])\n                .get()", "                .where(EventModel.id == event_id)\n                .get()", "SCOPE"),
    ("B peewee delete by id only", PW, "            .where(EventModel.id == event_id)\n            .where(EventModel.bucket == self.bucket_keys[bucket_id])\n            .execute()", "            .where(EventModel.id == event_id)\n            .execute()", "SCOPE"),
    ("B peewee replace moves the row", PW, "        e = self._get_event(bucket_id, event_id)\n        e.timestamp = event.timestamp", "        e = self._get_event(bucket_id, event_id)\n        e.id = event.id or e.id\n        e.timestamp = event.timestamp", "SCOPE"),
    ("B memory replace searches every bucket", ME, "            event.id = event_id\n            self.db[bucket_id][idx] = event", "            event.id = event_id\n            for b in self.db:\n                if idx < len(self.db[b]) and self.db[b][idx].id == event_id:\n                    self.db[b][idx] = event", "SCOPE"),
    ("B Bucket.delete addresses another bucket", DS, "return self.ds.storage_strategy.delete(self.bucket_id, event_id)", "return self.ds.storage_strategy.delete(event_id, self.bucket_id)", "FORWARD"),
    ("B insert_many forwards a constant bucket", "aw_datastore/storages/abstract.py", "            self.insert_one(bucket_id, event)", "            self.insert_one(event.data.get('bucket', bucket_id), event)", "FORWARD"),
    ("B buckets.id not unique", SQ, "        id TEXT UNIQUE NOT NULL,", "        id TEXT NOT NULL,", "SCHEMA"),
    ("B bulk insert wrapped in `with self.conn` (rollback on error discards other buckets' buffered writes)", SQ, "        self.conn.executemany(query, event_rows)\n", "        with self.conn:\n            self.conn.executemany(query, event_rows)\n", "NO-ROLLBACK"),
    ("B bulk upsert as INSERT OR REPLACE by global id", SQ, "            \"INSERT INTO events(bucketrow, starttime, endtime, datastr) \"\n            + \"VALUES ((SELECT rowid FROM buckets WHERE id = ?), ?, ?, ?)\"\n        )\n        self.conn.executemany(query, event_rows)", "            \"INSERT OR REPLACE INTO events(id, bucketrow, starttime, endtime, datastr) \"\n            + \"VALUES (?, (SELECT rowid FROM buckets WHERE id = ?), ?, ?, ?)\"\n        )\n        self.conn.executemany(query, [(None,) + r for r in event_rows])", "SCOPE"),
    ("OK conjunct order", SQ, "            WHERE bucketrow = (SELECT rowid FROM buckets WHERE id = ?) AND id = ?\n            LIMIT 1\n        \"\"\"\n        rows = c.execute(query, [bucket_id, event_id])", "            WHERE id = ? AND bucketrow = (SELECT rowid FROM buckets WHERE id = ?)\n            LIMIT 1\n        \"\"\"\n        rows = c.execute(query, [event_id, bucket_id])", "ok"),
    ("OK IN sub-select", SQ, "            WHERE bucketrow = (SELECT rowid FROM buckets WHERE id = ?)\n            AND endtime >= ? AND starttime <= ?\n            ORDER BY", "            WHERE bucketrow IN (SELECT rowid FROM buckets WHERE id = ?)\n            AND endtime >= ? AND starttime <= ?\n            ORDER BY", "ok"),
    ("OK peewee where order", PW, "                .where(EventModel.id == event_id)\n                .where(EventModel.bucket == self.bucket_keys[bucket_id])\n                .get()", "                .where(EventModel.bucket == self.bucket_keys[bucket_id])\n                .where(EventModel.id == event_id)\n                .get()", "ok"),
    ("OK peewee combined where", PW, "            .where(EventModel.id == event_id)\n            .where(EventModel.bucket == self.bucket_keys[bucket_id])\n            .execute()", "            .where((EventModel.id == event_id) & (EventModel.bucket == self.bucket_keys[bucket_id]))\n            .execute()", "ok"),
]
