"""C04 — operations addressed to one bucket never change any other bucket."""
from ..rules_store import ddl_facts, forward_bucket, scope_memory, scope_peewee, scope_sqlite


def check(prog, rep):
    rep.level = "proof"
    rep.explanation = (
        "Frame property decided by the SCOPE rule over every SQL statement (all query levels) of SqliteStorage, every peewee "
        "query chain / save() of PeeweeStorage and every use of the per-bucket containers of MemoryStorage, plus the FORWARD rule "
        "for the Bucket/Datastore wrappers and storage self-calls, plus the schema facts that make the bucket key unique. "
        "Argument: a row is changed only if it satisfies the statement's WHERE; if every level that ranges over events is "
        "restricted to the addressed bucket's key, and that key is selected by the unique buckets.id, rows of other buckets satisfy no WHERE."
    )
    rep.trusted_base = [
        "SQL semantics of the modelled subset (a statement outside it is an analysis error, not a pass)",
        "peewee translates the modelled builder calls literally; save() on an instance with a primary key is UPDATE ... WHERE pk = ?",
        "OWN-IN/OWN-OUT (C01) exclude object sharing between two buckets' lists in MemoryStorage",
    ]
    rep.not_decided = ["nothing of substance beyond the trusted base"]
    scope_sqlite(prog, rep)
    scope_peewee(prog, rep)
    scope_memory(prog, rep)
    forward_bucket(prog, rep)
    ddl_facts(prog, rep)
