"""C11 — a query means what its text says (decidable necessary conditions of the hand-written front-end)."""
import ast

from ..affine import Env, Form
from ..cfg import cfg_of
from ..model import norm, parent, walk_own, walk_with_nested_exprs
from ..paths import summarize
from ..sqlmodel import local_defs, single_def
from ..trace import map_desc

Q2 = "aw_query/query2.py"
QF = "aw_query/functions.py"
TOKEN_CLASSES = ("QString", "QInteger", "QFunction", "QDict", "QList", "QVariable")


def token_classes(prog):
    mi = prog.module("aw_query.query2")
    sub = [c for c in mi.classes.values() if any(b.name == "QToken" for b in prog.bases(c))]
    # an intermediate base (a class that is itself subclassed) is not a token kind
    return [c for c in sub if not any(c in prog.bases(o) for o in mi.classes.values() if o is not c)]


def partition_rule(prog, rep):
    rep.rule("PARTITION", "every return of a token scanner `check(string)` is either (falsy, string) with the input unchanged, or a pair of complementary slices of the input at one cut: (string[:k], string[k:]) or (token, string[len(token):]) with token a prefix accumulator; a character in neither half is silently dropped from the program")
    n = 0
    for ci in token_classes(prog):
        fi = prog.method(ci, "check")
        if fi is None:
            continue
        n += 1
        rep.unit("functions", fi.qname)
        s = fi.params[0]
        g = cfg_of(fi)
        rets = [x for x in walk_own(fi.node) if isinstance(x, ast.Return)]
        for r in rets:
            v = r.value
            cons = f"return {norm(v)[:50]}"
            if not (isinstance(v, ast.Tuple) and len(v.elts) == 2):
                rep.violation("PARTITION", fi.short, cons, "scanner does not return a (token, remainder) pair", fi.loc(r))
                continue
            tok, rem = v.elts
            if isinstance(rem, ast.Name) and rem.id == s and not local_defs(fi, s):
                # nothing consumed: token must be falsy
                ok = isinstance(tok, ast.Constant) and not tok.value
                if isinstance(tok, ast.Name):
                    grow = [g.node_of(a) for a in walk_own(fi.node) if isinstance(a, (ast.AugAssign, ast.Assign)) and norm(a.targets[0] if isinstance(a, ast.Assign) else a.target) == tok.id and not (isinstance(a, ast.Assign) and isinstance(a.value, ast.Constant) and not a.value.value)]
                    rn = g.node_of(r)
                    ok = all(rn not in g.reach_avoiding([x]) for x in grow)
                rep.check(ok, "PARTITION", fi.short, cons, "nothing consumed, falsy token", f"the scanner returns the whole input as remainder together with a possibly non-empty token `{norm(tok)}`: the token's text is parsed twice", fi.loc(r))
                continue
            # (string[:k], string[k:])
            if isinstance(tok, ast.Subscript) and isinstance(rem, ast.Subscript) and norm(tok.value) == s and norm(rem.value) == s and isinstance(tok.slice, ast.Slice) and isinstance(rem.slice, ast.Slice):
                a, b = tok.slice, rem.slice
                ok = a.lower is None and a.step is None and b.upper is None and b.step is None and a.upper is not None and b.lower is not None and norm(a.upper) == norm(b.lower)
                rep.check(ok, "PARTITION", fi.short, cons, f"complementary slices at {norm(a.upper) if a.upper is not None else '?'}", f"token is {norm(tok)} but the remainder is {norm(rem)}: the cut points differ, so a character between them is dropped from (or duplicated in) the program — e.g. the comma after a bracketed first argument, which makes the argument loop skip the second argument", fi.loc(r), expected=f"({s}[:k], {s}[k:])", found=norm(v))
                continue
            # (token, string[len(token):])
            if isinstance(tok, ast.Name) and isinstance(rem, ast.Subscript) and norm(rem.value) == s and isinstance(rem.slice, ast.Slice):
                b = rem.slice
                ok = b.upper is None and b.step is None and b.lower is not None and norm(b.lower) == f"len({tok.id})"
                ok = ok and _prefix_accumulator(fi, tok.id, s)
                rep.check(ok, "PARTITION", fi.short, cons, "(token, string[len(token):]) with token a prefix accumulator", f"the remainder {norm(rem)} is not the input minus the token `{tok.id}` (or `{tok.id}` is not accumulated as a contiguous prefix of the input)", fi.loc(r), expected=f"({tok.id}, {s}[len({tok.id}):])", found=norm(v))
                continue
            rep.violation("PARTITION", fi.short, cons, "return value is neither (falsy, input) nor complementary slices of the input", fi.loc(r))
    rep.floor("token scanners", n, 6)


def _prefix_accumulator(fi, tok, s):
    """token starts empty (or with string[0]) and only grows by the characters of one forward loop over the input, which stops at the first character it does not take; or it is "".join(takewhile(pred, string)), the longest prefix by definition"""
    from ..trace import resolve

    start = None  # how many leading characters the token holds before the loop
    for a in walk_own(fi.node):
        if isinstance(a, ast.Assign) and norm(a.targets[0]) == tok:
            v = a.value
            if isinstance(v, ast.Constant) and v.value == "":
                st0 = 0
            elif isinstance(v, ast.Call) and isinstance(v.func, ast.Attribute) and v.func.attr == "join" and isinstance(v.func.value, ast.Constant) and v.func.value.value == "" and len(v.args) == 1 and isinstance(v.args[0], ast.Call) and norm(v.args[0].func) in ("takewhile", "itertools.takewhile") and len(v.args[0].args) == 2 and norm(v.args[0].args[1]) == s:
                # no loop may touch it afterwards
                return not any(isinstance(x, ast.AugAssign) and norm(x.target) == tok for x in walk_own(fi.node)) and len([x for x in walk_own(fi.node) if isinstance(x, ast.Assign) and norm(x.targets[0]) == tok]) == 1
            elif norm(resolve(v, fi)) == f"{s}[0]":
                st0 = 1
            else:
                return False
            if start is not None and start != st0:
                return False
            start = st0
    if start is None:
        return False
    loops = [l for l in walk_own(fi.node) if isinstance(l, ast.For)]
    if len(loops) != 1:
        return False
    lp = loops[0]
    it = norm(lp.iter)
    tgt = lp.target
    cv = norm(tgt.elts[1]) if isinstance(tgt, ast.Tuple) and it == f"enumerate({s})" else norm(tgt)
    if it not in (s, f"enumerate({s})", f"{s}[1:]"):
        return False
    for a in walk_own(fi.node):
        if isinstance(a, ast.AugAssign) and norm(a.target) == tok:
            if not isinstance(a.op, ast.Add):
                return False
            inloop = any(a is x for x in ast.walk(lp))
            if inloop and norm(a.value) != cv:
                return False
            if not inloop:
                if start != 0 or norm(resolve(a.value, fi)) != f"{s}[0]" or a.lineno > lp.lineno:
                    return False
                start = 1
    if (start == 1) != (it == f"{s}[1:]"):
        return False
    # every iteration either takes the character or leaves the loop
    sums, _ = summarize(fi=None, body=lp.body, env=Env(fi, None, inline_locals=False))
    T = Form.atom(tok)
    for p in sums:
        took = p.state.vals.get(tok, T) != T
        if not took and p.kind not in ("break", "raise"):
            return False
    return True


def quote_guards(prog, rep):
    rep.rule("QUOTES", "in each bracket-matching scanner every update of the depth counter is on a path carrying `not single_quote and not double_quote`; each quote toggle is guarded by the escape test (prev_char != '\\\\') and by 'not inside the other quote'")
    n = 0
    for cname in ("QFunction", "QDict", "QList"):
        fi = prog.func(f"{cname}.check")
        # roles, under whatever names: the depth counter is stepped by one in the loop and compared with 0; a quote flag is
        # toggled (`q = not q`) in the branch that tests the loop character against its quote; the previous character is
        # the variable assigned the loop character
        DV = SQ_ = DQ_ = PV = None
        for l in [x for x in walk_own(fi.node) if isinstance(x, ast.For)]:
            chv = norm(l.target) if isinstance(l.target, ast.Name) else (norm(l.target.elts[-1]) if isinstance(l.target, ast.Tuple) else None)
            for x in ast.walk(l):
                if isinstance(x, ast.AugAssign) and isinstance(x.value, ast.Constant) and x.value.value == 1 and isinstance(x.target, ast.Name):
                    cand = x.target.id
                elif isinstance(x, ast.Assign) and isinstance(x.targets[0], ast.Name) and isinstance(x.value, ast.BinOp) and isinstance(x.value.right, ast.Constant) and x.value.right.value == 1 and norm(x.value.left) == x.targets[0].id:
                    cand = x.targets[0].id
                else:
                    cand = None
                if cand and any(isinstance(c, ast.Compare) and norm(c.left) == cand and isinstance(c.comparators[0], ast.Constant) and c.comparators[0].value == 0 for c in ast.walk(fi.node)):
                    # ... stepped both up and down
                    ups = any((isinstance(y, ast.AugAssign) and isinstance(y.op, ast.Add) and norm(y.target) == cand) or (isinstance(y, ast.Assign) and isinstance(y.value, ast.BinOp) and isinstance(y.value.op, ast.Add) and norm(y.targets[0]) == cand) for y in ast.walk(l))
                    downs = any((isinstance(y, ast.AugAssign) and isinstance(y.op, ast.Sub) and norm(y.target) == cand) or (isinstance(y, ast.Assign) and isinstance(y.value, ast.BinOp) and isinstance(y.value.op, ast.Sub) and norm(y.targets[0]) == cand) for y in ast.walk(l))
                    if ups and downs:
                        DV = DV or cand
                if isinstance(x, ast.Assign) and isinstance(x.targets[0], ast.Name) and norm(x.value) == f"not {x.targets[0].id}":
                    br = parent(x)
                    t_ = norm(br.test) if isinstance(br, ast.If) else ""
                    if chv and f"{chv} == \"'\"" in t_:
                        SQ_ = x.targets[0].id
                    elif chv and f"{chv} == '\"'" in t_:
                        DQ_ = x.targets[0].id
                if isinstance(x, ast.Assign) and isinstance(x.targets[0], ast.Name) and chv and norm(x.value) == chv and x in l.body:
                    PV = x.targets[0].id
        quote_vars = [x for x in walk_own(fi.node) if isinstance(x, (ast.Assign, ast.AnnAssign)) and getattr(x, "value", None) is not None and ((isinstance(x.value, ast.Name) and x.value.id in ("char", "c", "ch")) or isinstance(x.value, ast.Constant) and x.value.value is None) and "quote" in norm(x.targets[0] if isinstance(x, ast.Assign) else x.target).lower()]
        if DV is not None and (SQ_ is None or DQ_ is None) and quote_vars:
            # the quote state is kept in some other form than two flags: decide the loop over a finite abstraction of characters
            # and variable values against the reference automaton (awstatic/scanfsm.py)
            from ..scanfsm import Undecided as _Und, analyse as _analyse

            blps = [l for l in walk_own(fi.node) if isinstance(l, ast.For) and any(isinstance(x, (ast.AugAssign, ast.Assign)) and norm(x.targets[0] if isinstance(x, ast.Assign) else x.target) == DV for x in ast.walk(l))]
            if len(blps) != 1:
                rep.undecided("QUOTES", fi.short, "bracket loop", f"{len(blps)} loops touch the depth counter", fi.loc())
                continue
            init_env = {}
            for st_ in fi.node.body:
                if st_ is blps[0]:
                    break
                if isinstance(st_, (ast.Assign, ast.AnnAssign)) and getattr(st_, "value", None) is not None and isinstance(st_.value, ast.Constant):
                    tg_ = st_.targets[0] if isinstance(st_, ast.Assign) and len(st_.targets) == 1 else getattr(st_, "target", None)
                    if isinstance(tg_, ast.Name):
                        init_env[tg_.id] = st_.value.value
            oc = {"QFunction": ("(", ")"), "QDict": ("{", "}"), "QList": ("[", "]")}[cname]
            try:
                bad_, n_states, tracked_ = _analyse(blps[0], init_env, DV, oc[0], oc[1])
            except _Und as ex_:
                rep.undecided("QUOTES", fi.short, "quote state", f"the scanner keeps its quote state in some other form than two flags, and its loop body leaves the fragment the finite abstraction interprets ({ex_})", fi.loc())
                continue
            for st0, cls_, pv_, got_, want_ in bad_[:4]:
                rep.violation("QUOTES", fi.short, f"state {st0} on {cls_} after {pv_}"[:90], f"with the variables at {st0}, reading a character of class {cls_} (previous character: {pv_}) the scanner does `{got_}` where the rule of the language is `{want_}`: a quote inside the other kind of string / after a backslash changes the state, or a bracket inside a string literal is counted", fi.loc(blps[0]))
            if not bad_:
                rep.ok("QUOTES", fi.short, "quote state (finite abstraction)", f"{n_states} reachable value combinations of {tracked_} x 9 character classes agree with the reference automaton", fi.loc(blps[0]))
            n += 2
            continue
        DV, SQ_, DQ_, PV = DV or "to_consume", SQ_ or "single_quote", DQ_ or "double_quote", PV or "prev_char"
        loops = [l for l in walk_own(fi.node) if isinstance(l, ast.For) and any(isinstance(x, (ast.AugAssign, ast.Assign)) and norm(x.targets[0] if isinstance(x, ast.Assign) else x.target) == DV for x in ast.walk(l))]
        if len(loops) != 1:
            rep.undecided("QUOTES", fi.short, "bracket loop", f"{len(loops)} loops touch the depth counter", fi.loc())
            continue
        lp = loops[0]
        sums, _ = summarize(fi=None, body=lp.body, env=Env(fi, None, inline_locals=False))
        D = Form.atom(DV)
        n_upd = n_tog = 0
        for p in sums:
            d = p.state.vals.get(DV, D)
            if d != D:
                n_upd += 1
                ok = (SQ_, False) in p.opaque and (DQ_, False) in p.opaque
                rep.check(ok, "QUOTES", fi.short, f"depth {'+' if (d - D).const > 0 else '-'}1", "only outside quotes", f"the bracket depth changes on a path that is not known to be outside both kinds of quotes (path assumes {sorted(f'{chr(43) if pol else chr(45)}{t}' for t, pol in p.opaque)}): a bracket inside a string literal ends the token early", fi.loc(lp))
            for q, other, ch in ((SQ_, DQ_, "\"'\""), (DQ_, SQ_, "'\"'")):
                if q in p.state.vals and p.state.vals[q] != Form.atom(q):
                    n_tog += 1
                    esc = (f"{PV} != '\\\\'", True) in p.opaque
                    oth = (other, False) in p.opaque
                    rep.check(esc and oth, "QUOTES", fi.short, f"toggle {q}", "guarded by the escape test and by not being inside the other quote", f"the {q} flag toggles on a path without {'the escape test' if not esc else ''}{' and ' if not esc and not oth else ''}{'`not ' + other + '`' if not oth else ''}: an escaped quote or a quote character inside the other kind of string flips the state", fi.loc(lp))
        n += n_upd
        rep.floor(f"{cname}.check depth updates", n_upd, 2)
        rep.floor(f"{cname}.check quote toggles", n_tog, 2)


def _ret_texts(fi, stop=()):
    """the values a function returns, as expressions over its parameters (locals expanded; names in `stop` kept)"""
    from ..trace import deep, sym_value

    out = set()
    for r in walk_own(fi.node):
        if isinstance(r, ast.Return) and r.value is not None:
            v = sym_value(fi, r.value) if (r in fi.node.body and not stop) else deep(r.value, fi, stop=stop)
            out.add(norm(v))
    return out


def loops_rule(prog, rep):
    rep.rule("LOOPS", "QFunction.parse / QList.parse / QDict.parse: every non-raising path through an iteration of the argument / entry loop appends or sets exactly one parsed value; QFunction.interpret evaluates self.args in order after the two injected arguments and calls functions[self.name](*call_args); QList / QDict.interpret map every child")
    for cname, sink in (("QFunction", "args.append"), ("QList", "ls.append"), ("QDict", "d[key]")):
        fi = prog.func(f"{cname}.parse")
        # the container is whatever the method hands to the token's constructor, under any name
        rets_ = [r for r in walk_own(fi.node) if isinstance(r, ast.Return) and isinstance(r.value, ast.Call) and norm(r.value.func) == cname and r.value.args and isinstance(r.value.args[-1], ast.Name)]
        cont = rets_[0].value.args[-1].id if len(rets_) == 1 else sink.split(".")[0].split("[")[0]
        if cname == "QDict":
            subs_ = [x for x in walk_own(fi.node) if isinstance(x, ast.Assign) and isinstance(x.targets[0], ast.Subscript) and norm(x.targets[0].value) == cont]
            sink = norm(subs_[0].targets[0]) if len(subs_) == 1 else f"{cont}[key]"
        else:
            sink = f"{cont}.append"
        loops = [l for l in walk_own(fi.node) if isinstance(l, ast.While)]
        if len(loops) != 1:
            rep.undecided("LOOPS", fi.short, "entry loop", f"{len(loops)} while loops", fi.loc())
            continue
        lp = loops[0]
        # what the loop walks over is the token minus exactly its two delimiters: a slice of the token by positions
        # (string[1:-1]; for a call, from one past the opening bracket to the last character)
        callees_ = {id(c.func) for c in ast.walk(lp.test) if isinstance(c, ast.Call)}
        lv_ = [x.id for x in ast.walk(lp.test) if isinstance(x, ast.Name) and id(x) not in callees_]
        if len(set(lv_)) == 1:
            inits_ = [st for st in fi.node.body if isinstance(st, ast.Assign) and len(st.targets) == 1 and norm(st.targets[0]) == lv_[0] and st.lineno < lp.lineno]
            if len(inits_) == 1:
                iv = inits_[0].value
                p0_ = fi.params[0]
                okin = isinstance(iv, ast.Subscript) and norm(iv.value) == p0_ and isinstance(iv.slice, ast.Slice) and iv.slice.step is None and iv.slice.lower is not None and iv.slice.upper is not None
                if okin:
                    from ..trace import deep as _deep3

                    lo, up = norm(_deep3(iv.slice.lower, fi)), norm(_deep3(iv.slice.upper, fi))
                    okin = (lo == "1" or lo.endswith("+ 1")) and up in ("-1", f"len({p0_}) - 1")
                rep.check(okin, "LOOPS", fi.short, "text between the delimiters", f"{p0_}[1:-1] (a slice by position)", f"the entries are taken as `{norm(iv)[:60]}`: anything but cutting exactly one character at each end (strip() with a character set, replace()) also removes delimiters that belong to the last nested value: `{{\"a\": {{}}}}` no longer parses", fi.loc(inits_[0]))
        sums, _ = summarize(fi=None, body=lp.body, env=Env(fi, None, inline_locals=False))
        bad = []
        for p in sums:
            if p.kind == "raise":
                continue
            if sink.endswith(".append"):
                cnt = sum(1 for c in p.calls if norm(c.func) == sink)
            else:
                cnt = sum(1 for w in p.writes if w == sink)
            if cnt != 1:
                bad.append((p.lines[-3:], cnt))
        rep.check(not bad, "LOOPS", fi.short, f"one `{sink}` per iteration", f"{len(sums)} paths", f"a non-raising path through the loop body stores {bad[0][1] if bad else ''} values (lines {bad[0][0] if bad else ''}): an argument / entry is dropped or duplicated", fi.loc(lp))
        # the stored value is the parse of the token just scanned: (T, K), S = _parse_token(S, ns) ... sink(T.parse(K, ns))
        from ..trace import resolve

        scans = [st for st in lp.body if isinstance(st, ast.Assign) and isinstance(st.value, ast.Call) and norm(st.value.func) == "_parse_token" and isinstance(st.targets[0], ast.Tuple) and len(st.targets[0].elts) == 2 and isinstance(st.targets[0].elts[0], ast.Tuple) and len(st.targets[0].elts[0].elts) == 2]
        ok = False
        if scans:
            last = scans[-1]  # the value scan (a dict entry scans its key first)
            T, K = [norm(x) for x in last.targets[0].elts[0].elts]
            S = norm(last.targets[0].elts[1])
            ok = len(last.value.args) == 2 and norm(last.value.args[0]) == S and norm(last.value.args[1]) == "namespace"
            want_call = f"{T}.parse({K}, namespace)"
            stored = None
            for x in ast.walk(lp):
                if sink.endswith(".append") and isinstance(x, ast.Call) and norm(x.func) == sink and len(x.args) == 1:
                    stored = x.args[0]
                if not sink.endswith(".append") and isinstance(x, ast.Assign) and isinstance(x.targets[0], ast.Subscript) and norm(x.targets[0].value) == sink.split("[")[0]:
                    stored = x.value
            if stored is not None:
                sv = stored
                if isinstance(sv, ast.Name):
                    defs = [st for st in lp.body if isinstance(st, ast.Assign) and norm(st.targets[0]) == sv.id]
                    sv = defs[-1].value if defs else sv
                ok = ok and norm(sv) == want_call
            else:
                ok = False
            if cname == "QDict" and ok:
                ks = scans[0]
                KT, KK = [norm(x) for x in ks.targets[0].elts[0].elts]
                keydefs = [st for st in lp.body if isinstance(st, ast.Assign) and isinstance(st.value, ast.Attribute) and norm(st.value) == f"QString.parse({KK}, {{}}).value"]
                sub = [x for x in ast.walk(lp) if isinstance(x, ast.Assign) and isinstance(x.targets[0], ast.Subscript) and norm(x.targets[0].value) == "d"]
                ok = len(scans) == 2 and bool(keydefs) and bool(sub) and norm(sub[0].targets[0].slice) == norm(keydefs[0].targets[0])
        rets = [r for r in walk_own(fi.node) if isinstance(r, ast.Return)]
        want = {"QFunction": f"QFunction(name, {cont})", "QList": f"QList({cont})", "QDict": f"QDict({cont})"}[cname]
        okw = len(rets) == 1 and (norm(rets[0].value) == want or (cname == "QFunction" and isinstance(rets[0].value, ast.Call) and norm(rets[0].value.func) == "QFunction" and len(rets[0].value.args) == 2 and norm(rets[0].value.args[1]) == cont))
        rep.check(okw, "LOOPS", fi.short, "result", want, f"parse returns `{norm(rets[0].value) if rets else ''}`", fi.loc())
    fi = prog.func("QFunction.interpret")
    calls = [c for c in walk_with_nested_exprs(fi.node) if isinstance(c, ast.Call) and prog.is_registry_value(c.func, fi) and "self.name" in norm(c.func if not isinstance(c.func, ast.Name) else single_def(fi, c.func.id))]
    ok = False
    md = None
    if len(calls) == 1 and calls[0].args and isinstance(calls[0].args[-1], ast.Starred) and not any(isinstance(a_, ast.Starred) for a_ in calls[0].args[:-1]) and not calls[0].keywords:
        # f(*[ds, ns, v1, ...])  or  f(ds, ns, *[v1, ...]): the leading plain arguments are the front of the argument list
        md = map_desc(fi, calls[0].args[-1].value)
        if md is not None:
            md = ([norm(a_) for a_ in calls[0].args[:-1]] + list(md[0]),) + tuple(md[1:])
        ok = md == (["datastore", "namespace"], "self.args", "_.interpret(datastore, namespace)", None)
    rep.check(ok, "LOOPS", fi.short, "argument evaluation", "all of self.args, in order, after (datastore, namespace)", f"a call does not apply the built-in to the values of all of its arguments in written order (argument list: {md})", fi.loc())
    # ... and what the call expression evaluates to is what the built-in returned: no return that answers in its place
    if len(calls) == 1:
        for r in [r for r in walk_own(fi.node) if isinstance(r, ast.Return)]:
            v = r.value
            if isinstance(v, ast.Name) and single_def(fi, v.id) is not None:
                v = single_def(fi, v.id)
            rep.check(v is calls[0], "LOOPS", fi.short, f"return {norm(r.value)[:40] if r.value is not None else ''}", "the value of a call is the built-in's result", f"`{norm(r)[:60]}` does not return the result of `{norm(calls[0])[:50]}`: for the calls that reach it the expression evaluates to something the built-in did not compute (sum_durations([]) is a timedelta, nop() is 1, not an empty list)", fi.loc(r))
    fi = prog.func("QList.interpret")
    rets = [r for r in walk_own(fi.node) if isinstance(r, ast.Return)]
    md = map_desc(fi, rets[0].value) if len(rets) == 1 and rets[0].value is not None else None
    ok = md == ([], "self.value", "_.interpret(datastore, namespace)", None)
    rep.check(ok, "LOOPS", fi.short, "element evaluation", "every element, in order", f"a list literal does not evaluate to the list of its elements' values ({md})", fi.loc())
    fi = prog.func("QDict.interpret")
    rets = [r for r in walk_own(fi.node) if isinstance(r, ast.Return)]
    md = map_desc(fi, rets[0].value) if len(rets) == 1 and rets[0].value is not None else None
    ok = md == ([], "self.value.items()", "_.interpret(datastore, namespace)", "key")
    rep.check(ok, "LOOPS", fi.short, "entry evaluation", "every entry", f"a dict literal does not evaluate to the dict of its values ({md})", fi.loc())
    for cname, expr in (("QInteger", "int(string)"), ("QString", None)):
        fi = prog.func(f"{cname}.interpret")
        rep.check(_ret_texts(fi) == {"self.value"}, "LOOPS", fi.short, "literal value", "self.value", f"a literal does not evaluate to itself (returns {sorted(_ret_texts(fi))})", fi.loc())
    fi = prog.func("QInteger.parse")
    p0 = fi.params[0]
    rep.check(_ret_texts(fi) == {f"QInteger(int({p0}))"}, "LOOPS", fi.short, "integer literal", "QInteger(int(string))", f"integer literal is not parsed with int() (returns {sorted(_ret_texts(fi))})", fi.loc())
    fi = prog.func("QString.parse")
    p0 = fi.params[0]
    t = _ret_texts(fi)
    esc = "'\\\\'"
    want = {f"QString({p0}.replace({esc} + {p0}[0], {p0}[0])[1:-1])"}
    rep.check(t == want, "LOOPS", fi.short, "string literal", "unescape own quote, strip the delimiters", f"string literal is decoded as {sorted(t)}, not as {sorted(want)}", fi.loc())


def assignment_rule(prog, rep):
    rep.rule("ASSIGN", "query(): each statement is parsed inside the statement loop, before it is interpreted, against the current namespace (variables are bound at parse time); interpret assigns namespace[var.name]; the value returned is namespace['RETURN']")
    fi = prog.func("query", "aw_query.query2")
    loops = [l for l in walk_own(fi.node) if isinstance(l, ast.For)]
    ok = False
    why = "no statement loop"
    if len(loops) == 1:
        lp = loops[0]
        st = norm(lp.target)
        calls_p = [c for c in ast.walk(lp) if isinstance(c, ast.Call) and norm(c.func) == "parse"]
        calls_i = [c for c in ast.walk(lp) if isinstance(c, ast.Call) and norm(c.func) == "interpret"]
        if len(calls_p) == 1 and len(calls_i) == 1:
            p, i = calls_p[0], calls_i[0]
            asg = parent(p)
            # the text handed to parse() is the loop's statement, possibly through `x = y` / `x = y.strip()` inside the loop
            alias = {st}
            changed_ = True
            while changed_:
                changed_ = False
                for a_ in ast.walk(lp):
                    if isinstance(a_, ast.Assign) and len(a_.targets) == 1 and isinstance(a_.targets[0], ast.Name) and a_.targets[0].id not in alias:
                        v_ = a_.value
                        if isinstance(v_, ast.Call) and isinstance(v_.func, ast.Attribute) and v_.func.attr == "strip" and not v_.args:
                            v_ = v_.func.value
                        if isinstance(v_, ast.Name) and v_.id in alias:
                            alias.add(a_.targets[0].id)
                            changed_ = True
            ok = norm(p.args[0]) in alias and norm(p.args[1]) == "namespace" and isinstance(asg, ast.Assign) and isinstance(asg.targets[0], ast.Tuple) and len(asg.targets[0].elts) == 2
            if ok:
                a_, b_ = [norm(x) for x in asg.targets[0].elts]
                ok = [norm(a) for a in i.args] == [a_, b_, "namespace", "datastore"]
            # same block, consecutive
            blk = None
            for n in ast.walk(lp):
                for f in ("body", "orelse"):
                    b = getattr(n, f, None)
                    if isinstance(b, list) and asg in b:
                        blk = b
            ok = ok and blk is not None and any(isinstance(s, ast.Expr) and s.value is i and blk.index(s) > blk.index(asg) for s in blk)
            why = "parse / interpret of a statement are not paired inside the loop in that order"
        else:
            why = f"{len(calls_p)} parse / {len(calls_i)} interpret calls inside the statement loop (parsing hoisted out of the loop binds stale variable values)"
        it = norm(lp.iter)
        d = single_def(fi, it) if isinstance(lp.iter, ast.Name) else lp.iter
        ok = ok and d is not None and norm(d) == "query.split(';')"
        exits = [n for n in ast.walk(lp) if isinstance(n, (ast.Break, ast.Return))]
        rep.check(not exits and not lp.orelse, "ASSIGN", fi.short, "every statement is executed", "no break / return inside the statement loop", f"the statement loop is left early (line {exits[0].lineno if exits else lp.lineno}): statements after that point are never executed (a later assignment to the same variable, or a later error, is lost)", fi.loc(exits[0] if exits else lp))
        # the only statements skipped are the empty ones
        g = cfg_of(fi)
        if calls_p and len(calls_p) == 1:
            pn = g.node_of(calls_p[0])
            head = g.node_of(lp)
            from ..cfg import truth

            def _edge(u, v, lab):
                if v == pn:
                    return False
                if lab and lab[0] == "cond":
                    t = truth(lab, st)
                    if t is False or norm(lab[1]) in (f"{st} == ''", f"len({st}) == 0") and lab[2] is True or norm(lab[1]) in (f"{st} != ''", f"len({st}) > 0") and lab[2] is False:
                        return False  # the statement is empty on this edge
                return True

            r = g.reach_filtered(g.node_of(lp.body[0]), _edge) if lp.body else set()
            back = [n for n in r if n == head]
            rep.check(not back, "ASSIGN", fi.short, "only empty statements are skipped", "the loop head is reached again without parsing only when the statement is empty", "a non-empty statement can be skipped without being parsed and interpreted", fi.loc(lp))
    rep.check(ok, "ASSIGN", fi.short, "parse then interpret, per statement", "", why, fi.loc())
    from ..paths import summarize
    from ..trace import deep, path_value, sym_value

    ii = prog.func("interpret", "aw_query.query2")
    pv, pval, pns, pds = ii.params
    binds = [s_ for s_ in ii.node.body if isinstance(s_, ast.Assign) and isinstance(s_.targets[0], ast.Subscript) and norm(s_.targets[0].value) == pns]
    ok = len(binds) == 1 and norm(binds[0].targets[0].slice) == f"{pv}.name" and norm(deep(binds[0].value, ii)) == f"{pval}.interpret({pds}, {pns})" and not [s_ for s_ in ii.node.body if isinstance(s_, (ast.If, ast.For, ast.While, ast.Try, ast.Return))]
    rep.check(ok, "ASSIGN", ii.short, "assignment", "namespace[var.name] = val.interpret(...)", "an assignment statement does not bind the variable to the value of its right-hand side", ii.loc())
    vp = prog.func("QVariable.parse")
    ps_, pn_ = vp.params
    sums, _g = summarize(vp, env=Env(vp, None, inline_locals=False))
    ok = bool(sums)
    seen = set()
    for sm in sums:
        present = (f"{ps_} in {pn_}", True) in sm.opaque or (f"{ps_} not in {pn_}", False) in sm.opaque
        absent = (f"{ps_} in {pn_}", False) in sm.opaque or (f"{ps_} not in {pn_}", True) in sm.opaque
        r = norm(path_value(sm, sm.ret)) if sm.ret is not None else None
        if present:
            ok = ok and r in (f"QVariable({ps_}, {pn_}[{ps_}])", f"QVariable({ps_}, {pn_}.get({ps_}))")
            seen.add("present")
        elif absent:
            ok = ok and r in (f"QVariable({ps_}, None)", f"QVariable({ps_}, {pn_}.get({ps_}))")
            seen.add("absent")
        else:
            ok = ok and r in (f"QVariable({ps_}, {pn_}.get({ps_}))", f"QVariable({ps_}, {pn_}.get({ps_}, None))")
            seen |= {"present", "absent"}
    rep.check(ok and seen == {"present", "absent"}, "ASSIGN", vp.short, "variable lookup", "current namespace value", "a variable reference does not read the namespace (value of the name if it is bound, None otherwise)", vp.loc())
    vi = prog.func("QVariable.interpret")
    rep.check(_ret_texts(vi) == {"self.value"}, "ASSIGN", vi.short, "variable value", "the bound value", "a variable does not evaluate to its bound value", vi.loc())
    gr = prog.func("get_return")
    rep.check(_ret_texts(gr) == {f"{gr.params[0]}['RETURN']"}, "ASSIGN", gr.short, "result", "namespace['RETURN']", "the query result is not the RETURN variable", gr.loc())
    rep.check(_ret_texts(fi, stop=("namespace",)) == {"get_return(namespace)"}, "ASSIGN", fi.short, "returns get_return(namespace)", "", "query() does not return the RETURN variable", fi.loc())
    # the assignment statement splitter
    pf = prog.func("parse", "aw_query.query2")
    ln = pf.params[0]
    scans = [c for c in walk_own(pf.node) if isinstance(c, ast.Call) and norm(c.func) == "_parse_token" and c.args]
    scans.sort(key=lambda c: c.lineno)
    firsts = {f"{ln}[:{ln}.find('=')]", f"{ln}.partition('=')[0]", f"{ln}.split('=', 1)[0]", f"{ln}[:{ln}.index('=')]"}
    seconds = {f"{ln}[{ln}.find('=') + 1:]", f"{ln}.partition('=')[2]", f"{ln}.split('=', 1)[1]", f"{ln}[{ln}.index('=') + 1:]"}
    got = [norm(sym_value(pf, c.args[0])) for c in scans]
    ok = len(scans) == 2 and got[0] in firsts and got[1] in seconds
    rep.check(ok, "ASSIGN", pf.short, "split at the first '='", "line[:i] / line[i+1:]", f"a statement is not split into variable and value at its first '=' (the two scanned texts are {got})", pf.loc())


def _inj_cond(test, fns):
    """(which, polarity) when `test` asks whether the wrapped function has a Datastore / TNamespace annotated parameter"""
    if isinstance(test, ast.UnaryOp) and isinstance(test.op, ast.Not):
        r = _inj_cond(test.operand, fns)
        return (r[0], not r[1]) if r else None
    if isinstance(test, ast.Name):
        for fn in fns:
            d = single_def(fn, test.id)
            if d is not None:
                return _inj_cond(d, fns)
        return None
    if isinstance(test, ast.Compare) and len(test.ops) == 1 and isinstance(test.ops[0], (ast.In, ast.NotIn)) and isinstance(test.left, ast.Name) and test.left.id in ("Datastore", "TNamespace"):
        c = test.comparators[0]
        if isinstance(c, ast.Name):
            for fn in fns:
                d = single_def(fn, c.id)
                if d is not None:
                    c = d
                    break
        t = norm(c)
        if ".annotation" in t and "parameters" in t:
            return ("ds" if test.left.id == "Datastore" else "ns", isinstance(test.ops[0], ast.In))
    return None


def _is_annotation_listing(e):
    t = norm(e)
    return isinstance(e, (ast.ListComp, ast.GeneratorExp, ast.SetComp, ast.Call)) and ".annotation" in t and "parameters" in t


def _wrapper_fold(g, h):
    """evaluate the registry wrapper's argument shuffling for the four (datastore annotated?, namespace annotated?) cases"""
    a = g.node.args
    WF = h.params[0] if h.params else "f"  # the wrapped function, under whatever name the decorator's parameter has
    if [x.arg for x in a.args] != ["datastore", "namespace"] or a.vararg is None or a.vararg.arg != "args":
        return f"wrapper signature is {norm(a)}"
    out = {}
    # the argument tuple may live under a name of its own (`call_args = (datastore, namespace, *args)` ... `f(*call_args)`):
    # read it under the name `args` when the *args parameter is used for nothing else
    body = g.node.body
    starred = [x.value.id for r_ in walk_own(g.node) if isinstance(r_, ast.Return) and isinstance(r_.value, ast.Call) for x in r_.value.args if isinstance(x, ast.Starred) and isinstance(x.value, ast.Name)]
    if starred and len(set(starred)) == 1 and starred[0] != "args":
        X = starred[0]
        arg_reads = [x for x in walk_own(g.node) if isinstance(x, ast.Name) and x.id == "args" and isinstance(x.ctx, ast.Load)]
        first = next((st for st in g.node.body if isinstance(st, (ast.Assign, ast.AnnAssign)) and norm(st.targets[0] if isinstance(st, ast.Assign) else st.target) == X), None)
        if first is not None and first.value is not None and len(arg_reads) == 1 and any(x is arg_reads[0] for x in ast.walk(first.value)):
            copy_ = ast.parse(ast.unparse(g.node)).body[0]
            for x in ast.walk(copy_):
                if isinstance(x, ast.Name) and x.id == X:
                    x.id = "args"
            for i_, st in enumerate(copy_.body):
                if isinstance(st, ast.AnnAssign) and st.value is not None and norm(st.target) == "args":
                    copy_.body[i_] = ast.copy_location(ast.Assign(targets=[st.target], value=st.value), st)
            ast.fix_missing_locations(copy_)
            body = copy_.body

    lists = {}  # other local lists / tuples built from the injected values (per case)

    def ev_tuple(e, cur):
        if isinstance(e, ast.Name) and e.id == "args":
            return list(cur)
        if isinstance(e, ast.Name) and e.id in lists:
            return list(lists[e.id])
        if isinstance(e, (ast.List,)):
            e = ast.Tuple(elts=e.elts, ctx=ast.Load())
        if isinstance(e, ast.Name) and e.id in ("datastore", "namespace"):
            return None
        if isinstance(e, ast.Subscript) and isinstance(e.value, ast.Name) and e.value.id == "args" and isinstance(e.slice, ast.Slice):
            lo = e.slice.lower.value if isinstance(e.slice.lower, ast.Constant) else (0 if e.slice.lower is None else None)
            if lo is None or e.slice.upper is not None or e.slice.step is not None or lo > len(cur) - 1:
                return None
            return list(cur[lo:])
        if isinstance(e, ast.Tuple):
            res = []
            for x in e.elts:
                if isinstance(x, ast.Starred):
                    v = ev_tuple(x.value, cur)
                    if v is None:
                        return None
                    res += v
                elif isinstance(x, ast.Name) and x.id in ("datastore", "namespace"):
                    res.append(x.id)
                elif isinstance(x, ast.Subscript) and isinstance(x.value, ast.Name) and x.value.id == "args" and isinstance(x.slice, ast.Constant) and isinstance(x.slice.value, int) and 0 <= x.slice.value < len(cur) - 1:
                    res.append(cur[x.slice.value])
                else:
                    return None
            return res
        return None

    for ds in (True, False):
        for ns in (True, False):
            cur = ["*args"]
            result = None
            lists.clear()

            def run(stmts):
                nonlocal cur, result
                for st in stmts:
                    if isinstance(st, ast.Expr) and isinstance(st.value, ast.Constant):
                        continue
                    if isinstance(st, ast.Assign) and len(st.targets) == 1 and norm(st.targets[0]) == "args":
                        v = ev_tuple(st.value, cur)
                        if v is None or v.count("*args") != 1 or v[-1] != "*args":
                            return f"unrecognised argument shuffling `{norm(st)}`"
                        cur = v
                    elif isinstance(st, ast.Assign) and len(st.targets) == 1 and isinstance(st.targets[0], ast.Name) and _is_annotation_listing(st.value):
                        continue  # a local holding the wrapped function's annotations: read by _inj_cond through its definition
                    elif isinstance(st, (ast.Assign, ast.AnnAssign)) and isinstance(st.targets[0] if isinstance(st, ast.Assign) else st.target, ast.Name) and isinstance(st.value, (ast.List, ast.Tuple)) and (st.targets[0] if isinstance(st, ast.Assign) else st.target).id != "args":
                        v = ev_tuple(st.value, cur)
                        if v is None:
                            return f"unrecognised list `{norm(st)}`"
                        lists[(st.targets[0] if isinstance(st, ast.Assign) else st.target).id] = v
                    elif isinstance(st, ast.Expr) and isinstance(st.value, ast.Call) and isinstance(st.value.func, ast.Attribute) and st.value.func.attr == "append" and isinstance(st.value.func.value, ast.Name) and st.value.func.value.id in lists and len(st.value.args) == 1 and isinstance(st.value.args[0], ast.Name) and st.value.args[0].id in ("datastore", "namespace"):
                        lists[st.value.func.value.id] = lists[st.value.func.value.id] + [st.value.args[0].id]
                    elif isinstance(st, ast.If):
                        c = _inj_cond(st.test, [g, h])
                        if c is None:
                            return f"unrecognised condition `{norm(st.test)}`"
                        val = (ds if c[0] == "ds" else ns) == c[1]
                        r = run(st.body if val else st.orelse)
                        if r:
                            return r
                        if result is not None:
                            return None
                    elif isinstance(st, ast.Return):
                        v = st.value
                        if isinstance(v, ast.Call) and norm(v.func) == WF and len(v.args) == 1 and isinstance(v.args[0], ast.Starred) and norm(v.args[0].value) == "args" and len(v.keywords) == 1 and v.keywords[0].arg is None and norm(v.keywords[0].value) == "kwargs":
                            result = list(cur)
                            return None
                        if isinstance(v, ast.Call) and norm(v.func) == WF and all(k.arg is None for k in v.keywords):
                            r = ev_tuple(ast.Tuple(elts=v.args, ctx=ast.Load()), cur)
                            if r is not None:
                                result = r
                                return None
                        return f"unrecognised forwarding `{norm(st)}`"
                    else:
                        return f"unrecognised statement `{norm(st)[:80]}`"
                return None

            r = run(body)
            if r:
                return r
            if result is None:
                return "the wrapper does not call the wrapped function on some path"
            out[(ds, ns)] = result
    return out


def _registration_name(h):
    """functions[<name of f without the q2_ prefix>] = g"""
    WFN = h.params[0] if h.params else "f"
    P = "q2_"
    var = None
    for n in walk_own(h.node):
        if isinstance(n, ast.Assign) and len(n.targets) == 1 and isinstance(n.targets[0], ast.Name) and norm(n.value) == f"{WFN}.__name__":
            var = n.targets[0].id
    if var is None:
        return False
    stripped = False
    for n in walk_own(h.node):
        if isinstance(n, ast.Assign) and len(n.targets) == 1 and norm(n.targets[0]) == var and norm(n.value) != f"{WFN}.__name__":
            v = n.value
            par = parent(n)
            if isinstance(v, ast.Call) and norm(v.func) == f"{var}.removeprefix" and len(v.args) == 1 and isinstance(v.args[0], ast.Constant) and v.args[0].value == P:
                stripped = True
                continue
            cut = isinstance(v, ast.Subscript) and norm(v.value) == var and isinstance(v.slice, ast.Slice) and isinstance(v.slice.lower, ast.Constant) and v.slice.lower.value == len(P) and v.slice.upper is None
            test = norm(par.test) if isinstance(par, ast.If) and n in par.body else None
            if cut and test in (f"{var}[:{len(P)}] == '{P}'", f"{var}.startswith('{P}')", f"'{P}' == {var}[:{len(P)}]"):
                stripped = True
                continue
            return False
    regs = [n for n in walk_own(h.node) if isinstance(n, ast.Assign) and len(n.targets) == 1 and isinstance(n.targets[0], ast.Subscript) and norm(n.targets[0].value) == "functions"]
    return stripped and len(regs) == 1 and norm(regs[0].targets[0].slice) == var and norm(regs[0].value) == "g"


def values_rule(prog, rep):
    """value semantics of variables: a built-in must not change the values its arguments are bound to"""
    from ..heap import mutations_of_param
    from ..rules_own import transform_analysis
    from .c19 import ALLOWED

    rep.rule("VALUES", "no registered built-in writes at or below its (non-injected) arguments, except the annotating transforms, which add their own keys to event.data (C19): otherwise a variable passed to a built-in no longer evaluates to the value it was assigned (`a = ...; b = f(a); RETURN = a`)")
    annot = set()
    for v in ALLOWED.values():
        annot |= {x for x in v if isinstance(x, str)}
    n = 0
    for fi in prog.registry():
        own = [p for p in fi.params if fi.annotations.get(p) not in ("Datastore", "TNamespace")]
        if not own:
            continue
        _, an = transform_analysis(prog, fi.short)
        for nm in own:
            idx = fi.params.index(nm)
            n += 1
            bad = []
            for w in mutations_of_param(an, idx):
                path = tuple(w.node[2])
                if path == ("*", "data") and w.how == "[...] =" and (w.label in annot or isinstance(w.label, tuple)):
                    continue  # an annotating transform adding its key
                bad.append(w)
            if bad:
                w = bad[0]
                what = ".".join(str(x) for x in w.node[2]) or "<the list itself>"
                rep.violation("VALUES", fi.short, f"argument {nm}", f"the built-in modifies its argument: `{w.how}` on {nm}{'[' + what + ']' if what else ''} in {w.fn} at {w.loc}: after `x = {fi.name[3:]}({nm}, ...)` the variable bound to `{nm}` (and every alias of it) no longer holds the value it was assigned", w.loc, found=[repr(x) for x in bad[:4]])
            else:
                rep.ok("VALUES", fi.short, f"argument {nm}", "not modified (annotation keys aside)", fi.loc())
    rep.floor("built-in arguments analysed", n, 25)


def _first_match(prog, pt):
    """_parse_token: `for t in qtypes: tok, rest = t.check(s)`; the first truthy tok ends the search (break, or return inside
    the loop) and what is returned for it is ((t, tok), rest)  ->  (first-match ok, result ok, why)"""
    from ..cfg import truth

    loops = [l for l in walk_own(pt.node) if isinstance(l, ast.For) and norm(l.iter) == "qtypes" and isinstance(l.target, ast.Name)]
    if len(loops) != 1:
        return False, False, f"{len(loops)} loops over qtypes"
    lp = loops[0]
    tv = lp.target.id
    scans = [a for a in ast.walk(lp) if isinstance(a, ast.Assign) and isinstance(a.value, ast.Call) and norm(a.value.func) == f"{tv}.check" and isinstance(a.targets[0], ast.Tuple) and len(a.targets[0].elts) == 2 and all(isinstance(x, ast.Name) for x in a.targets[0].elts)]
    if len(scans) != 1:
        return False, False, f"{len(scans)} scanner calls in the loop"
    tok, rest = [x.id for x in scans[0].targets[0].elts]
    g = cfg_of(pt)
    head = g.node_of(lp)
    # from the edge `tok` truthy, the loop head must not be reachable again
    starts = [v for n in g.nodes if n.kind == "branch" for v, lab in g.succ[n.id] if truth(lab, tok) is True and any(n.ast is x or True for x in [0])]
    starts = [v for n in g.nodes if n.kind == "branch" and any(n.ast is x for x in ast.walk(lp)) for v, lab in g.succ[n.id] if truth(lab, tok) is True]
    if not starts:
        return False, False, "no test of the scanned token inside the loop"
    first = all(head not in g.reach_avoiding([v], include_start=True) for v in starts)
    # returns reachable from there carry ((t, tok), rest)
    rets = [n for n in g.nodes if n.kind == "stmt" and isinstance(n.ast, ast.Return) and any(n.id in g.reach_avoiding([v], include_start=True) for v in starts)]
    res = bool(rets) and all(norm(r.ast.value) == f"(({tv}, {tok}), {rest})" for r in rets)
    return first, res, "" if first else "the loop goes on after a scanner matched"


def registry_rule(prog, rep):
    rep.rule("REGISTRY", "every registered query function takes its Datastore / TNamespace parameters first, in that order (the wrapper strips the injected arguments by position) and the wrappers forward all remaining positional arguments in order; qtypes lists exactly the subclasses of QToken, each defining check, parse and interpret")
    reg = prog.registry()
    rep.floor("registered query functions", len(reg), 18)
    for fi in reg:
        anns = [fi.annotations.get(p) for p in fi.params]
        inj = [a for a in anns if a in ("Datastore", "TNamespace")]
        k = len(inj)
        ok = anns[:k] == inj and inj in ([], ["Datastore"], ["TNamespace"], ["Datastore", "TNamespace"])
        rep.check(ok, "REGISTRY", fi.short, "injected parameters lead", f"{anns[:k]}", f"parameters annotated Datastore/TNamespace are not the leading parameters in that order ({list(zip(fi.params, anns))}): the wrapper strips by position, so arguments shift by one", fi.loc())
        decos = fi.decorators
        rep.check(len(decos) == 2 and decos[0].startswith("q2_function") and decos[1] == "q2_typecheck", "REGISTRY", fi.short, "decorators", f"{decos}", f"decorators are {decos} (registry wrapper outermost, typecheck inside)", fi.loc())
    n_fw = 0
    for fi in reg:
        own = [p for p in fi.params if fi.annotations.get(p) not in ("Datastore", "TNamespace")]
        rets = [r for r in walk_own(fi.node) if isinstance(r, ast.Return)]
        if len(rets) > 1 and fi.node.body and isinstance(fi.node.body[-1], ast.Return) and isinstance(fi.node.body[-1].value, ast.Call) and [x for x in prog.resolve_call(fi.node.body[-1].value, fi) if x.cls is None]:
            # a wrapper with a short cut: besides `return transform(args)` it has a return that hands an argument back as the
            # answer, under a test of OTHER arguments only — it answers for the transform, for the inputs that test selects
            from ..rules_raise import _guard_names

            last = fi.node.body[-1]
            fwd = {x.id for x in ast.walk(last.value) if isinstance(x, ast.Name)}
            for r in rets:
                if r is last or not (isinstance(r.value, ast.Name) and r.value.id in own and r.value.id in fwd):
                    continue
                gn = _guard_names(r, fi.node)
                if gn and r.value.id not in gn and not any(g_.startswith(r.value.id + ".") or f"({r.value.id})" in g_ for g_ in gn):
                    rep.violation("REGISTRY", fi.short, f"return {r.value.id}", f"`return {r.value.id}` under a test of {sorted(gn)[:3]}: for those arguments the built-in hands its argument back instead of the result of `{norm(last.value)[:50]}`; the two differ whenever the transform does something for them (a count of 0 keeps no event, an empty key list still merges)", fi.loc(r))
            rets = [last]
        if len(rets) != 1 or not isinstance(rets[0].value, ast.Call):
            continue
        c = rets[0].value
        callees = [x for x in prog.resolve_call(c, fi) if x.cls is None]
        if len(callees) != 1:
            continue
        cal = callees[0]
        n_fw += 1
        landed = {}
        for i, a in enumerate(c.args):
            if isinstance(a, ast.Name) and a.id in own and i < len(cal.params):
                landed[a.id] = cal.params[i]
        for k in c.keywords:
            if k.arg and isinstance(k.value, ast.Name) and k.value.id in own:
                landed[k.value.id] = k.arg
        wrong = {p: q for p, q in landed.items() if p in cal.params and q != p}
        # the value the query wrote reaches the transform as it is: not wrapped in a conversion (set / frozenset / tuple / str ...)
        conv = [a for a in list(c.args) + [k_.value for k_ in c.keywords] if isinstance(a, ast.Call) and isinstance(a.func, ast.Name) and a.func.id in ("set", "frozenset", "tuple", "list", "dict", "str", "int", "float", "bool", "sorted", "reversed", "iter") and any(isinstance(x, ast.Name) and x.id in own for x in ast.walk(a))]
        rep.check(not conv, "REGISTRY", fi.short, f"arguments of {cal.short} passed as written", "no conversion", (f"the built-in hands `{norm(conv[0])[:50]}` to {cal.short} instead of the argument's value: the conversion fails or changes the value for arguments the language allows (a list or dict inside the list is unhashable: TypeError, which the interpreter then reports as a wrong number of arguments; a generator is consumed once)" if conv else ""), fi.loc(c))
        rep.check(not wrong, "REGISTRY", fi.short, f"arguments of {cal.short}", f"{landed}", f"the built-in hands its argument(s) to the wrong parameter of {cal.short}: {wrong} (same-named parameters must receive the same-named arguments)", fi.loc(c))
        unused = [p for p in own if not any(isinstance(x, ast.Name) and x.id == p for x in ast.walk(fi.node) if not isinstance(x, ast.arg))]
        rep.check(not unused, "REGISTRY", fi.short, "all arguments used", "", f"argument(s) {unused} of the built-in are ignored", fi.loc())
    rep.floor("single-call built-in wrappers", n_fw, 12)
    g = prog.func("q2_function.h.g")
    h = prog.func("q2_function.h")
    res = _wrapper_fold(g, h)
    if isinstance(res, str):
        rep.undecided("REGISTRY", g.short, "injection / stripping", res, g.loc())
    else:
        bad = [f"function wants (datastore={ds}, namespace={ns}) but is called with {got}" for (ds, ns), got in res.items() if got != (["datastore"] if ds else []) + (["namespace"] if ns else []) + ["*args"]]
        rep.check(not bad, "REGISTRY", g.short, "injection / stripping", "for each of the four annotation cases the function receives [datastore if annotated] + [namespace if annotated] + the query's arguments in order", f"the registry wrapper no longer forwards the arguments positionally as expected: {bad}", g.loc(), expected="(datastore?, namespace?, *args)", found=str(res))
    ok = _registration_name(h)
    rep.check(ok, "REGISTRY", h.short, "registration name", "function name without the q2_ prefix", "functions are not registered under their name without the q2_ prefix", h.loc())
    tg = prog.func("q2_typecheck.g")
    rets = [r for r in walk_own(tg.node) if isinstance(r, ast.Return)]
    tf = tg.outer.params[0] if tg.outer is not None and tg.outer.params else "f"
    rep.check(len(rets) == 1 and norm(rets[0].value) == f"{tf}(*args, **kwargs)", "REGISTRY", tg.short, "forwarding", "f(*args, **kwargs)", "the typecheck wrapper does not forward its arguments unchanged", tg.loc())
    # token classes
    mi = prog.module("aw_query.query2")
    qt = mi.consts.get("qtypes")
    listed = [norm(x) for x in qt.elts] if isinstance(qt, (ast.List, ast.Tuple)) else []
    subs = sorted(c.name for c in token_classes(prog))
    rep.check(sorted(listed) == subs and len(listed) == len(set(listed)), "REGISTRY", "qtypes", "exhaustive token table", f"{listed}", f"qtypes lists {listed} but the QToken subclasses are {subs}: a token kind can never be recognised (or is tried twice)", f"{mi.relpath}:{getattr(qt, 'lineno', 0)}")
    # a scanner that is tried before the name scanners and accepts text that begins like a name takes the front of every
    # identifier that starts that way (first match wins): variables named `true_events`, `Nonesuch`, `infile` stop parsing
    KNOWN_TOKENS = ("QString", "QInteger", "QFunction", "QDict", "QList", "QVariable")
    for pos_, nm_ in enumerate(listed):
        if nm_ in KNOWN_TOKENS:
            continue
        before_names = any(listed.index(k_) > pos_ for k_ in ("QVariable", "QFunction") if k_ in listed)
        ck_ = prog.func(f"{nm_}.check") if f"{nm_}.check" in getattr(prog, "by_short", {}) else None
        if ck_ is None:
            cands_ = [f_ for f_ in prog.funcs.values() if f_.cls is not None and f_.cls.name == nm_ and f_.name == "check"]
            ck_ = cands_[0] if cands_ else None
        wordy = False
        if ck_ is not None:
            cls_ = ck_.cls
            texts_ = [x.value for x in ast.walk(cls_.node) if isinstance(x, ast.Constant) and isinstance(x.value, str) and x.value[:1].isalpha()]
            wordy = any(isinstance(x, ast.Call) and isinstance(x.func, ast.Attribute) and x.func.attr in ("startswith", "isalpha", "isidentifier", "isalnum") for x in ast.walk(ck_.node)) and (bool(texts_) or any(isinstance(x, ast.Attribute) and x.attr in ("isalpha", "isidentifier", "isalnum") for x in ast.walk(ck_.node)))
            boundary = any(isinstance(x, ast.Call) and isinstance(x.func, ast.Attribute) and x.func.attr in ("isalnum", "isidentifier", "isalpha") for x in ast.walk(ck_.node)) and any(isinstance(x, ast.UnaryOp) and isinstance(x.op, ast.Not) for x in ast.walk(ck_.node))
            wordy = wordy and not boundary
        if before_names and wordy:
            rep.violation("REGISTRY", "qtypes", f"{nm_} ahead of the name scanners", f"`{nm_}` is tried before QVariable / QFunction and its scanner accepts text that begins like a name (literal words matched with startswith, no test that the word ends there): the first matching scanner wins, so every variable or function whose name begins with one of those words is cut in two and the statement no longer parses (and those names can no longer be assigned)", f"{mi.relpath}:{getattr(qt, 'lineno', 0)}")
        else:
            rep.undecided("REGISTRY", "qtypes", f"token class {nm_}", "a token class the rules do not know: its scanner is not related to the others'", f"{mi.relpath}:{getattr(qt, 'lineno', 0)}")
    for c in token_classes(prog):
        miss = [m for m in ("check", "parse", "interpret") if prog.method(c, m) is None or prog.method(c, m).cls.name == "QToken"]
        rep.check(not miss, "REGISTRY", c.name, "defines check/parse/interpret", "", f"{c.name} does not define {miss}: the abstract method raises NotImplementedError", f"{mi.relpath}:{c.node.lineno}")
    # scanners are tried in the listed order, first match wins
    pt = prog.func("_parse_token")
    ok_first, ok_res, why_first = _first_match(prog, pt)
    rep.check(ok_first, "REGISTRY", pt.short, "first matching scanner wins", "", f"_parse_token does not stop at the first scanner that recognises a token ({why_first})", pt.loc())
    rep.check(listed[:1] == ["QString"] and listed.index("QFunction") < listed.index("QVariable") if {"QString", "QFunction", "QVariable"} <= set(listed) else False, "REGISTRY", "qtypes", "order", "QString first; QFunction before QVariable", f"scanner order {listed}: a call `f(x)` would be read as the variable `f` / a quoted bracket as a list", f"{mi.relpath}:{getattr(qt, 'lineno', 0)}")
    rep.check(ok_res, "REGISTRY", pt.short, "result", "((class, token), remainder)", "_parse_token does not return ((class, token text), remainder) of the scanner that matched", pt.loc())


def spacing_rule(prog, rep):
    rep.rule("SPACING", "every separator test of the entry loops (`s[0] == ','`, `s[0] != ':'`) is evaluated on a string proved to have no leading white space (abstract interpretation, fact LS established by strip()): otherwise spacing or a line break before the separator makes it invisible and changes the result")
    from ..absint import F, TOP, Interp

    mi = prog.module("aw_query.query2")
    qt = mi.consts.get("qtypes")
    classes = [prog.cls(norm(x)) for x in qt.elts] if isinstance(qt, (ast.List, ast.Tuple)) else []
    it = Interp(prog, classes)
    it.call(prog.func("query", "aw_query.query2"), [TOP, F("STR", "NOTNONE"), TOP, TOP, TOP])
    n = 0
    for key, s in sorted(it.safe.items()):
        if key[2] == "Spacing":
            n += 1
            rep.ok("SPACING", s.fi.short, key[1], "operand is left-stripped", s.fi.loc(s.node))
    for key, s in sorted(it.unsafe.items()):
        if key[2] == "Spacing":
            n += 1
            rep.violation("SPACING", s.fi.short, key[1], f"`{key[1]}` looks for the separator in the first character of a string that may start with white space (known facts {sorted(s.have)}): `{{\"a\": 1 , \"b\": 2}}` (space before the comma) is no longer read as two entries, so spacing around separators changes the result", s.fi.loc(s.node))
    rep.floor("separator tests", n, 3)


def text_level_rules(prog, rep):
    """what only the scanners may decide: they are the only code that knows where string literals are"""
    rep.rule("TEXT", "outside the scanners, no statement is rejected by counting characters of the raw text (`text.count(c)` sees the brackets and quotes inside string literals); a function that splits text at top-level commas tracks the nesting depth of all three bracket kinds ( [ {; no function of the query packages keeps state in a `global`")
    mods = [m for m in prog.modules.values() if m.name.startswith(("aw_query", "aw_transform"))]
    n = 0
    for fi in prog.funcs.values():
        if fi.mod not in mods:
            continue
        # (a) raise guarded by a character count
        for r in [x for x in walk_own(fi.node) if isinstance(x, ast.Raise)]:
            p_ = parent(r)
            while p_ is not None and not isinstance(p_, ast.If):
                p_ = parent(p_)
            if p_ is None:
                continue
            names = {x.id for x in ast.walk(p_.test) if isinstance(x, ast.Name)}
            exprs = [p_.test] + [d.value for nm in names for d in local_defs(fi, nm) if getattr(d, "value", None) is not None]
            cnt = [c for e in exprs for c in ast.walk(e) if isinstance(c, ast.Call) and isinstance(c.func, ast.Attribute) and c.func.attr == "count" and c.args]
            if cnt:
                n += 1
                rep.violation("TEXT", fi.short, f"raise under `{norm(p_.test)[:50]}`", f"the statement is rejected on the strength of `{norm(cnt[0])[:50]}`: counting characters of the raw text also counts the ones inside string literals, so a well-formed program such as `RETURN = \"(\";` is refused", fi.loc(r))
        # (b) comma splitter
        for lp in [x for x in walk_own(fi.node) if isinstance(x, ast.For)]:
            commas = [t for t in ast.walk(lp) if isinstance(t, ast.Compare) and len(t.ops) == 1 and isinstance(t.ops[0], ast.Eq) and isinstance(t.comparators[0], ast.Constant) and t.comparators[0].value == ","]
            slices = [x for x in ast.walk(lp) if isinstance(x, ast.Call) and isinstance(x.func, ast.Attribute) and x.func.attr == "append" and x.args and isinstance(x.args[0], ast.Subscript) and isinstance(x.args[0].slice, ast.Slice)]
            if not commas or not slices:
                continue
            n += 1
            opened, closed = set(), set()
            for br in [x for x in ast.walk(lp) if isinstance(x, ast.If)]:
                chars = {c.comparators[0].value for c in ast.walk(br.test) if isinstance(c, ast.Compare) and len(c.ops) == 1 and isinstance(c.ops[0], (ast.Eq, ast.In)) and isinstance(c.comparators[0], ast.Constant) and isinstance(c.comparators[0].value, str)}
                chars |= {ch for c in ast.walk(br.test) if isinstance(c, ast.Compare) and len(c.ops) == 1 and isinstance(c.ops[0], ast.In) and isinstance(c.comparators[0], (ast.Tuple, ast.List, ast.Set)) for e in c.comparators[0].elts if isinstance(e, ast.Constant) and isinstance(e.value, str) for ch in [e.value]}
                chars |= {ch for c in ast.walk(br.test) if isinstance(c, ast.Compare) and len(c.ops) == 1 and isinstance(c.ops[0], ast.In) and isinstance(c.comparators[0], ast.Constant) and isinstance(c.comparators[0].value, str) for ch in c.comparators[0].value}
                for st in br.body:
                    if isinstance(st, ast.AugAssign) and isinstance(st.value, ast.Constant) and st.value.value == 1:
                        (opened if isinstance(st.op, ast.Add) else closed).update(chars)
            miss = sorted(({"(", "[", "{"} - opened) | ({")", "]", "}"} - closed))
            rep.check(not miss, "TEXT", fi.short, "top-level comma splitter", "depth follows ( [ { and ) ] }", f"{fi.short} cuts the text at every comma outside quotes and outside the brackets it counts, but it does not count {miss}: an entry that contains a call with two arguments (`[f(a, b), 1]`) is cut inside the call and the literal no longer parses", fi.loc(lp))
        # (c) global state
        for g_ in [x for x in walk_own(fi.node) if isinstance(x, ast.Global)]:
            written = [nm for nm in g_.names if any(isinstance(x, ast.Name) and x.id == nm and isinstance(x.ctx, ast.Store) for x in walk_own(fi.node))]
            if written:
                n += 1
                rep.violation("TEXT", fi.short, f"global {', '.join(written)}", f"{fi.short} keeps state in the module-level variable(s) {written}: what one query (or one failed parse: an exception between the update and its undo leaves it changed) does shows in all later queries of the process", fi.loc(g_))
    # (e) who writes variables: a variable holds its most recent ASSIGNMENT, so only the assignment machinery stores into the
    # namespace (query(): the three reserved names; interpret(): the assigned variable; QVariable.interpret: writes back the
    # value it just read).  A built-in that stores into the namespace changes what later statements read
    NS_WRITERS = {"query", "interpret", "QVariable.interpret", "create_namespace"}
    for fi in prog.funcs.values():
        if not fi.mod.name.startswith("aw_query") or fi.short in NS_WRITERS:
            continue
        ns_names = {p_ for p_ in fi.params if p_ == "namespace"} | {a_.arg for a_ in fi.node.args.args if a_.annotation is not None and norm(a_.annotation) == "TNamespace"}
        if not ns_names:
            continue
        for x in walk_with_nested_exprs(fi.node):
            w = None
            if isinstance(x, (ast.Assign, ast.AugAssign)):
                for t_ in (x.targets if isinstance(x, ast.Assign) else [x.target]):
                    if isinstance(t_, ast.Subscript) and isinstance(t_.value, ast.Name) and t_.value.id in ns_names:
                        w = x
            if isinstance(x, ast.Call) and isinstance(x.func, ast.Attribute) and isinstance(x.func.value, ast.Name) and x.func.value.id in ns_names and x.func.attr in ("update", "setdefault", "pop", "clear", "popitem", "__setitem__"):
                w = x
            if isinstance(x, ast.Delete) and any(isinstance(t_, ast.Subscript) and isinstance(t_.value, ast.Name) and t_.value.id in ns_names for t_ in x.targets):
                w = x
            if w is not None:
                n += 1
                rep.violation("TEXT", fi.short, f"`{norm(w)[:50]}`", f"{fi.short} stores into the query's namespace (`{norm(w)[:70]}`): a variable evaluates to its most recent assignment, and this is not an assignment of the program: a later statement that reads the name gets what the built-in left there (another type, another value)", fi.loc(w))
    # (f) the statement-level functions reject a statement only by what the scanners found, not by a look-up in some other
    # vocabulary (Python's keywords, a regular expression over the name ...)
    for fi in prog.funcs.values():
        if fi.mod.name != "aw_query.query2" or fi.cls is not None:
            continue
        for r in [x for x in walk_own(fi.node) if isinstance(x, ast.Raise)]:
            p_ = parent(r)
            while p_ is not None and not isinstance(p_, ast.If):
                p_ = parent(p_)
            if p_ is None:
                continue
            ext = [c_ for c_ in ast.walk(p_.test) if isinstance(c_, ast.Call) and isinstance(c_.func, ast.Attribute) and isinstance(c_.func.value, ast.Name) and fi.mod.imports.get(c_.func.value.id) is not None and fi.mod.imports[c_.func.value.id][1] is None and fi.mod.imports[c_.func.value.id][0] in ("keyword", "re", "string", "unicodedata", "builtins")]
            if ext:
                n += 1
                rep.violation("TEXT", fi.short, f"raise under `{norm(p_.test)[:50]}`", f"the statement is rejected on the strength of `{norm(ext[0])[:50]}`, a vocabulary that is not the query language's: names the language allows (`in`, `as`, `is`, `or` are ordinary identifiers to the scanners) stop being assignable", fi.loc(r))
    # (d) rewriting program text
    REWR = ("sub", "subn", "replace", "translate", "lower", "upper", "casefold", "swapcase", "title", "capitalize", "expandtabs")
    for fi in prog.funcs.values():
        if fi.mod.name != "aw_query.query2":
            continue
        in_qstring = fi.cls is not None and fi.cls.name == "QString"
        for c in [x for x in walk_with_nested_exprs(fi.node) if isinstance(x, ast.Call)]:
            f = c.func
            if in_qstring and not (isinstance(f, ast.Attribute) and f.attr in ("encode", "decode")):
                continue
            hit = isinstance(f, ast.Attribute) and f.attr in REWR and (c.args or f.attr not in ("replace",)) and not (f.attr == "replace" and not c.args)
            hit = hit or norm(f) in ("re.sub", "re.subn", "re.split")
            hit = hit or (isinstance(f, ast.Attribute) and f.attr in ("encode", "decode"))
            # un-escaping a scanned string token (`tok.replace("\\" + q, q)`) is the string scanner's own work, wherever a helper put it
            if hit and isinstance(f, ast.Attribute) and f.attr == "replace" and c.args and ((isinstance(c.args[0], ast.BinOp) and isinstance(c.args[0].left, ast.Constant) and c.args[0].left.value == "\\") or (isinstance(c.args[0], ast.Constant) and isinstance(c.args[0].value, str) and c.args[0].value.startswith("\\"))):
                hit = False
            if hit:
                n += 1
                rep.violation("TEXT", fi.short, f"`{norm(c)[:50]}`", f"{fi.short} rewrites program text with `{norm(c)[:70]}`: outside the string scanner nothing knows where string literals are, so the same rewriting is applied inside them (a `#`, a doubled space, an upper-case letter inside a quoted string is changed or cut) and the program no longer evaluates to the value its text denotes", fi.loc(c))
    rep.extra["text_level_sites"] = n
    if not n:
        rep.ok("TEXT", "aw_query / aw_transform", "text-level decisions", "no character-count rejection, no comma splitter, no global state", None)


def check(prog, rep):
    rep.level = "other"
    rep.explanation = (
        "The parser is hand-written character scanning; decided here are structural necessary conditions whose violation provably changes the "
        "denotation of some program: every scanner returns a partition of its input (no character dropped or duplicated); bracket depth changes "
        "only outside quotes and quote toggles honour escapes; argument / entry loops store exactly one value per iteration and interpretation maps "
        "every argument / element / entry in order; statements are parsed and interpreted one by one against the current namespace; registered "
        "functions take injected parameters first; the token-class table is exhaustive and ordered. Denotational equality for every program "
        "(language equivalence with a reference parser) is NOT decided."
    )
    rep.trusted_base = ["str slicing / find / strip semantics"]
    rep.not_decided = ["that the scanners accept exactly the grammar and denote the right value for every program (language equivalence)"]
    partition_rule(prog, rep)
    quote_guards(prog, rep)
    loops_rule(prog, rep)
    assignment_rule(prog, rep)
    registry_rule(prog, rep)
    values_rule(prog, rep)
    spacing_rule(prog, rep)
    arity_rule(prog, rep)
    text_level_rules(prog, rep)
    # the value of a call is a function of its arguments: nothing evaluated earlier is remembered
    from .c12 import stateless

    stateless(prog, rep)
    # nothing on the way is memoised on a key that does not determine the answer
    from ..rules_own import memo_rule

    memo_rule(prog, rep, rule="MEMO")


def arity_rule(prog, rep):
    """a call with its optional argument written out is well-formed: an up-front count test must leave room for it"""
    rep.rule("ARITY", "QFunction.interpret does not refuse a call by comparing the number of written arguments for (in)equality with ONE number: some registered built-in has a parameter with a default, so two argument counts are valid for it (the count is otherwise left to the call itself, whose TypeError is reported)")
    opt = [f for f in prog.registry() if f.node.args.defaults]
    rep.floor("registered built-ins with an optional parameter", len(opt), 1)
    fi = prog.func("QFunction.interpret")
    bad = None
    n = 0
    for st in walk_own(fi.node):
        if not isinstance(st, ast.If):
            continue
        for c in [x for x in ast.walk(st.test) if isinstance(x, ast.Compare) and len(x.ops) == 1]:
            sides = [norm(c.left), norm(c.comparators[0])]
            if not any(t in ("len(self.args)", "len(args)") for t in sides):
                continue
            n += 1
            raising = st.body if isinstance(c.ops[0], ast.NotEq) else st.orelse if isinstance(c.ops[0], ast.Eq) else []
            if any(isinstance(x, ast.Raise) for b in raising for x in ast.walk(b)):
                bad = bad or (st, c)
    rep.check(bad is None, "ARITY", fi.short, "argument-count tests", f"{n} count test(s), none an equality with a single number that raises", (f"`{norm(bad[1])}` refuses every call whose number of written arguments differs from one number, but {opt[0].short} (and any built-in with a defaulted parameter) may be called with or without its optional argument: a well-formed call that writes the optional argument out (or leaves it out) is rejected instead of being applied to its arguments" if bad else ""), fi.loc(bad[0]) if bad else fi.loc())


VARIANTS = [
    ("B comments stripped with a regular expression before splitting", Q2, "    query_stmts = query.split(\";\")\n", "    import re\n    query = re.sub(r\"#[^\\n]*\", \"\", query)\n    query_stmts = query.split(\";\")\n", "TEXT"),
    ("B statements rejected when bracket counts of the raw text differ", Q2, "def parse(line, namespace):\n", "def parse(line, namespace):\n    if line.count(\"(\") != line.count(\")\"):\n        raise QueryParseException(\"Unbalanced brackets\")\n", "TEXT"),
    ("B nesting depth kept in a module-level counter", Q2, "def parse(line, namespace):\n", "_depth = 0\n\n\ndef parse(line, namespace):\n    global _depth\n    _depth += 1\n", "TEXT"),
    ("B dict body taken with strip('{}') (eats the braces of a trailing nested dict)", Q2, "        entries_str = string[1:-1]\n        d: Dict[str, QToken] = {}", "        entries_str = string.strip(\"{}\")\n        d: Dict[str, QToken] = {}", "LOOPS"),
    ("B call refused unless the argument count equals the number of required parameters", Q2, "        call_args = [datastore, namespace]\n", "        import inspect\n        required = [p for p in inspect.signature(functions[self.name]).parameters.values() if p.default is inspect.Parameter.empty]\n        if len(self.args) != len(required) - 2:\n            raise QueryInterpretException(\"invalid amount of arguments\")\n        call_args = [datastore, namespace]\n", "ARITY"),
    ("B QFunction.check drops a character (original defect)", Q2, "        if to_consume != 0:\n            return None, string\n        return string[:i], string[i:]", "        if to_consume != 0:\n            return None, string\n        return string[:i], string[i + 1 :]", "PARTITION"),
    ("B QList.check duplicates a character", Q2, "            prev_char = char\n        return string[:i], string[i:]\n\n\nqtypes", "            prev_char = char\n        return string[:i], string[i - 1 :]\n\n\nqtypes", "PARTITION"),
    ("B QInteger remainder off by one", Q2, "            if char.isdecimal():\n                token += char\n            else:\n                break\n        return token, string[len(token) :]", "            if char.isdecimal():\n                token += char\n            else:\n                break\n        return token, string[len(token) + 1 :]", "PARTITION"),
    ("B QVariable skips characters", Q2, "            elif i != 0 and char.isdigit():\n                token += char\n            else:\n                break\n        return token, string[len(token) :]", "            elif i != 0 and char.isdigit():\n                token += char\n            elif char == '-':\n                continue\n            else:\n                break\n        return token, string[len(token) :]", "PARTITION"),
    ("B brackets counted inside quotes (QList)", Q2, "            elif double_quote or single_quote:\n                pass\n            elif char == \"]\":", "            elif char == \"]\":", "QUOTES"),
    ("B escape test dropped (QDict)", Q2, "            if char == \"'\" and prev_char != \"\\\\\" and not double_quote:\n                single_quote = not single_quote\n            elif char == '\"' and prev_char != \"\\\\\" and not single_quote:\n                double_quote = not double_quote\n            elif single_quote or double_quote:\n                pass\n            elif char == \"}\":", "            if char == \"'\" and not double_quote:\n                single_quote = not single_quote\n            elif char == '\"' and prev_char != \"\\\\\" and not single_quote:\n                double_quote = not double_quote\n            elif single_quote or double_quote:\n                pass\n            elif char == \"}\":", "QUOTES"),
    ("B argument appended conditionally", Q2, "            args.append(arg_t.parse(arg, namespace))", "            if arg_t is not QVariable or arg in namespace:\n                args.append(arg_t.parse(arg, namespace))", "LOOPS"),
    ("B arguments evaluated in reverse", Q2, "        for arg in self.args:\n            call_args.append(arg.interpret(datastore, namespace))", "        for arg in reversed(self.args):\n            call_args.append(arg.interpret(datastore, namespace))", "LOOPS"),
    ("B parse hoisted out of the statement loop", Q2, "    query_stmts = query.split(\";\")\n    for statement in query_stmts:\n        statement = statement.strip()\n        if statement:\n            logger.debug(\"Parsing: \" + statement)\n            var, val = parse(statement, namespace)\n            interpret(var, val, namespace, datastore)", "    query_stmts = query.split(\";\")\n    parsed = [parse(s.strip(), namespace) for s in query_stmts if s.strip()]\n    for var, val in parsed:\n        interpret(var, val, namespace, datastore)", "ASSIGN"),
    ("B namespace parameter not leading", QF, "def q2_query_bucket(\n    datastore: Datastore, namespace: TNamespace, bucketname: str\n) -> List[Event]:", "def q2_query_bucket(\n    datastore: Datastore, bucketname: str, namespace: TNamespace\n) -> List[Event]:", "REGISTRY"),
    ("B token class missing from qtypes", Q2, "qtypes: Sequence[Type[QToken]] = [QString, QInteger, QFunction, QDict, QList, QVariable]", "qtypes: Sequence[Type[QToken]] = [QString, QInteger, QFunction, QList, QVariable]", "REGISTRY"),
    ("B variable tried before function", Q2, "qtypes: Sequence[Type[QToken]] = [QString, QInteger, QFunction, QDict, QList, QVariable]", "qtypes: Sequence[Type[QToken]] = [QString, QInteger, QVariable, QFunction, QDict, QList]", "REGISTRY"),
    ("B strip hoisted out of the dict entry loop", Q2, "        entries_str = string[1:-1]\n        d: Dict[str, QToken] = {}\n        while len(entries_str) > 0:\n            entries_str = entries_str.strip()\n", "        entries_str = string[1:-1].strip()\n        d: Dict[str, QToken] = {}\n        while len(entries_str) > 0:\n", "SPACING"),
    ("B statement split at the last '='", Q2, "    separator_i = line.find(\"=\")", "    separator_i = line.rfind(\"=\")", "ASSIGN"),
    ("B string literal keeps its closing quote", Q2, "        string = string[1:-1]\n        return QString(string)", "        string = string[1:]\n        return QString(string)", "LOOPS"),
    ("B variables always parse to None", Q2, "        if string in namespace:\n            val = namespace[string]\n        return QVariable(string, val)", "        return QVariable(string, val)", "ASSIGN"),
    ("B assignment binds the unevaluated token", Q2, "    namespace[var.name] = val.interpret(datastore, namespace)", "    namespace[var.name] = val", "ASSIGN"),
    ("B integer literal parsed as float", Q2, "        return QInteger(int(string))", "        return QInteger(float(string))", "LOOPS"),
    ("OK statement split with partition", Q2, "    separator_i = line.find(\"=\")\n    var_str = line[:separator_i]\n    val_str = line[separator_i + 1 :]", "    var_str, _sep, val_str = line.partition(\"=\")", "ok"),
    ("OK integer literal through a temporary", Q2, "        return QInteger(int(string))", "        number = int(string)\n        return QInteger(number)", "ok"),
    ("OK variable lookup with dict.get", Q2, "        val = None\n        if string in namespace:\n            val = namespace[string]\n        return QVariable(string, val)", "        return QVariable(string, namespace.get(string))", "ok"),
    ("B concat extends its first argument in place", "aw_transform/sort_by.py", "    events = events1 + events2\n    return events", "    events1 += events2\n    return events1", "VALUES"),
    ("B period_union clears the data of its input events (original defect)", "aw_transform/filter_period_intersect.py", "        event = deepcopy(event)\n        event.data = {}", "        event.data = {}", "VALUES"),
    ("B scanning goes on after a match (the last scanner that matches wins)", Q2, "        if token:\n            break\n    if not token:", "        if token:\n            found = (t, token)\n    if not token:", "REGISTRY"),
    ("B _parse_token returns the unconsumed input as remainder", Q2, "    return (t, token), string\n", "    return (t, token), string[len(token):]\n", "REGISTRY"),
    ("B statement loop stops at RETURN", Q2, "            interpret(var, val, namespace, datastore)\n", "            interpret(var, val, namespace, datastore)\n            if var.name == \"RETURN\":\n                break\n", "ASSIGN"),
    ("B non-empty statements starting with # skipped", Q2, "        if statement:\n", "        if statement and not statement.startswith(\"#\"):\n", "ASSIGN"),
    ("B union_no_overlap arguments swapped", QF, "    return union_no_overlap(events1, events2)", "    return union_no_overlap(events2, events1)", "REGISTRY"),
    ("B simplify ignores the key", QF, "    return simplify_string(events, key=key)", "    return simplify_string(events)", "REGISTRY"),
    ("OK slice spelled with a temporary-free expression", Q2, "        if to_consume != 0:\n            return None, string\n        return string[:i], string[i:]", "        if to_consume != 0:\n            return None, string\n        return (string[:i], string[i:])", "ok"),
    ("OK depth update spelled +=", Q2, "            elif char == \"]\":\n                to_consume = to_consume - 1\n            elif char == \"[\":\n                to_consume = to_consume + 1", "            elif char == \"]\":\n                to_consume -= 1\n            elif char == \"[\":\n                to_consume += 1", "ok"),
]
