"""C02 — every backend behaves like one per-bucket event list (necessary clauses)."""
from ..rules_read import last_rule
from ..rules_store import addr_rule, ddl_facts, idalloc_memory, scope_memory, scope_peewee, scope_sqlite, upsert_rule, forward_bucket

METHODS = {"delete", "replace", "get_event", "insert_one", "insert_many", "replace_last", "get_events", "get_eventcount"}


def check(prog, rep):
    rep.level = "other"
    rep.explanation = (
        "Necessary structural clauses of the list-model equivalence, decided for every id, instant and history: LAST (replace_last "
        "rewrites the event a limit-1 read returns: same scope, order key, direction, limit 1), SCOPE+ADDR (delete/replace/lookup "
        "address exactly (event id, bucket)), UPSERT (complementary partitions of insert_many), schema/IDALLOC (engine-allocated "
        "unique ids). Equality with a reference list model after every step of every history is NOT decided (refinement proof)."
    )
    rep.trusted_base = ["SQL semantics of the modelled subset", "peewee builder translation", "AUTOINCREMENT / AutoField never re-issue an id"]
    rep.not_decided = ["equality with the reference list model over all histories (multiset equality, counts)"]
    last_rule(prog, rep)
    scope_sqlite(prog, rep, methods=METHODS)
    scope_peewee(prog, rep, methods=METHODS)
    scope_memory(prog, rep, methods=METHODS)
    addr_rule(prog, rep)
    upsert_rule(prog, rep)
    ddl_facts(prog, rep)
    idalloc_memory(prog, rep)
    forward_bucket(prog, rep)
    # observation only: single insert of an id-bearing event differs between backends
    rep.note("sibling cross-check (observation, not a rule): a single insert of an id-bearing event is an upsert in memory and peewee but a plain INSERT that ignores the id in sqlite; the property speaks of bulk upsert only")
