"""C02 — every backend behaves like one per-bucket event list (necessary clauses)."""
from ..rules_codec import codec_peewee, codec_sqlite
from ..rules_commit import check_no_rollback
from ..rules_own import own_rules
from ..rules_read import count_source, last_rule
from ..rules_store import instance_state, addr_rule, ddl_facts, idalloc_memory, idalloc_sql, scope_memory, scope_peewee, scope_sqlite, upsert_rule, forward_bucket

METHODS = {"delete", "replace", "get_event", "insert_one", "insert_many", "replace_last", "get_events", "get_eventcount"}


def check(prog, rep):
    rep.level = "other"
    rep.explanation = (
        "Necessary structural clauses of the list-model equivalence, decided for every id, instant and history: LAST (replace_last "
        "rewrites the event a limit-1 read returns: same scope, order key, direction, limit 1), SCOPE+ADDR (delete/replace/lookup "
        "address exactly (event id, bucket)), UPSERT (complementary partitions of insert_many), schema/IDALLOC (engine-allocated "
        "unique ids). Equality with a reference list model after every step of every history is NOT decided (refinement proof)."
    )
    rep.trusted_base = ["SQL semantics of the modelled subset", "peewee builder translation", "AUTOINCREMENT / AutoField never re-issue an id"]
    rep.not_decided = ["equality with the reference list model over all histories (multiset equality, counts)"]
    instance_state(prog, rep)
    last_rule(prog, rep)
    scope_sqlite(prog, rep, methods=METHODS)
    scope_peewee(prog, rep, methods=METHODS)
    scope_memory(prog, rep, methods=METHODS)
    addr_rule(prog, rep)
    upsert_rule(prog, rep)
    ddl_facts(prog, rep)
    idalloc_memory(prog, rep)
    idalloc_sql(prog, rep)
    forward_bucket(prog, rep)
    # what is written is what a list would hold: the SQL backends' encode/decode tables and scale constants agree
    codec_sqlite(prog, rep)
    codec_peewee(prog, rep)
    # a list holds its own elements: nothing the caller keeps a reference to is stored, nothing stored is handed out
    own_rules(prog, rep, methods=[m for m in ("insert_one", "insert_many", "replace", "replace_last", "get_event", "get_events", "delete")])
    # the bulk path of the wrapper really is the bulk upsert
    from .c01 import bucket_insert

    bucket_insert(prog, rep)
    check_no_rollback(prog, rep)
    count_source(prog, rep)
    # the operations reach the backends through Bucket: every one of them is handed on, with the caller's arguments
    from ..rules_wrap import wrapper_rules

    wrapper_rules(prog, rep)
    # observation only: single insert of an id-bearing event differs between backends
    rep.note("sibling cross-check (observation, not a rule): a single insert of an id-bearing event is an upsert in memory and peewee but a plain INSERT that ignores the id in sqlite; the property speaks of bulk upsert only")


SQ = "aw_datastore/storages/sqlite.py"
PW = "aw_datastore/storages/peewee.py"
ME = "aw_datastore/storages/memory.py"
AB = "aw_datastore/storages/abstract.py"
VARIANTS = [
    ("B Bucket.delete returns early for a falsy id (0 is the first id of the memory store)", "aw_datastore/datastore.py", "    def delete(self, event_id):\n", "    def delete(self, event_id):\n        if not event_id:\n            return False\n", "WRAP"),
    ("B sqlite replace_last by max(endtime) equality (original defect)", SQ, "                        SELECT id FROM events\n                        WHERE bucketrow = (SELECT rowid FROM buckets WHERE id = ?)\n                        ORDER BY starttime DESC, id DESC LIMIT 1)\"\"\"", "                        SELECT id FROM events WHERE endtime =\n                            (SELECT max(endtime) FROM events WHERE bucketrow =\n                                (SELECT rowid FROM buckets WHERE id = ?) LIMIT 1))\"\"\"", ["LAST", "SCOPE"]),
    ("B sqlite replace_last ordered by id", SQ, "                        ORDER BY starttime DESC, id DESC LIMIT 1)\"\"\"", "                        ORDER BY id DESC LIMIT 1)\"\"\"", "LAST"),
    ("B sqlite replace_last without LIMIT", SQ, "                        ORDER BY starttime DESC, id DESC LIMIT 1)\"\"\"", "                        ORDER BY starttime DESC, id DESC)\"\"\"", "LAST"),
    ("B sqlite replace_last ascending", SQ, "                        ORDER BY starttime DESC, id DESC LIMIT 1)\"\"\"", "                        ORDER BY starttime ASC, id DESC LIMIT 1)\"\"\"", "LAST"),
    ("B memory replace_last via max() (first of ties)", ME, "last = sorted(self.db[bucket_id], key=lambda e: e.timestamp)[-1]", "last = max(self.db[bucket_id], key=lambda e: e.timestamp)", "LAST"),
    ("B memory replace_last keyed on end instant", ME, "last = sorted(self.db[bucket_id], key=lambda e: e.timestamp)[-1]", "last = sorted(self.db[bucket_id], key=lambda e: e.timestamp + e.duration)[-1]", "LAST"),
    ("B memory replace_last takes the list tail", ME, "last = sorted(self.db[bucket_id], key=lambda e: e.timestamp)[-1]", "last = self.db[bucket_id][-1]", "LAST"),
    ("B peewee _get_last ordered by id", PW, "            .where(EventModel.bucket == self.bucket_keys[bucket_id])\n            .order_by(EventModel.timestamp.desc())\n            .get()", "            .where(EventModel.bucket == self.bucket_keys[bucket_id])\n            .order_by(EventModel.id.desc())\n            .get()", "LAST"),
    ("B peewee replace_last re-assigns the id", PW, "        e.datastr = json.dumps(event.data)\n        e.save()\n        event.id = e.id\n        return event\n\n    def delete", "        e.datastr = json.dumps(event.data)\n        e.id = event.id or e.id\n        e.save()\n        event.id = e.id\n        return event\n\n    def delete", ["LAST-SET", "SCOPE"]),
    ("B sqlite replace by id only (original defect)", SQ, "                     WHERE id = ?\n                       AND bucketrow = (SELECT rowid FROM buckets WHERE id = ?)\"\"\"\n        self.conn.execute(\n            query, [bucket_id, starttime, endtime, datastr, event_id, bucket_id]\n        )", "                     WHERE id = ?\"\"\"\n        self.conn.execute(query, [bucket_id, starttime, endtime, datastr, event_id])", "SCOPE"),
    ("B sqlite delete ignores the event id", SQ, "\"WHERE id = ? AND bucketrow = (SELECT b.rowid FROM buckets b WHERE b.id = ?)\"\n        )\n        cursor = self.conn.execute(query, [event_id, bucket_id])", "\"WHERE bucketrow = (SELECT b.rowid FROM buckets b WHERE b.id = ?)\"\n        )\n        cursor = self.conn.execute(query, [bucket_id])", "ADDR"),
    ("B memory delete matches on timestamp", ME, "            for idx, event in reversed(list(enumerate(self.db[bucket_id])))\n            if event.id == event_id\n        ):\n            self.db[bucket_id].pop(idx)", "            for idx, event in reversed(list(enumerate(self.db[bucket_id])))\n            if event.id >= event_id\n        ):\n            self.db[bucket_id].pop(idx)", "ADDR"),
    ("B sqlite partitions overlap", SQ, "        events_insert = [e for e in events if e.id is None]", "        events_insert = [e for e in events]", "UPSERT"),
    ("B peewee id-less events filtered by truthiness of id", PW, "            for event in events\n            if event.id is None\n        ]", "            for event in events\n            if not event.id\n        ]", "UPSERT"),
    ("B inherited insert_many skips falsy events", AB, "        for event in events:\n            self.insert_one(bucket_id, event)", "        for event in events:\n            if event.data:\n                self.insert_one(bucket_id, event)", "UPSERT"),
    ("B memory id from the event count", ME, "                event.id = max(int(e.id or 0) for e in self.db[bucket]) + 1", "                event.id = len(self.db[bucket])", "IDALLOC"),
    ("B events.id without AUTOINCREMENT", SQ, "        id INTEGER PRIMARY KEY AUTOINCREMENT,\n        bucketrow", "        id INTEGER PRIMARY KEY,\n        bucketrow", "SCHEMA"),
    ("B sqlite replace drops the days of the duration", SQ, "    def replace(self, bucket_id, event_id, event) -> bool:\n        starttime = event.timestamp.timestamp() * 1000000\n        endtime = starttime + (event.duration.total_seconds() * 1000000)", "    def replace(self, bucket_id, event_id, event) -> bool:\n        starttime = event.timestamp.timestamp() * 1000000\n        endtime = starttime + (event.duration.seconds * 1000000)", "CODEC"),
    ("B memory replace stores the caller's event", ME, "            event = copy.deepcopy(event)\n            event.id = event_id", "            event.id = event_id", "OWN-IN"),
    ("B one-element lists routed to the single insert (no upsert in sqlite)", "aw_datastore/datastore.py", "        elif isinstance(events, list):", "        elif isinstance(events, list) and len(events) == 1:\n            self.ds.storage_strategy.insert_one(self.bucket_id, events[0])\n        elif isinstance(events, list):", "INSERT-PATHS"),
    ("B peewee durations quantised to 10 microseconds", PW, "    duration = DecimalField()", "    duration = DecimalField(auto_round=True)", "CODEC"),
    ("OK explicit ASC on the tie-break", SQ, "                        ORDER BY starttime DESC, id DESC LIMIT 1)\"\"\"", "                        ORDER BY starttime  DESC ,  id  DESC  LIMIT  1)\"\"\"", "ok"),
    ("OK memory replace_last via reversed sort", ME, "last = sorted(self.db[bucket_id], key=lambda e: e.timestamp)[-1]", "last = sorted(self.db[bucket_id], key=lambda e: e.timestamp)[::-1][0]", "ok"),
    ("OK partition written with not", SQ, "        events_insert = [e for e in events if e.id is None]", "        events_insert = [e for e in events if not e.id is not None]", "ok"),
]
