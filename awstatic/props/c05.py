"""C05 — bucket lifecycle behaves as a keyed map (decidable clauses)."""
import ast

from ..rules_wrap import wrapper_rules

from ..rules_commit import check_no_rollback
from ..rules_own import own_rules

from ..cfg import cfg_of, membership
from ..model import norm, parent, walk_own, walk_with_nested_exprs
from ..rules_store import instance_state, bparam, ddl_facts, is_param_ref, memory_containers
from ..sqlmodel import local_defs, peewee_chains, single_def, sql_sites

ME = "aw_datastore/storages/memory.py"
SQ = "aw_datastore/storages/sqlite.py"
PW = "aw_datastore/storages/peewee.py"
DS = "aw_datastore/datastore.py"

CREATE_MAP = {"bucket_id": "id", "type_id": "type", "client": "client", "hostname": "hostname", "created": "created", "name": "name", "data": "data"}
UPDATE_MAP = {"type_id": "type", "client": "client", "hostname": "hostname", "name": "name", "data": "data"}


def _strip_json(e, fi=None):
    """json.dumps(x or {}) / json.dumps(x) / x or {} / copy.deepcopy(x) if x else {} ... -> the parameter name inside"""
    if fi is not None:
        from ..trace import resolve

        e = resolve(e, fi)
    names = [n.id for n in ast.walk(e) if isinstance(n, ast.Name) and n.id not in ("json", "copy", "deepcopy")]
    names = [n for n in names if n not in ("dict",)]
    return names[0] if len(set(names)) == 1 else None


def _base_text(e, fi):
    """text of the container an item is written into, through a local bound once to it (metadata = self._metadata[b])"""
    if isinstance(e, ast.Name):
        d = single_def(fi, e.id)
        if d is not None:
            return norm(d)
    return norm(e)


def update_model(prog, fi):
    """The dynamic UPDATE of SqliteStorage.update_bucket as data: which (column, value expression) pairs are candidates,
    how they are filtered, and whether the SET list and the bindings are the two halves of the same filtered pairs.
    -> dict(pairs=[(col, expr)], ok=bool, why=str)"""
    from ..trace import resolve

    out = {"pairs": [], "ok": False, "why": ""}
    ss = [x for x in sql_sites(prog) if x.fi is fi and x.stmt.kind == "update"]
    if len(ss) != 1 or not ss[0].stmt.setlist_dynamic or getattr(ss[0], "bind_star", None) is None:
        out["why"] = "no single UPDATE with a SET list built from the supplied fields"
        return out
    site = ss[0]
    star = site.bind_star.elts[0]
    if not (isinstance(star, ast.Starred) and isinstance(star.value, ast.Name)) or any(isinstance(x, ast.Starred) for x in site.bind_star.elts[1:]):
        out["why"] = f"bindings are `{norm(site.bind_star)}`"
        return out
    vals_var = star.value.id
    # the generator of the SET list
    joins = [n for n in walk_with_nested_exprs(fi.node) if isinstance(n, ast.Call) and isinstance(n.func, ast.Attribute) and n.func.attr == "join" and n.args and isinstance(n.args[0], (ast.GeneratorExp, ast.ListComp))]
    joins = [j for j in joins if isinstance(j.args[0].elt, ast.JoinedStr)]
    if len(joins) != 1 or not isinstance(joins[0].args[0].generators[0].iter, ast.Name):
        out["why"] = "cannot find the SET list generator"
        return out
    cols_var = joins[0].args[0].generators[0].iter.id
    # cols, vals = zip(*filtered)
    zips = [n for n in walk_own(fi.node) if isinstance(n, ast.Assign) and isinstance(n.targets[0], ast.Tuple) and [norm(t) for t in n.targets[0].elts] == [cols_var, vals_var] and isinstance(n.value, ast.Call) and norm(n.value.func) == "zip" and len(n.value.args) == 1 and isinstance(n.value.args[0], ast.Starred)]
    if len(zips) != 1:
        out["why"] = f"`{cols_var}` (SET list) and `{vals_var}` (bindings) are not the two halves of one zip(*pairs): columns and values may no longer be paired"
        return out
    filt = resolve(zips[0].value.args[0].value, fi)
    if not (isinstance(filt, ast.ListComp) and len(filt.generators) == 1):
        out["why"] = f"the zipped pairs are `{norm(filt)[:60]}`"
        return out
    gen = filt.generators[0]
    if not (isinstance(gen.target, ast.Tuple) and len(gen.target.elts) == 2 and all(isinstance(t, ast.Name) for t in gen.target.elts)):
        out["why"] = "pairs are not unpacked as (column, value)"
        return out
    k, v = gen.target.elts[0].id, gen.target.elts[1].id
    if not (isinstance(filt.elt, ast.Tuple) and [norm(x) for x in filt.elt.elts] == [k, v]):
        out["why"] = f"the filtered pairs are rebuilt as `{norm(filt.elt)}`"
        return out
    if [norm(c) for c in gen.ifs] not in ([f"{v} is not None"], [f"not {v} is None"], [f"{v} != None"]):
        out["why"] = f"pairs are filtered by {[norm(c) for c in gen.ifs]}, not by `value is not None`"
        return out
    src = resolve(gen.iter, fi)
    if not isinstance(src, (ast.List, ast.Tuple)):
        out["why"] = f"candidate pairs are `{norm(src)[:60]}`"
        return out
    for t in src.elts:
        if isinstance(t, ast.Tuple) and len(t.elts) == 2 and isinstance(t.elts[0], ast.Constant):
            out["pairs"].append((t.elts[0].value, resolve(t.elts[1], fi) if isinstance(t.elts[1], ast.Name) and t.elts[1].id not in fi.params else t.elts[1]))
        else:
            out["why"] = f"candidate `{norm(t)}` is not a (column, value) pair"
            return out
    out["ok"] = True
    return out


def field_tables(prog, rep):
    rep.rule("FIELDS", "create_bucket maps its parameters to the listed metadata keys {bucket_id:id, type_id:type, client, hostname, created, name, data} and update_bucket {type_id:type, client, hostname, name, data}, in every backend, through the writer table (INSERT columns / create() keywords / dict literal) composed with the reader table (SELECT positions -> row[i] -> keys / json() / the stored dict)")
    sites = sql_sites(prog)
    # ---- sqlite writer: INSERT buckets
    ins = [s for s in sites if s.fi.short == "SqliteStorage.create_bucket" and s.stmt.kind == "insert" and s.stmt.table == "buckets"]
    col_of_param = {}
    if len(ins) == 1:
        s = ins[0]
        for col, v in zip(s.stmt.columns, s.stmt.values):
            if v.kind == "param":
                from ..trace import resolve

                p = _strip_json(s.bindings[v.index], s.fi)
                col_of_param[p] = (col, norm(resolve(s.bindings[v.index], s.fi)))
    else:
        rep.undecided("FIELDS", "SqliteStorage.create_bucket", "INSERT buckets", f"{len(ins)} statements")
    # ---- sqlite reader: SELECT positions -> keys, in buckets() and get_metadata()
    for m in ("buckets", "get_metadata"):
        fi = prog.func(f"SqliteStorage.{m}")
        sel = [s for s in sites if s.fi is fi and s.stmt.kind == "select" and s.stmt.table == "buckets"]
        dicts = [n for n in walk_with_nested_exprs(fi.node) if isinstance(n, ast.Dict) and any(isinstance(k, ast.Constant) and k.value == "hostname" for k in n.keys)]
        if len(sel) != 1 or len(dicts) != 1:
            rep.undecided("FIELDS", fi.short, "reader table", f"{len(sel)} SELECT / {len(dicts)} dict literals", fi.loc())
            continue
        cols = [c.split(".")[-1] for c in sel[0].stmt.columns]
        key_of_col = {}
        from ..trace import deep

        rowvars = {norm(t) for n in walk_own(fi.node) for t in ([n.target] if isinstance(n, ast.For) else (n.targets if isinstance(n, ast.Assign) and isinstance(n.value, ast.Call) and isinstance(n.value.func, ast.Attribute) and n.value.func.attr == "fetchone" else []))}
        # a row unpacked into names (for a, b, c in cursor / comprehension target): name -> column position
        pos = {}
        for n in walk_with_nested_exprs(fi.node):
            tgts = []
            if isinstance(n, ast.For):
                tgts.append(n.target)
            elif isinstance(n, (ast.DictComp, ast.ListComp, ast.GeneratorExp, ast.SetComp)):
                tgts += [g_.target for g_ in n.generators]
            for t in tgts:
                if isinstance(t, (ast.Tuple, ast.List)):
                    for i, x in enumerate(t.elts):
                        if isinstance(x, ast.Name):
                            pos[x.id] = i
        items = list(zip(dicts[0].keys, dicts[0].values))
        # keys added after the literal: d["data"] = ...
        asg_d = parent(dicts[0])
        if isinstance(asg_d, ast.Assign) and len(asg_d.targets) == 1 and isinstance(asg_d.targets[0], ast.Name):
            dn = asg_d.targets[0].id
            for n in walk_own(fi.node):
                if isinstance(n, ast.Assign) and len(n.targets) == 1 and isinstance(n.targets[0], ast.Subscript) and norm(n.targets[0].value) == dn and isinstance(n.targets[0].slice, ast.Constant):
                    items.append((n.targets[0].slice, n.value))
        for k, v in items:
            v = deep(v, fi, stop=rowvars | set(pos))
            idxs = [n.slice.value for n in ast.walk(v) if isinstance(n, ast.Subscript) and isinstance(n.value, ast.Name) and n.value.id in rowvars and isinstance(n.slice, ast.Constant)]
            idxs += [pos[n.id] for n in ast.walk(v) if isinstance(n, ast.Name) and n.id in pos and isinstance(n.ctx, ast.Load)]
            # row["name"] (a sqlite3.Row): the column of that name
            idxs = [(cols.index(i_) if isinstance(i_, str) and i_ in cols else i_) for i_ in idxs]
            if any(not isinstance(i_, int) or isinstance(i_, bool) for i_ in idxs):
                rep.undecided("FIELDS", fi.short, f"key {getattr(k, 'value', '?')}", f"row item `{norm(v)[:60]}` is not a column position or a selected column's name", fi.loc())
                continue
            if len(idxs) == 1 and idxs[0] < len(cols):
                key_of_col[cols[idxs[0]]] = (k.value, norm(v))
        composite = {p: key_of_col.get(col, (None,))[0] for p, (col, _) in col_of_param.items()}
        ok = composite == CREATE_MAP
        rep.check(ok, "FIELDS", fi.short, "create -> read table", f"{composite}", f"what create_bucket writes does not come back under the right key: parameter->key map is {composite}, expected {CREATE_MAP} (writer {dict((p, c[0]) for p, c in col_of_param.items())}, reader {dict((c, k[0]) for c, k in key_of_col.items())})", fi.loc(), expected=CREATE_MAP, found=composite)
        d = key_of_col.get("datastr")
        rep.check(d is not None and "json.loads(" in d[1], "FIELDS", fi.short, "data decoding", "json.loads(datastr)", "bucket data is not decoded with json.loads", fi.loc())
    d = col_of_param.get("data")
    rep.check(d is not None and d[1].startswith("json.dumps("), "FIELDS", "SqliteStorage.create_bucket", "data encoding", "json.dumps(data or {})", "bucket data is not encoded with json.dumps", ins[0].loc() if ins else None)
    # ---- sqlite update pairs
    up = prog.func("SqliteStorage.update_bucket")
    um = update_model(prog, up)
    umap = {}
    for col, ve in um["pairs"]:
        umap[_strip_json(ve)] = "data" if col == "datastr" else col
    rep.check(umap == UPDATE_MAP, "FIELDS", up.short, "update table", f"{umap}", f"update_bucket writes parameter->column {umap}, expected {UPDATE_MAP}", up.loc(), expected=UPDATE_MAP, found=umap)
    # ---- peewee
    chains = peewee_chains(prog)
    cr = [c for c in chains if c.fi.short == "PeeweeStorage.create_bucket" and c.op == "create"]
    js = prog.func("BucketModel.json")
    jr = [n for n in walk_own(js.node) if isinstance(n, ast.Return) and isinstance(n.value, ast.Dict)]
    if len(jr) == 1:
        # values held in locals of json() (created = ...; data = ... if ... else ...) are the expressions they stand for
        from ..trace import deep as _deep

        d_ = jr[0].value
        nd = ast.Dict(keys=list(d_.keys), values=[_deep(v_, js) for v_ in d_.values])
        ast.copy_location(nd, d_)
        nr = ast.Return(value=nd)
        ast.copy_location(nr, jr[0])
        jr = [nr]
    if len(cr) == 1 and len(jr) == 1:
        field_of_param = {_strip_json(k.value): k.arg for k in cr[0].op_call.keywords}
        key_of_field = {}
        for k, v in zip(jr[0].value.keys, jr[0].value.values):
            fs = {n.attr for n in ast.walk(v) if isinstance(n, ast.Attribute) and isinstance(n.value, ast.Name) and n.value.id == "self"}
            if len(fs) == 1:
                key_of_field[fs.pop()] = k.value
        composite = {p: key_of_field.get(f) for p, f in field_of_param.items()}
        rep.check(composite == CREATE_MAP, "FIELDS", "PeeweeStorage.create_bucket", "create -> read table", f"{composite}", f"parameter->key map is {composite}, expected {CREATE_MAP}", cr[0].loc(), expected=CREATE_MAP, found=composite)
    else:
        rep.undecided("FIELDS", "PeeweeStorage.create_bucket", "tables", f"{len(cr)} create chains / {len(jr)} json dicts")
    # the creation instant must come back as the same instant
    if len(jr) == 1:
        cr_v = {k.value: v for k, v in zip(jr[0].value.keys, jr[0].value.values) if isinstance(k, ast.Constant)}.get("created")
        t = norm(cr_v) if cr_v is not None else ""
        if ".replace(tzinfo" in t or "replace(tzinfo" in t:
            rep.violation("FIELDS", "BucketModel.json", "created instant", f"`{t}` re-labels the stored creation time with another zone instead of converting it: a bucket created with a non-UTC instant is listed with a different creation instant", js.loc(), expected="iso8601.parse_date(self.created).astimezone(timezone.utc).isoformat()", found=t)
        elif ("fromisoformat(self.created)" in t or "strptime(self.created" in t) and ".astimezone(" in t:
            rep.violation("FIELDS", "BucketModel.json", "created instant", f"`{t}`: datetime.fromisoformat / strptime give a NAIVE datetime for a text without an offset, and astimezone() reads a naive datetime in the machine's local zone, whereas iso8601.parse_date reads it as UTC: a creation time stored without an offset (legacy rows, clients that send naive text) comes back shifted by the local UTC offset", js.loc(), expected="iso8601.parse_date(self.created).astimezone(timezone.utc).isoformat()", found=t)
        elif t in ("iso8601.parse_date(self.created).astimezone(timezone.utc).isoformat()", "self.created", "iso8601.parse_date(self.created).isoformat()"):
            rep.ok("FIELDS", "BucketModel.json", "created instant", t, js.loc())
        else:
            rep.undecided("FIELDS", "BucketModel.json", "created instant", f"unrecognised decoding `{t}`", js.loc())
    # explicit column lists must cover what json() reads
    json_fields = set()
    if len(jr) == 1:
        json_fields = {n.attr for n in ast.walk(jr[0].value) if isinstance(n, ast.Attribute) and isinstance(n.value, ast.Name) and n.value.id == "self"}
    for ch in chains:
        if ch.model == "BucketModel" and ch.op == "select" and ch.op_call.args and ch.fi.cls is not None and ch.fi.cls.name == "PeeweeStorage":
            cols = {norm(a).split(".")[-1] for a in ch.op_call.args}
            uses_json = "json()" in norm(ch.fi.node) or ch.fi.name in ("buckets", "get_metadata")
            missing = sorted(json_fields - cols)
            if uses_json:
                rep.check(not missing, "FIELDS", ch.fi.short, "selected columns cover json()", f"{sorted(cols)}", f"the listing selects only {sorted(cols)} but BucketModel.json() reads {missing} as well: those fields come back empty (e.g. the bucket's data dict as {{}}), and the legacy-database migration, which copies buckets from this listing, loses them", ch.loc())
    pu = prog.func("PeeweeStorage.update_bucket")
    umap = {}
    for n in walk_own(pu.node):
        if isinstance(n, ast.Assign) and isinstance(n.targets[0], ast.Attribute) and isinstance(n.targets[0].value, ast.Name) and n.targets[0].value.id == "bucket":
            umap[_strip_json(n.value)] = "data" if n.targets[0].attr == "datastr" else n.targets[0].attr
    rep.check(umap == UPDATE_MAP, "FIELDS", pu.short, "update table", f"{umap}", f"update_bucket writes parameter->field {umap}, expected {UPDATE_MAP}", pu.loc(), expected=UPDATE_MAP, found=umap)
    # ---- memory
    mc = prog.func("MemoryStorage.create_bucket")
    dl = [n for n in walk_own(mc.node) if isinstance(n, ast.Dict) and any(isinstance(k, ast.Constant) and k.value == "hostname" for k in n.keys)]
    if len(dl) == 1:
        composite = {}
        name_default_in_literal = False
        for k, v in zip(dl[0].keys, dl[0].values):
            p = _strip_json(v)
            if p is None and k.value == "name" and norm(v) in (f"name or {bparam(mc)}", f"name if name else {bparam(mc)}", f"{bparam(mc)} if not name else name", f"{bparam(mc)} if name is None else name", f"name if name is not None else {bparam(mc)}"):
                p, name_default_in_literal = "name", True  # the default (the id, when no name is given) written into the literal
            composite[p] = k.value
        rep.check(composite == CREATE_MAP, "FIELDS", mc.short, "stored dict", f"{composite}", f"parameter->key map is {composite}, expected {CREATE_MAP}", mc.loc(), expected=CREATE_MAP, found=composite)
        # name defaults to the id only when not given
        rb = [d for d in local_defs(mc, "name")]
        okn = all(isinstance(d, ast.Assign) and norm(d.value) == bparam(mc) and isinstance(parent(d), ast.If) and norm(parent(d).test) in ("not name", "name is None") for d in rb)
        rep.check(okn, "FIELDS", mc.short, "name default", "name defaults to the id only when absent", "the given name is overwritten", mc.loc())
    else:
        rep.undecided("FIELDS", mc.short, "stored dict", f"{len(dl)} dict literals")
    mu = prog.func("MemoryStorage.update_bucket")
    umap = {}
    for n in walk_own(mu.node):
        if isinstance(n, ast.Assign) and isinstance(n.targets[0], ast.Subscript) and isinstance(n.targets[0].slice, ast.Constant) and _base_text(n.targets[0].value, mu).startswith("self._metadata["):
            umap[_strip_json(n.value)] = n.targets[0].slice.value
    touches = any((isinstance(n, ast.Subscript) and isinstance(n.ctx, ast.Store) and "_metadata" in _base_text(n.value, mu)) or (isinstance(n, ast.Call) and isinstance(n.func, ast.Attribute) and n.func.attr in ("update", "setdefault") and ("_metadata" in norm(n.func.value) or "_metadata" in _base_text(n.func.value.value if isinstance(n.func.value, ast.Subscript) else n.func.value, mu))) for n in walk_with_nested_exprs(mu.node))
    if not umap and not touches:
        rep.undecided("FIELDS", mu.short, "update table", "no keyed write into the stored metadata found (another representation of the stored record?)", mu.loc())
    else:
      rep.check(umap == UPDATE_MAP, "FIELDS", mu.short, "update table", f"{umap}", f"update_bucket writes parameter->key {umap}, expected {UPDATE_MAP}", mu.loc(), expected=UPDATE_MAP, found=umap)
    # starts empty
    okE = any(isinstance(n, ast.Assign) and norm(n.targets[0]) == f"self.db[{bparam(mc)}]" and norm(n.value) in ("[]", "list()") for n in walk_own(mc.node))
    rep.check(okE, "FIELDS", mc.short, "starts empty", "self.db[bucket_id] = []", "a created bucket does not start with an empty event list", mc.loc())


def guarded_updates(prog, rep):
    rep.rule("GUARDED", "update_bucket changes only the fields supplied: every field write is guarded by a test of the same parameter (`if p is not None:` / `if p:`), or - sqlite - the SET list is built from the literal (column, value) pairs filtered by `v is not None`, columns and bindings in the same order")
    for cname in ("MemoryStorage", "PeeweeStorage"):
        fi = prog.func(f"{cname}.update_bucket")
        n_w = 0
        for n in walk_own(fi.node):
            if isinstance(n, ast.Assign) and isinstance(n.targets[0], (ast.Subscript, ast.Attribute)):
                t = n.targets[0]
                base = _base_text(t.value, fi)
                if not (base.startswith("self._metadata[") or norm(t.value) == "bucket"):
                    continue
                n_w += 1
                p = _strip_json(n.value)
                pr = parent(n)
                ok = isinstance(pr, ast.If) and n in pr.body and norm(pr.test) in (p, f"{p} is not None")
                rep.check(ok, "GUARDED", fi.short, f"write of {norm(t)}", f"guarded by `{norm(pr.test) if isinstance(pr, ast.If) else ''}`", f"`{norm(n)}` is not guarded by a test of `{p}`: a field the caller did not supply is overwritten (with None)", fi.loc(n))
        rep.floor(f"{cname}.update_bucket field writes", n_w, 5)
    fi = prog.func("SqliteStorage.update_bucket")
    um = update_model(prog, fi)
    rep.check(um["ok"], "GUARDED", fi.short, "SET list from supplied fields", "pairs filtered by `v is not None`, columns and bindings in the same order", f"the SET list is not built from exactly the supplied (non-None) fields, or columns and bindings are no longer paired ({um['why']})", fi.loc())
    # datastr pair must stay None when data is None
    okd = False
    for col, ve in um["pairs"]:
        if col == "datastr":
            okd = norm(ve) in ("json.dumps(data) if data is not None else None", "None if data is None else json.dumps(data)")
    rep.check(okd, "GUARDED", fi.short, "data pair", "json.dumps(data) if data is not None else None", "the data column is written even when no data was supplied (json.dumps(None) = 'null')", fi.loc())


def delete_coverage(prog, rep):
    rep.rule("DELETE-ALL", "delete_bucket removes, scoped to the bucket, from every container that holds per-bucket state (sqlite: the buckets table and every table with a foreign key to it; peewee: BucketModel and every model with a ForeignKeyField to it; memory: every dict attribute created in __init__), on every non-raising path")
    sites = sql_sites(prog)
    # sqlite containers from the DDL
    tables = {s.stmt.table: s for s in sites if s.stmt.kind == "create_table"}
    fk_tables = set()
    for name, s in tables.items():
        if "REFERENCES buckets" in s.stmt.raw or "references buckets" in s.stmt.raw.lower():
            fk_tables.add(name)
    need = {"buckets"} | fk_tables
    fi = prog.func("SqliteStorage.delete_bucket")
    g = cfg_of(fi)
    dels = {s.stmt.table: s for s in sites if s.fi is fi and s.stmt.kind == "delete"}
    for t in sorted(need):
        if t not in dels:
            rep.violation("DELETE-ALL", fi.short, f"DELETE FROM {t}", f"deleting a bucket leaves its rows in `{t}`: re-creating the id resurrects them (or they are orphaned)", fi.loc())
        else:
            ok, w = g.must_pass(g.entry, {g.node_of(dels[t].call)})
            rep.check(ok, "DELETE-ALL", fi.short, f"DELETE FROM {t}", "on every normal path", f"a path deletes the bucket without deleting from `{t}`", dels[t].loc())
    if "events" in dels and "buckets" in dels:
        n_ev, n_bk = g.node_of(dels["events"].call), g.node_of(dels["buckets"].call)
        rep.check(n_bk in g.reach_avoiding([n_ev]) and n_ev not in g.reach_avoiding([n_bk]), "DELETE-ALL", fi.short, "order", "events first (their scope sub-select needs the bucket row)", "the bucket row is deleted before its events: the events' scoping sub-select then matches nothing", fi.loc())
    # peewee
    models = {c.name: c for c in prog.classes.values() if c.mod.name == "aw_datastore.storages.peewee"}
    fk_models = {n for n, c in models.items() if any("ForeignKeyField(BucketModel" in norm(v) for v in c.attrs.values())}
    need = {"BucketModel"} | fk_models
    fi = prog.func("PeeweeStorage.delete_bucket")
    g = cfg_of(fi)
    chs = {c.model: c for c in peewee_chains(prog) if c.fi is fi and c.op == "delete"}
    for m in sorted(need):
        if m not in chs:
            rep.violation("DELETE-ALL", fi.short, f"{m}.delete()", f"deleting a bucket leaves its `{m}` rows", fi.loc())
        else:
            ok = chs[m].terminal == "execute"
            # on every path where the bucket exists: drop the edges that assert its absence, then the delete must
            # separate the entry from the normal exit
            node = g.node_of(chs[m].node)
            key, cont = bparam(fi), "self.bucket_keys"
            reach = g.reach_filtered(g.entry, lambda u, v, lab: membership(lab, key, cont) is not False and v != node)
            okp = g.exit not in reach
            rep.check(ok and okp, "DELETE-ALL", fi.short, f"{m}.delete()", "executed on every path where the bucket exists", f"`{m}` rows are not deleted (chain not executed, or skipped on some path)", chs[m].loc())
    # memory
    fi = prog.func("MemoryStorage.delete_bucket")
    bp = bparam(fi)
    for cont in memory_containers(prog):
        dd = [n for n in walk_own(fi.node) if isinstance(n, ast.Delete) and any(norm(t) == f"self.{cont}[{bp}]" for t in n.targets)]
        dd += [n for n in walk_own(fi.node) if isinstance(n, ast.Call) and norm(n.func) == f"self.{cont}.pop" and n.args and norm(n.args[0]) == bp]
        ok = False
        if dd:
            d = dd[0]
            pr = parent(d) if isinstance(d, ast.Delete) else parent(parent(d))
            # unconditional, or 'remove if present'
            ok = pr is fi.node or (isinstance(pr, ast.If) and norm(pr.test) == f"{bp} in self.{cont}")
        rep.check(ok, "DELETE-ALL", fi.short, f"del self.{cont}[{bp}]", "removed (if present)", f"deleting a bucket leaves its entry in self.{cont}: re-creating the id finds the old state", fi.loc())


def caches_follow(prog, rep):
    # the Datastore methods report a missing bucket the way the storage does (ValueError): looking the bucket up through
    # self[...] first turns that into the KeyError of __getitem__
    for nm_ in ("update_bucket", "delete_bucket"):
        f_ = prog.func(f"Datastore.{nm_}")
        for x_ in walk_with_nested_exprs(f_.node):
            if isinstance(x_, ast.Subscript) and isinstance(x_.ctx, ast.Load) and isinstance(x_.value, ast.Name) and x_.value.id == "self":
                rep.violation("NOT-FOUND", f_.short, f"{norm(x_)[:40]}", f"`{norm(x_)[:40]}` goes through Datastore.__getitem__, which raises KeyError for an id that names no bucket: {nm_} of a bucket that does not exist now fails with KeyError instead of the ValueError the storage raises (the arguments of a logging call are evaluated at every log level)", f_.loc(x_))
    rep.rule("CACHES", "Datastore.delete_bucket evicts bucket_instances[id] before the backend delete on every path; Datastore.__getitem__ raises KeyError when the id is not in buckets(); PeeweeStorage.update_bucket_keys() follows BucketModel.create and the bucket delete on every normal path")
    fi = prog.func("Datastore.delete_bucket")
    g = cfg_of(fi)
    backend = [c for c in prog.all_calls(fi) if norm(c.func) == "self.storage_strategy.delete_bucket"]
    ev = [n for n in walk_own(fi.node) if isinstance(n, ast.Delete) and any(norm(t) == "self.bucket_instances[bucket_id]" for t in n.targets)]
    ev += [parent(n) for n in walk_own(fi.node) if isinstance(n, ast.Call) and norm(n.func) == "self.bucket_instances.pop" and n.args and norm(n.args[0]) == "bucket_id"]
    ok = False
    if backend and ev:
        pr = parent(ev[0])
        uncond = pr is fi.node or (isinstance(pr, ast.If) and norm(pr.test) == "bucket_id in self.bucket_instances" and parent(pr) is fi.node)
        ok = uncond
    rep.check(ok, "CACHES", fi.short, "handle cache eviction", "del self.bucket_instances[bucket_id] (if present)", "the cached Bucket handle survives the bucket's deletion: datastore[id] keeps answering for a bucket that no longer exists", fi.loc())
    rep.check(len(backend) == 1 and g.postdominates(g.node_of(backend[0]), g.entry), "CACHES", fi.short, "backend delete", "on every path", "the backend delete is skipped on some path", fi.loc())
    gi = prog.func("Datastore.__getitem__")
    gg = cfg_of(gi)
    raises = [n for n in gg.nodes if n.kind == "stmt" and isinstance(n.ast, ast.Raise) and norm(n.ast.exc).startswith("KeyError")]
    okk = False
    if raises:
        r = gg.reach_filtered(gg.entry, lambda u, v, lab: membership(lab, "bucket_id", "self.buckets()") is not False)
        okk = raises[0].id not in r
        # and the not-in path cannot reach a normal return
        falses = [v for n in gg.nodes if n.kind == "branch" for v, lab in gg.succ[n.id] if membership(lab, "bucket_id", "self.buckets()") is False]
        okk = okk and all(gg.exit not in gg.reach_avoiding([v], include_start=True) for v in falses) and bool(falses)
    rep.check(okk, "CACHES", gi.short, "KeyError for unknown ids", "raise KeyError when the id is not in buckets()", "looking up a bucket that does not exist does not raise KeyError", gi.loc())
    for m, what in (("create_bucket", "BucketModel.create"), ("delete_bucket", "BucketModel.delete")):
        fi = prog.func(f"PeeweeStorage.{m}")
        g = cfg_of(fi)
        ch = [c for c in peewee_chains(prog) if c.fi is fi and c.model == "BucketModel" and c.op in ("create", "delete")]
        refresh = {g.node_of(c) for c in walk_own(fi.node) if isinstance(c, ast.Call) and norm(c.func) == "self.update_bucket_keys"}
        ok = False
        if ch and refresh:
            ok, w = g.must_pass(g.node_of(ch[0].node), refresh)
        rep.check(bool(ok), "CACHES", fi.short, f"update_bucket_keys() after {what}", "on every normal path", f"the bucket-key cache is not refreshed after {what}: the new bucket is unknown to event operations / the deleted one lingers", fi.loc())
    ub = prog.func("PeeweeStorage.update_bucket_keys")
    t = norm(ub.node)
    rep.check("self.bucket_keys = {bucket.id: bucket.key for bucket in buckets}" in t and "buckets = BucketModel.select()" in t, "CACHES", ub.short, "rebuilds from all rows", "{id: key for every BucketModel row}", "the key cache is not rebuilt from all bucket rows", ub.loc())


def container_eviction(prog, rep):
    """every keyed container a class keeps on self is emptied of the bucket's entry by its delete_bucket"""
    rep.rule("CACHES-ALL", "for Datastore and each backend: every attribute of self that some method stores into by key (self.A[k] = v / setdefault) is, in that class's delete_bucket, either evicted (del self.A[..] / self.A.pop(..) / clear()) or rebuilt wholesale (self.A = ... in delete_bucket or in a method it calls); an entry that survives the bucket answers for its successor of the same id or row key")
    n = 0
    for cname in ("Datastore", "MemoryStorage", "PeeweeStorage", "SqliteStorage"):
        ci = prog.cls(cname)
        keyed = {}
        for m in ci.methods.values():
            for x in walk_own(m.node):
                tg = []
                if isinstance(x, ast.Assign):
                    tg = x.targets
                elif isinstance(x, (ast.AugAssign, ast.AnnAssign)):
                    tg = [x.target]
                for t in tg:
                    if isinstance(t, ast.Subscript) and isinstance(t.value, ast.Attribute) and isinstance(t.value.value, ast.Name) and t.value.value.id == "self":
                        keyed.setdefault(t.value.attr, (m, x))
                if isinstance(x, ast.Call) and isinstance(x.func, ast.Attribute) and x.func.attr == "setdefault" and isinstance(x.func.value, ast.Attribute) and norm(x.func.value.value) == "self":
                    keyed.setdefault(x.func.value.attr, (m, x))
        d = ci.methods.get("delete_bucket")
        if d is None:
            continue
        # methods of the class that delete_bucket calls on self (one level is what the code uses)
        scope_fns = [d] + [ci.methods[c.func.attr] for c in walk_own(d.node) if isinstance(c, ast.Call) and isinstance(c.func, ast.Attribute) and norm(c.func.value) == "self" and c.func.attr in ci.methods]
        for a, (m, site) in sorted(keyed.items()):
            n += 1
            ok = False
            for f in scope_fns:
                for x in walk_own(f.node):
                    if isinstance(x, ast.Delete) and any(isinstance(t, ast.Subscript) and norm(t.value) == f"self.{a}" for t in x.targets):
                        ok = True
                    if isinstance(x, ast.Call) and isinstance(x.func, ast.Attribute) and x.func.attr in ("pop", "clear") and norm(x.func.value) == f"self.{a}":
                        ok = True
                    if isinstance(x, ast.Assign) and any(norm(t) == f"self.{a}" for t in x.targets):
                        ok = True
            rep.check(ok, "CACHES-ALL", d.short, f"self.{a}", "evicted or rebuilt when a bucket is deleted", f"self.{a} is filled by key in {m.short} (line {site.lineno}) but {d.short} neither evicts the deleted bucket's entry nor rebuilds it: after delete + re-create (same id, or a recycled row key) the stale entry answers for the new bucket", d.loc(), expected=f"del self.{a}[...] / self.{a}.pop(...) / self.{a} = ... in {d.short}", found="no eviction")
    rep.floor("keyed containers on self", n, 3)
    # the handle cache is filled only for buckets that exist
    gi = prog.func("Datastore.__getitem__")
    gg = cfg_of(gi)
    stores = [x for x in walk_own(gi.node) if isinstance(x, ast.Assign) and any(isinstance(t, ast.Subscript) and norm(t.value) == "self.bucket_instances" for t in x.targets)]
    if stores:
        r = gg.reach_filtered(gg.entry, lambda u, v, lab: membership(lab, "bucket_id", "self.buckets()") is not True)
        for st in stores:
            rep.check(gg.node_of(st) not in r, "CACHES-ALL", gi.short, "handle cached only for existing buckets", "the store into bucket_instances is dominated by `bucket_id in self.buckets()`", "a Bucket handle is cached before (or without) checking that the bucket exists: after a failed lookup the handle stays cached, and later lookups of the missing bucket succeed", gi.loc(st))
    # ... and what __getitem__ stored for the requested id is still there when it reads it back
    reads = [x for x in walk_own(gi.node) if isinstance(x, ast.Subscript) and isinstance(x.ctx, ast.Load) and norm(x.value) == "self.bucket_instances"]
    for st in stores:
        key = next(norm(t.slice) for t in st.targets if isinstance(t, ast.Subscript))
        for rm in walk_own(gi.node):
            gone = None
            if isinstance(rm, ast.Call) and isinstance(rm.func, ast.Attribute) and norm(rm.func.value) == "self.bucket_instances":
                if rm.func.attr == "popitem" and not rm.args and not rm.keywords:
                    gone = "popitem() removes the entry added last, which is the one just stored"
                elif rm.func.attr == "clear":
                    gone = "clear() empties the cache"
                elif rm.func.attr == "pop" and rm.args and norm(rm.args[0]) == key:
                    gone = "pop() removes the requested id"
            if isinstance(rm, ast.Delete) and any(isinstance(t, ast.Subscript) and norm(t.value) == "self.bucket_instances" and norm(t.slice) == key for t in rm.targets):
                gone = "del removes the requested id"
            if gone is None:
                continue
            stn = rm
            while not isinstance(stn, ast.stmt):
                stn = parent(stn)
            on_path = gg.node_of(stn) in gg.reach_avoiding([gg.node_of(st)])

            def _stmt(x):
                while not isinstance(x, ast.stmt):
                    x = parent(x)
                return x

            after_rm = gg.reach_avoiding([gg.node_of(stn)], avoid=frozenset([gg.node_of(st)]))
            reads_after = [r_ for r_ in reads if gg.node_of(_stmt(r_)) in after_rm]
            rep.check(not (on_path and reads_after), "CACHES-ALL", gi.short, "cached handle still present when read back", "nothing between the store and the read removes the entry", f"`{norm(rm)[:60]}` runs after `{norm(st)[:60]}`: {gone}, and `{norm(reads_after[0]) if reads_after else ''}` then raises KeyError for a bucket that exists", gi.loc(rm))


def not_found(prog, rep):
    rep.rule("NOT-FOUND", "update_bucket, delete_bucket and get_metadata of each backend reach `raise ValueError` (own body or a resolved callee) on the path where the bucket was not found: else of the membership test (memory, peewee); rowcount != 1 / fetchone() is None (sqlite)")
    for cname in ("MemoryStorage", "PeeweeStorage", "SqliteStorage"):
        for m in ("update_bucket", "delete_bucket", "get_metadata"):
            fi = prog.func(f"{cname}.{m}")
            g = cfg_of(fi)
            bp = bparam(fi)
            raises = [n for n in g.nodes if n.kind == "stmt" and isinstance(n.ast, ast.Raise) and norm(n.ast.exc).startswith("ValueError")]
            ok = False
            why = "no `raise ValueError`"
            if cname != "SqliteStorage":
                cont = "self._metadata" if cname == "MemoryStorage" else "self.bucket_keys"
                test = f"{bp} in {cont}"
                falses = [v for n in g.nodes if n.kind == "branch" for v, lab in g.succ[n.id] if membership(lab, bp, cont) is False]
                if falses and raises:
                    ok = all(g.exit not in g.reach_avoiding([v], include_start=True) for v in falses) and any(r.id in g.reach_avoiding([v], include_start=True) for v in falses for r in raises)
                    why = "the not-found branch can return normally"
                else:
                    why = f"no `{test}` test with a raising not-found branch"
            else:
                if m == "delete_bucket":
                    from ..trace import resolve

                    def _is_rowcount_miss(e):
                        """<x>.rowcount != 1 / == 0 / < 1, through single-assignment locals -> polarity of 'missing' or None"""
                        if isinstance(e, ast.UnaryOp) and isinstance(e.op, ast.Not):
                            r_ = _is_rowcount_miss(e.operand)
                            return None if r_ is None else (not r_)
                        if isinstance(e, ast.Name):
                            d_ = single_def(fi, e.id)
                            return _is_rowcount_miss(d_) if isinstance(d_, (ast.Compare, ast.UnaryOp)) else None
                        if isinstance(e, ast.Compare) and len(e.ops) == 1 and isinstance(e.comparators[0], ast.Constant):
                            l = resolve(e.left, fi)
                            if isinstance(l, ast.Attribute) and l.attr == "rowcount":
                                k = e.comparators[0].value
                                op = e.ops[0]
                                if (isinstance(op, ast.NotEq) and k == 1) or (isinstance(op, ast.Eq) and k == 0) or (isinstance(op, ast.Lt) and k == 1):
                                    return True
                                if (isinstance(op, ast.Eq) and k == 1) or (isinstance(op, ast.GtE) and k == 1) or (isinstance(op, ast.Gt) and k == 0):
                                    return False
                        return None

                    tests = [(n, _is_rowcount_miss(n.ast)) for n in g.nodes if n.kind == "branch" and _is_rowcount_miss(n.ast) is not None]
                    ok = False
                    if tests and raises:
                        tn, miss_pol = tests[0]
                        miss = [v for v, lab in g.succ[tn.id] if lab and lab[2] is miss_pol]
                        ok = bool(miss) and all(g.exit not in g.reach_avoiding([v], include_start=True) for v in miss) and g.postdominates(tn.id, g.entry)
                    why = "no `rowcount != 1 -> raise ValueError` on every path"
                elif m == "get_metadata":
                    # the fetched row, under whatever name it is kept
                    rowv = next((norm(a_.targets[0]) for a_ in walk_own(fi.node) if isinstance(a_, ast.Assign) and len(a_.targets) == 1 and isinstance(a_.targets[0], ast.Name) and isinstance(a_.value, ast.Call) and isinstance(a_.value.func, ast.Attribute) and a_.value.func.attr == "fetchone"), "row")
                    tests = [n for n in g.nodes if n.kind == "branch" and norm(n.ast) in (f"{rowv} is not None", f"{rowv} is None", rowv, f"not {rowv}")]
                    # a local that is None exactly where the row is: `x = None` under `row is None`, tested later
                    carriers = set()
                    for t_ in list(tests):
                        for a_ in walk_own(fi.node):
                            if isinstance(a_, ast.Assign) and len(a_.targets) == 1 and isinstance(a_.targets[0], ast.Name) and isinstance(a_.value, ast.Constant) and a_.value.value is None and isinstance(parent(a_), ast.If) and parent(a_).test is t_.ast:
                                carriers.add(a_.targets[0].id)
                    for a_ in walk_own(fi.node):
                        # x = {...} if row is not None else None
                        if isinstance(a_, ast.Assign) and len(a_.targets) == 1 and isinstance(a_.targets[0], ast.Name) and isinstance(a_.value, ast.IfExp):
                            t_ = norm(a_.value.test)
                            none_side = a_.value.orelse if t_ in ("row is not None", "row") else a_.value.body if t_ in ("row is None", "not row") else None
                            if isinstance(none_side, ast.Constant) and none_side.value is None:
                                carriers.add(a_.targets[0].id)
                    ctests = [n for n in g.nodes if n.kind == "branch" and any(norm(n.ast) in (f"{c_} is None", f"{c_} is not None", c_, f"not {c_}") for c_ in carriers)]
                    if ctests and raises:
                        ct = ctests[-1]
                        pol_missing = norm(ct.ast).endswith("is None") or norm(ct.ast).startswith("not ")
                        miss = [v for v, lab in g.succ[ct.id] if lab and lab[2] is pol_missing]
                        ok = all(g.exit not in g.reach_avoiding([v], include_start=True) for v in miss) and bool(miss)
                    elif tests and raises:
                        pol_missing = norm(tests[0].ast) in (f"{rowv} is None", f"not {rowv}")
                        miss = [v for v, lab in g.succ[tests[0].id] if lab and lab[2] is pol_missing]
                        ok = all(g.exit not in g.reach_avoiding([v], include_start=True) for v in miss) and bool(miss)
                    if not tests and raises:
                        # `for row in <SELECT ... WHERE id = ?>: return {...}` followed by the raise: no row -> the loop is left at once
                        loops = [n for n in g.nodes if n.kind == "for" and ".execute(" in norm(n.ast.iter)]
                        if len(loops) == 1:
                            miss = [v for v, lab in g.succ[loops[0].id] if lab and lab[0] == "for" and lab[2] is False]
                            ok = bool(miss) and all(g.exit not in g.reach_avoiding([v], include_start=True) for v in miss)
                    why = "a missing row does not raise ValueError"
                else:
                    # update: UPDATE ... WHERE id = ? changes nothing for an unknown id; the error comes from the trailing get_metadata()
                    rets = [n for n in walk_own(fi.node) if isinstance(n, ast.Return) and n.value is not None and norm(n.value) == f"self.get_metadata({bp})"]
                    ok = bool(rets) and g.postdominates(g.node_of(rets[0]), g.node_of(rets[0]))
                    allrets = [n for n in walk_own(fi.node) if isinstance(n, ast.Return)]
                    ok = bool(rets) and len(allrets) == len(rets)
                    why = "update of an unknown bucket returns normally (no get_metadata() / ValueError at the end)"
            rep.check(ok, "NOT-FOUND", fi.short, "missing bucket raises ValueError", "", f"{m} on a bucket that does not exist: {why}", fi.loc())


def check(prog, rep):
    rep.level = "other"
    rep.explanation = (
        "Structure of the lifecycle decided per backend: parameter -> stored field -> listed key tables of create/update/list/describe agree with "
        "the seven metadata fields; update writes only supplied fields; delete removes the bucket from every container that holds per-bucket state "
        "(derived from the DDL / models / __init__), events included, on every path; the handle cache and the peewee key cache follow creation and "
        "deletion; not-found operations reach `raise ValueError` / KeyError. Histories (stale handles, re-creation races) and equality of metadata values are NOT decided."
    )
    rep.trusted_base = ["SQL / peewee semantics of the modelled statements", "C04's SCOPE rule for the scoping of the deletes"]
    rep.not_decided = ["histories: stale handles, re-creation races", "equality of returned metadata values (e.g. the creation instant's text form)"]
    instance_state(prog, rep)
    field_tables(prog, rep)
    guarded_updates(prog, rep)
    delete_coverage(prog, rep)
    caches_follow(prog, rep)
    # a keyed map: the key column is unique and compared exactly
    ddl_facts(prog, rep)
    wrapper_rules(prog, rep)
    container_eviction(prog, rep)
    not_found(prog, rep)
    # what create/update stored is what describe/list report: the store keeps its own copy of the metadata
    own_rules(prog, rep, methods=["create_bucket", "update_bucket", "get_metadata", "buckets"])
    # a failed (or any) bucket operation must not roll back the shared open transaction
    check_no_rollback(prog, rep)


VARIANTS = [
    ("B bucket ids compared case-insensitively by the table (COLLATE NOCASE)", SQ, "        id TEXT UNIQUE NOT NULL,\n        name TEXT,", "        id TEXT UNIQUE NOT NULL COLLATE NOCASE,\n        name TEXT,", "SCHEMA"),
    ("B memory create_bucket keeps the caller's nested data", ME, '            "data": copy.deepcopy(data) if data else {},', '            "data": dict(data or {}),', "OWN-IN"),
    ("B failed delete rolls the open transaction back", SQ, "        self.commit()\n        if cursor.rowcount != 1:\n            raise ValueError(\"Bucket did not exist, could not delete\")", "        if cursor.rowcount != 1:\n            self.conn.rollback()\n            raise ValueError(\"Bucket did not exist, could not delete\")\n        self.commit()", "NO-ROLLBACK"),
    ("B handle cached before the existence check", DS, "            if bucket_id in self.buckets():\n                bucket = Bucket(self, bucket_id)\n                self.bucket_instances[bucket_id] = bucket\n            else:", "            self.bucket_instances[bucket_id] = Bucket(self, bucket_id)\n            if bucket_id not in self.buckets():", "CACHES-ALL"),
    ("B peewee metadata cache never evicted on delete", PW, "            bucket = BucketModel.get(\n                BucketModel.key == self.bucket_keys[bucket_id]\n            ).json()\n            return bucket", "            key = self.bucket_keys[bucket_id]\n            if not hasattr(self, \"_md\"):\n                self._md = {}\n            if key not in self._md:\n                self._md[key] = BucketModel.get(BucketModel.key == key).json()\n            return dict(self._md[key])", "CACHES-ALL"),
    ("B sqlite delete_bucket keeps events", SQ, '        self.conn.execute(\n            "DELETE FROM events WHERE bucketrow IN (SELECT rowid FROM buckets WHERE id = ?)",\n            [bucket_id],\n        )\n', "", "DELETE-ALL"),
    ("B peewee delete_bucket keeps events", PW, "            EventModel.delete().where(\n                EventModel.bucket == self.bucket_keys[bucket_id]\n            ).execute()\n", "", "DELETE-ALL"),
    ("B memory delete_bucket keeps the event list", ME, "        if bucket_id in self.db:\n            del self.db[bucket_id]\n", "", "DELETE-ALL"),
    ("B handle cache not evicted", DS, "        if bucket_id in self.bucket_instances:\n            del self.bucket_instances[bucket_id]\n", "", "CACHES"),
    ("B peewee key cache not refreshed after create", PW, "            datastr=json.dumps(data or {}),\n        )\n        self.update_bucket_keys()\n", "            datastr=json.dumps(data or {}),\n        )\n", "CACHES"),
    ("B client stored as hostname (sqlite)", SQ, "                type_id,\n                client,\n                hostname,\n                created,", "                type_id,\n                hostname,\n                client,\n                created,", "FIELDS"),
    ("B update pair mislabelled", SQ, '            ("client", client),\n            ("hostname", hostname),', '            ("client", hostname),\n            ("hostname", client),', "FIELDS"),
    ("B memory listing swaps type and client", ME, '            "type": type_id,\n            "client": client,', '            "type": client,\n            "client": type_id,', "FIELDS"),
    ("B peewee unguarded update", PW, "            if name is not None:\n                bucket.name = name\n", "            bucket.name = name\n", "GUARDED"),
    ("B sqlite data written when absent", SQ, '("datastr", json.dumps(data) if data is not None else None),', '("datastr", json.dumps(data)),', "GUARDED"),
    ("B memory update on unknown bucket silently ignored", ME, '        else:\n            raise ValueError("Bucket did not exist, could not update")\n', "", "NOT-FOUND"),
    ("B sqlite delete of unknown bucket silent", SQ, '        if cursor.rowcount != 1:\n            raise ValueError("Bucket did not exist, could not delete")\n', "", "NOT-FOUND"),
    ("B getitem returns None for unknown id", DS, "                raise KeyError\n", "                return None\n", "CACHES"),
    ("B creation instant relabelled instead of converted", PW, "            .astimezone(timezone.utc)\n            .isoformat(),", "            .replace(tzinfo=timezone.utc)\n            .isoformat(),", "FIELDS"),
    ("B listing projection drops the data column", PW, "        return {bucket.id: bucket.json() for bucket in BucketModel.select()}", "        return {bucket.id: bucket.json() for bucket in BucketModel.select(BucketModel.key, BucketModel.id, BucketModel.created, BucketModel.name, BucketModel.type, BucketModel.client, BucketModel.hostname)}", "FIELDS"),
    ("OK guard written with truthiness (listed)", PW, "            if client is not None:\n                bucket.client = client\n", "            if client:\n                bucket.client = client\n", "ok"),
    ("OK eviction via pop", DS, "        if bucket_id in self.bucket_instances:\n            del self.bucket_instances[bucket_id]\n", "        self.bucket_instances.pop(bucket_id, None)\n", "ok"),
    ("OK independent field updates reordered", ME, '            if type_id:\n                self._metadata[bucket_id]["type"] = type_id\n            if client:\n                self._metadata[bucket_id]["client"] = client\n', '            if client:\n                self._metadata[bucket_id]["client"] = client\n            if type_id:\n                self._metadata[bucket_id]["type"] = type_id\n', "ok"),
]
