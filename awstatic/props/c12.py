"""C12 — queries only read: bucket data is unchanged and scoped to the query window."""
import ast

from ..heap import Analysis
from ..model import FuncInfo, norm, parent, walk_own, walk_with_nested_exprs
from ..rules_own import own_rules, storage_analysis
from ..rules_store import IFACE, STORAGE_CLASSES
from ..sqlmodel import peewee_chains, single_def, sql_sites

Q = "aw_query/functions.py"
Q2 = "aw_query/query2.py"

EXEMPT_WRITERS = {
    "SqliteStorage.commit": "flushes the open transaction; changes no bucket data",
    "SqliteStorage.conditional_commit": "flushes the open transaction; changes no bucket data",
}
PW_WRITE_OPS = ("delete", "create", "insert_many", "update", "insert", "replace", "replace_many", "bulk_create", "bulk_update", "delete_by_id", "truncate_table", "drop_table")
TOKEN_METHODS = ("check", "parse", "interpret")


def direct_writers(prog):
    """functions that themselves change stored bucket data, with the reason"""
    w = {}
    for s in sql_sites(prog):
        if s.stmt.is_dml or s.stmt.is_ddl:
            w.setdefault(s.fi.qname, f"SQL {s.stmt.kind.upper()} {s.stmt.table} at {s.loc()}")
    for ch in peewee_chains(prog):
        if ch.op in PW_WRITE_OPS:
            w.setdefault(ch.fi.qname, f"peewee {ch.model}.{ch.op} at {ch.loc()}")
    pmod = prog.module("aw_datastore.storages.peewee")
    for fi in prog.funcs.values():
        if fi.mod is pmod:
            for n in walk_with_nested_exprs(fi.node):
                if isinstance(n, ast.Call) and isinstance(n.func, ast.Attribute) and n.func.attr in ("save", "delete_instance", "create_table", "execute_sql", "drop_table") and not (isinstance(n.func.value, ast.Name) and n.func.value.id == "self"):
                    w.setdefault(fi.qname, f"peewee .{n.func.attr}() at {fi.loc(n)}")
    # memory: writes below self.<container> found by the effect analysis
    mcls = prog.cls("MemoryStorage")
    for name, fi in mcls.methods.items():
        if name == "__init__":
            continue
        an = Analysis(prog, fi)
        an.run()
        sw = [x for x in an.writes if x.node[0] == "S" and x.fn == fi.short]
        if sw:
            w.setdefault(fi.qname, f"memory store write `{sw[0].how}` at {sw[0].loc}")
    # config / file writers are not bucket data; not included
    return w


def call_graph(prog):
    """callee sets for every function: type-resolved calls (E0) + dynamic dispatch on the token classes"""
    token_methods = {m: [] for m in TOKEN_METHODS}
    qtoken = [c for c in prog.classes.values() if c.mod.name == "aw_query.query2"]
    for c in qtoken:
        for m in TOKEN_METHODS:
            if prog.method(c, m) is not None:
                token_methods[m].append(prog.method(c, m))
    edges = {}
    unresolved = {}
    for fi in prog.funcs.values():
        out = set()
        for c in prog.all_calls(fi):
            cs = prog.resolve_call(c, fi)
            if cs:
                out |= set(cs)
                # a decorated callee is really reached through its decorators' wrappers
                for callee in cs:
                    for d in callee.decorators:
                        dn = d.split("(")[0]
                        r = prog.lookup(callee, dn) if callee.outer is None else None
                        if isinstance(r, FuncInfo):
                            stack = [r]
                            while stack:
                                x = stack.pop()
                                out.add(x)
                                stack.extend(x.nested.values())
            elif isinstance(c.func, ast.Attribute) and c.func.attr in TOKEN_METHODS and fi.mod.name == "aw_query.query2":
                out |= set(token_methods[c.func.attr])
            elif isinstance(c.func, ast.Name) and c.func.id in ("f",) and fi.outer is not None:
                # decorator wrappers call the wrapped function f: every registered query function
                out |= set(prog.registry())
            else:
                unresolved.setdefault(fi.qname, []).append(norm(c.func))
        # nested functions are reachable from their definer (decorators return them)
        out |= set(fi.nested.values())
        edges[fi] = out
    return edges, unresolved


def reachable(edges, roots):
    seen, work = set(), list(roots)
    pred = {}
    while work:
        f = work.pop()
        if f in seen:
            continue
        seen.add(f)
        for g in edges.get(f, ()):
            if g not in seen:
                pred.setdefault(g, f)
                work.append(g)
    return seen, pred


def no_write_reachable(prog, rep):
    rep.rule("NO-WRITE", "writers (functions containing an INSERT/UPDATE/DELETE/DDL statement, a peewee write chain / save(), or a write below a MemoryStorage container; closed under 'calls a writer') are disjoint from everything reachable from aw_query.query2.query through resolved calls, the function registry (all @q2_function), both decorator wrappers and aw_transform")
    dw = direct_writers(prog)
    for k in list(dw):
        short = prog.funcs[k].short
        if short in EXEMPT_WRITERS:
            rep.note(f"{short} exempt from the writer set: {EXEMPT_WRITERS[short]}")
            del dw[k]
    edges, unresolved = call_graph(prog)
    # close writers under "calls a writer"
    writers = dict(dw)
    changed = True
    while changed:
        changed = False
        for f, outs in edges.items():
            if f.qname in writers or f.short in EXEMPT_WRITERS:
                continue
            for g in outs:
                if g.qname in writers:
                    writers[f.qname] = f"calls {g.short}"
                    changed = True
                    break
    root = prog.func("query", "aw_query.query2")
    reach, pred = reachable(edges, [root])
    rep.floor("direct writers found", len(dw), 14)
    rep.floor("functions reachable from query()", len(reach), 45)
    must_reach = ["Bucket.get", "Bucket.get_eventcount", "SqliteStorage.get_events", "PeeweeStorage.get_events", "MemoryStorage.get_events", "q2_query_bucket", "q2_function.h.g", "q2_typecheck.g", "flood", "QFunction.interpret"]
    for m in must_reach:
        if not any(f.short == m for f in reach):
            rep.error(f"call graph lost an edge: {m} is no longer reachable from query() (the NO-WRITE rule would pass vacuously)")
    must_write = ["Bucket.insert", "Bucket.delete", "Bucket.replace", "Bucket.replace_last", "Datastore.delete_bucket", "Datastore.create_bucket", "Datastore.update_bucket", "SqliteStorage.insert_one", "PeeweeStorage.insert_one", "MemoryStorage.insert_one", "MemoryStorage.delete"]
    for m in must_write:
        if not any(prog.funcs[q].short == m for q in writers):
            rep.error(f"writer computation lost {m} (the NO-WRITE rule would pass vacuously)")
    rep.extra["writers"] = {prog.funcs[q].short: why for q, why in sorted(writers.items())}
    rep.extra["reachable_from_query"] = sorted(f.short for f in reach)
    rep.extra["unresolved_calls_in_reachable"] = {q: sorted(set(v))[:12] for q, v in unresolved.items() if any(f.qname == q for f in reach)}
    bad = [f for f in reach if f.qname in writers]
    for f in bad:
        # path from query
        chain, cur = [f.short], f
        while cur in pred:
            cur = pred[cur]
            chain.append(cur.short)
        rep.violation("NO-WRITE", f.short, "reachable writer", f"a query can reach {f.short} ({writers[f.qname]}): call path {' <- '.join(chain)}", f.loc(), path=chain[::-1])
    if not bad:
        rep.ok("NO-WRITE", "aw_query.query2.query", "writers ∩ reachable", f"{len(writers)} writers, {len(reach)} functions reachable, intersection empty", root.loc())
    for f in sorted(reach, key=lambda x: x.qname):
        rep.unit("functions", f.qname)


def window_plumbing(prog, rep):
    rep.rule("WINDOW", "query() writes namespace['STARTTIME'] from its starttime parameter and ['ENDTIME'] from endtime; query_bucket / query_bucket_eventcount pass parse(namespace['STARTTIME']) as starttime= and parse(namespace['ENDTIME']) as endtime= to Bucket.get / Bucket.get_eventcount of datastore[<their own bucket argument>], with no limit")
    q = prog.func("query", "aw_query.query2")
    want = {"STARTTIME": "starttime", "ENDTIME": "endtime"}
    for n in walk_own(q.node):
        if isinstance(n, ast.Assign) and isinstance(n.targets[0], ast.Subscript) and norm(n.targets[0].value) == "namespace" and isinstance(n.targets[0].slice, ast.Constant) and n.targets[0].slice.value in want:
            k = n.targets[0].slice.value
            p = want.pop(k)
            ok = norm(n.value) in (f"{p}.isoformat()", p)
            rep.check(ok, "WINDOW", q.short, f"namespace['{k}']", f"{norm(n.value)}", f"namespace['{k}'] is set from `{norm(n.value)}`, not from the query's {p}", q.loc(n))
            from ..sqlmodel import local_defs as _ld0

            rb = [d for d in _ld0(q, p)]
            if ok and rb:
                rep.violation("WINDOW", q.short, f"{p} re-bound", f"query() re-binds its `{p}` parameter (`{norm(rb[0])[:70]}`) before putting it into the namespace: query_bucket then reads a window other than the one the query was asked for", q.loc(rb[0]))
    for k in want:
        rep.violation("WINDOW", q.short, f"namespace['{k}']", f"the query window edge {k} is never put into the namespace", q.loc())
    # the window is set before the statements run
    for fn, meth in (("q2_query_bucket", "get"), ("q2_query_bucket_eventcount", "get_eventcount")):
        fi = prog.func(fn)
        bucket_param = fi.params[-1]
        calls = [c for c in prog.all_calls(fi) if isinstance(c.func, ast.Attribute) and c.func.attr in ("get", "get_eventcount", "get_by_id") and isinstance(c.func.value, ast.Subscript) and norm(c.func.value.value) == "datastore"]
        if len(calls) != 1:
            rep.violation("WINDOW", fi.short, "bucket read", f"{len(calls)} reads of datastore[...] (exactly one expected)", fi.loc())
            continue
        c = calls[0]
        ok_m = c.func.attr == meth
        from ..sqlmodel import local_defs as _ld

        ok_b = norm(c.func.value.slice) == bucket_param and not _ld(fi, bucket_param)  # the argument itself, not a re-bound / resolved name
        kw = {k.arg: k.value for k in c.keywords}
        names = ["limit", "starttime", "endtime"] if meth == "get" else ["starttime", "endtime"]
        for i, a in enumerate(c.args):
            if i < len(names):
                kw[names[i]] = a

        def edge_ok(v, key):
            if v is None:
                return False
            d = single_def(fi, v.id) if isinstance(v, ast.Name) else v
            return d is not None and norm(d) == f"iso8601.parse_date(namespace['{key}'])"

        ok_s = edge_ok(kw.get("starttime"), "STARTTIME")
        ok_e = edge_ok(kw.get("endtime"), "ENDTIME")
        ok_l = "limit" not in kw or norm(kw["limit"]) == "-1"
        why = []
        if not ok_m:
            why.append(f"calls .{c.func.attr}() instead of .{meth}()")
        if not ok_b:
            why.append(f"reads datastore[{norm(c.func.value.slice)}]" + (f" after re-binding `{bucket_param}` ({norm(_ld(fi, bucket_param)[0])[:60]})" if _ld(fi, bucket_param) else "") + f" instead of the bucket named by its own argument `{bucket_param}`")
        if not ok_s:
            why.append(f"starttime= is `{norm(kw['starttime']) if 'starttime' in kw else 'missing'}`, not the query's STARTTIME")
        if not ok_e:
            why.append(f"endtime= is `{norm(kw['endtime']) if 'endtime' in kw else 'missing'}`, not the query's ENDTIME")
        if not ok_l:
            why.append(f"a limit ({norm(kw['limit'])}) is passed")
        rep.check(not why, "WINDOW", fi.short, f"datastore[{bucket_param}].{meth}(starttime=, endtime=)", "same call as a direct windowed read over the query's start and end", "; ".join(why), fi.loc(c))
        # nothing in between rewrites the result
        rets = [n for n in walk_own(fi.node) if isinstance(n, ast.Return)]
        rep.check(len(rets) == 1 and rets[0].value is c, "WINDOW", fi.short, "result", "returns the read's result as is", "the read's result is post-processed before it is returned", fi.loc())


def stateless(prog, rep):
    """a query over one window must not see what a query over another window left behind"""
    rep.rule("STATELESS", "nothing reachable from query() writes a module-level container (effect analysis, E2): every run starts from create_namespace() and leaves nothing behind, so the answer for a window depends only on the store and the program text (the function registry is filled at import time, not by queries)")
    fi = prog.func("query", "aw_query.query2")
    roots = [fi] + [f for f in prog.registry() if f is not fi]
    ws, total = [], 0
    for r in roots:
        an = Analysis(prog, r)
        an.run()
        total += len(an.writes)
        ws += [(r, w) for w in an.writes if w.node[0] == "S"]
    rep.unit("functions", f"STATELESS roots: query() and {len(roots) - 1} registered built-ins")
    rep.floor("STATELESS roots", len(roots), 18)
    if ws:
        r, w = ws[0]
        rep.violation("STATELESS", r.short, f"write to {'.'.join(str(x) for x in w.node[1])}", f"`{w.how}` at {w.loc} (in {w.fn}) stores into module-level state during a query: a later evaluation (the same call further down the program, or a later query) is answered from what an earlier one left behind instead of from its own arguments, window and the store", w.loc)
    else:
        rep.ok("STATELESS", fi.short, "module-level state", f"{total} writes analysed from {len(roots)} roots, none below a module-level container", fi.loc())


def check(prog, rep):
    rep.level = "proof"
    rep.explanation = (
        "'Leaves the store unchanged' decided for every program: the set of writers is computed (embedded-SQL model, peewee chain model, effect "
        "analysis of the memory backend, closed under calls) and is disjoint from everything reachable from query() in the resolved call graph "
        "(registry dispatch, decorator wrappers, token-class dispatch, aw_transform). What queries can mutate in place (annotate, clear, re-time) "
        "are copies: the read methods reachable from queries return nothing that shares an object with the store (OWN-OUT, E2). "
        "query_bucket/query_bucket_eventcount are the same call as a direct windowed read over the query's start and end (WINDOW)."
    )
    rep.trusted_base = ["call resolution of E0 (unresolved calls inside the reachable set are listed in evidence; they are builtins / third-party pure calls)", "C01's trusted base for OWN-OUT"]
    rep.not_decided = ["nothing beyond the trusted base for 'store unchanged'; equality with a direct read follows from WINDOW (same call)"]
    no_write_reachable(prog, rep)
    own_rules(prog, rep, methods=["get_events", "get_eventcount", "get_metadata", "buckets", "get_event"])
    window_plumbing(prog, rep)
    stateless(prog, rep)
    # ... and the Bucket / Datastore methods a query reads through keep nothing between calls and return the storage's answer:
    # a read remembered by the wrapper hands the same Event objects to the next query, which sees the previous one's annotations
    from ..rules_wrap import wrapper_rules

    wrapper_rules(prog, rep, parts=("state", "reads", "arguments"))
    from ..rules_store import forward_bucket

    forward_bucket(prog, rep)
    # the existence check in front of query_bucket fails for buckets that do not exist, and for nothing else (a direct read
    # does not look at the bucket's metadata)
    vf = prog.func("_verify_bucket_exists", "aw_query.functions")
    for r_ in [x for x in walk_own(vf.node) if isinstance(x, ast.Raise)]:
        p_, child_ = parent(r_), r_
        guard_ok = False
        while p_ is not None and p_ is not vf.node:
            if isinstance(p_, ast.If):
                t_ = norm(p_.test)
                in_body = any(child_ is b_ or any(child_ is y for y in ast.walk(b_)) for b_ in p_.body)
                if ("not in" in t_ and "buckets" in t_ and in_body) or (" in " in t_ and "not in" not in t_ and "buckets" in t_ and not in_body):
                    guard_ok = True
            if isinstance(p_, (ast.Try, ast.ExceptHandler)):
                guard_ok = False
                break
            child_, p_ = p_, parent(p_)
        rep.check(guard_ok, "WINDOW", vf.short, f"raise at line {r_.lineno}", "only for a bucket that is not listed", f"`{norm(r_)[:70]}` makes query_bucket / query_bucket_eventcount fail for a bucket that exists (the raise is not the `not in buckets()` branch): a direct read of the same bucket succeeds, so the query no longer yields what the direct read yields", vf.loc(r_))
    # the bucket name a query denotes is the text of its string literal
    from .c11 import text_level_rules

    text_level_rules(prog, rep)
    from ..rules_commit import check_no_rollback
    from ..rules_own import copy_protocol

    check_no_rollback(prog, rep)
    copy_protocol(prog, rep)
    # nothing on the way is memoised on a key that does not determine the answer
    from ..rules_own import memo_rule

    memo_rule(prog, rep, rule="MEMO")


VARIANTS = [
    ("B Bucket.get remembers its last read", "aw_datastore/datastore.py", "        return self.ds.storage_strategy.get_events(\n            self.bucket_id, limit, starttime, endtime\n        )", "        key = (limit, starttime, endtime)\n        if getattr(self, \"_last\", None) is None or self._last[0] != key:\n            self._last = (key, self.ds.storage_strategy.get_events(self.bucket_id, limit, starttime, endtime))\n        return list(self._last[1])", "WRAP"),
    {"name": "B compiled category rules memoised in a module-level dict", "edits": [(Q, "@q2_function(categorize)\n@q2_typecheck\ndef q2_categorize(events: list, classes: list):\n    classes = [(_cls, Rule(rule_dict)) for _cls, rule_dict in classes]\n", "_rule_cache: dict = {}\n\n\ndef _compile_rule(rule_dict):\n    key = rule_dict.get(\"regex\")\n    if key not in _rule_cache:\n        _rule_cache[key] = Rule(rule_dict)\n    return _rule_cache[key]\n\n\n@q2_function(categorize)\n@q2_typecheck\ndef q2_categorize(events: list, classes: list):\n    classes = [(_cls, _compile_rule(rule_dict)) for _cls, rule_dict in classes]\n")], "expect": "STATELESS"},
    ("B query function inserts", Q, "    return datastore[bucketname].get(starttime=starttime, endtime=endtime)\n", "    evs = datastore[bucketname].get(starttime=starttime, endtime=endtime)\n    if len(evs) > 100000:\n        datastore[bucketname].insert(evs[0])\n    return evs\n", ["NO-WRITE"]),
    ("B query function deletes through the storage", Q, "    _verify_bucket_exists(datastore, bucketname)\n    starttime = iso8601.parse_date(namespace[\"STARTTIME\"])\n    endtime = iso8601.parse_date(namespace[\"ENDTIME\"])\n", "    _verify_bucket_exists(datastore, bucketname)\n    datastore.storage_strategy.delete(bucketname, -1)\n    starttime = iso8601.parse_date(namespace[\"STARTTIME\"])\n    endtime = iso8601.parse_date(namespace[\"ENDTIME\"])\n", "NO-WRITE"),
    ("B verify helper updates metadata", Q, "    if bucketname in datastore.buckets():\n        return\n", "    if bucketname in datastore.buckets():\n        datastore.update_bucket(bucketname, name=bucketname)\n        return\n", "NO-WRITE"),
    ("B interpret replaces last event", Q2, "        namespace[self.name] = self.value\n        return self.value", "        namespace[self.name] = self.value\n        if self.name == 'FLUSH':\n            datastore[self.value].replace_last(None)\n        return self.value", "NO-WRITE"),
    ("B window crossed", Q, '        starttime = iso8601.parse_date(namespace["STARTTIME"])\n        endtime = iso8601.parse_date(namespace["ENDTIME"])\n    except', '        starttime = iso8601.parse_date(namespace["ENDTIME"])\n        endtime = iso8601.parse_date(namespace["STARTTIME"])\n    except', "WINDOW"),
    ("B read without window end", Q, "return datastore[bucketname].get(starttime=starttime, endtime=endtime)", "return datastore[bucketname].get(starttime=starttime)", "WINDOW"),
    ("B eventcount without window", Q, "return datastore[bucketname].get_eventcount(starttime=starttime, endtime=endtime)", "return datastore[bucketname].get_eventcount()", "WINDOW"),
    ("B read limited", Q, "return datastore[bucketname].get(starttime=starttime, endtime=endtime)", "return datastore[bucketname].get(1000, starttime=starttime, endtime=endtime)", "WINDOW"),
    ("B namespace window from name", Q2, 'namespace["ENDTIME"] = endtime.isoformat()', 'namespace["ENDTIME"] = starttime.isoformat()', "WINDOW"),
    ("B memory read hands out stored events", "aw_datastore/storages/memory.py", "        return copy.deepcopy(events)", "        return events", "OWN-OUT"),
    {"name": "B parsed statements memoised per query name (module-level dict)", "edits": [(Q2, "def query(\n", "_memo: dict = {}\n\n\ndef query(\n"), (Q2, "            var, val = parse(statement, namespace)\n", "            if (name, statement) not in _memo:\n                _memo[(name, statement)] = parse(statement, namespace)\n            var, val = _memo[(name, statement)]\n")], "expect": "STATELESS"},
    ("OK new pure wrapper", Q, '@q2_function()\n@q2_typecheck\ndef q2_nop():', '@q2_function(sum_durations)\n@q2_typecheck\ndef q2_total(events: list) -> timedelta:\n    return sum_durations(events)\n\n\n@q2_function()\n@q2_typecheck\ndef q2_nop():', "ok"),
    ("OK positional window", Q, "return datastore[bucketname].get(starttime=starttime, endtime=endtime)", "return datastore[bucketname].get(-1, starttime, endtime)", "ok"),
]
