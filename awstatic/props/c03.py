"""C03 — time-window reads: exactly the intersecting events, newest first, limited."""
import ast

from ..affine import Env, Form, Lit, NonAffine, State, canon_int, exec_block, is_floor_ms, lin, lin_in, literal
from ..cfg import cfg_of
from ..model import norm, parent, walk_own
from ..rules_read import count_source, EV_DUR, EV_START, W_END, W_START, limit_rule, order_rule, pred_memory, pred_peewee, pred_sqlite
from ..rules_store import is_param_ref


def _abstract(c):
    if isinstance(c, tuple):
        if c and c[0] == "c":
            return ("c", "#")
        return tuple(_abstract(x) for x in c)
    return c


def window_rounding(prog, rep, rule="ROUND"):
    rep.rule(rule, "Bucket.get: if the window start is rounded it is floored to the millisecond (1000*int(us/1000) | us//1000*1000 | us-us%1000); if the end is rounded it is pushed to the next millisecond with the carry into seconds (1+int(us/1000), modulo 10^6, +timedelta(seconds=carry)) or floor + 1 ms; the backend receives limit, start, end in that order")
    fi = prog.func("Bucket.get")
    rep.unit("functions", fi.qname)
    # start
    sa = [n for n in walk_own(fi.node) if isinstance(n, ast.Assign) and len(n.targets) == 1 and norm(n.targets[0]) == "starttime"]
    if not sa:
        rep.ok(rule, fi.short, "start rounding", "window start passed through unrounded (within the property's tolerance)", fi.loc())
    for a in sa:
        v = a.value
        cons = "start rounding"
        if isinstance(v, ast.Call) and norm(v.func) == "starttime.replace" and not v.args and [k.arg for k in v.keywords] == ["microsecond"]:
            c = canon_int(v.keywords[0].value, fi)
            if is_floor_ms(c, "starttime.microsecond"):
                rep.ok(rule, fi.short, cons, f"floor to ms: {norm(v.keywords[0].value)}", fi.loc(a))
            elif _abstract(c) in (_abstract(("mul", ("c", 1000), ("fdiv", ("v", "starttime.microsecond"), ("c", 1000)))), _abstract(("sub", ("v", "starttime.microsecond"), ("mod", ("v", "starttime.microsecond"), ("c", 1000))))):
                rep.violation(rule, fi.short, cons, f"`{norm(v.keywords[0].value)}` has the floor shape but the wrong constants: the window start moves by more than the millisecond tolerance (or replace() raises)", fi.loc(a), expected="1000 * int(us / 1000)", found=norm(v.keywords[0].value))
            elif "round" in str(c) or "ceil" in str(c):
                rep.violation(rule, fi.short, cons, f"`{norm(v.keywords[0].value)}` rounds up: microsecond=1000000 raises ValueError for the last half millisecond of every second, and the start moves later", fi.loc(a))
            else:
                rep.undecided(rule, fi.short, cons, f"unrecognised rounding `{norm(v.keywords[0].value)}`", fi.loc(a))
        else:
            rep.undecided(rule, fi.short, cons, f"unrecognised re-binding `{norm(v)[:80]}`", fi.loc(a))
    # end
    ea = [n for n in walk_own(fi.node) if isinstance(n, ast.Assign) and len(n.targets) == 1 and norm(n.targets[0]) == "endtime"]
    if not ea:
        rep.ok(rule, fi.short, "end rounding", "window end passed through unrounded (within the property's tolerance)", fi.loc())
    for a in ea:
        v = a.value
        cons = "end rounding"
        us = ("v", "endtime.microsecond")
        MS = ("add", ("c", 1), ("fdiv", us, ("c", 1000)))
        from ..affine import canon_mod

        M_ok = canon_mod(("mul", ("c", 1000), MS), ("c", 1000000))
        S_ok = ("fdiv", MS, ("c", 1000))
        repl, delta = None, None
        if isinstance(v, ast.BinOp) and isinstance(v.op, ast.Add):
            for x, y in ((v.left, v.right), (v.right, v.left)):
                if isinstance(x, ast.Call) and norm(x.func) == "endtime.replace":
                    repl, delta = x, y
                elif isinstance(x, ast.Name) and x.id == "endtime" and repl is None:
                    repl, delta = x, y
        elif isinstance(v, ast.Call) and norm(v.func) == "endtime.replace":
            repl, delta = v, None
        if repl is None:
            rep.undecided(rule, fi.short, cons, f"unrecognised re-binding `{norm(v)[:80]}`", fi.loc(a))
            continue
        m = None
        if isinstance(repl, ast.Call):
            if repl.args or [k.arg for k in repl.keywords] != ["microsecond"]:
                rep.undecided(rule, fi.short, cons, f"unrecognised replace() `{norm(repl)[:80]}`", fi.loc(a))
                continue
            m = canon_int(repl.keywords[0].value, fi)
        try:
            dform = lin(delta, Env(fi, prog, inline_locals=False)) if delta is not None else Form()
        except NonAffine:
            dform = None
        # which seconds expression?
        s = None
        if delta is not None and isinstance(delta, ast.Call) and norm(delta.func) in ("timedelta", "datetime.timedelta") and not delta.args and len(delta.keywords) == 1:
            s = (delta.keywords[0].arg, canon_int(delta.keywords[0].value, fi))
        if m == M_ok and s == ("seconds", S_ok):
            rep.ok(rule, fi.short, cons, "next millisecond with carry into seconds", fi.loc(a))
        elif m is not None and is_floor_ms(m, "endtime.microsecond") and s in (("milliseconds", ("c", 1)), ("microseconds", ("c", 1000))):
            rep.ok(rule, fi.short, cons, "floor + 1 ms", fi.loc(a))
        elif m is None and s in (("milliseconds", ("c", 1)), ("milliseconds", ("c", 2)), ("microseconds", ("c", 1000))):
            rep.ok(rule, fi.short, cons, "end + 1 ms", fi.loc(a))
        elif m == M_ok and delta is None:
            rep.violation(rule, fi.short, cons, "the carry into seconds is dropped: for the last millisecond of every second the window end wraps back to the start of that second, i.e. moves ~1 s earlier, and events inside the window are missed", fi.loc(a), expected="... + timedelta(seconds=int(milliseconds / 1000))", found=norm(v))
        elif m is not None and _abstract(m) == _abstract(M_ok) and (s is None or _abstract(s[1]) == _abstract(S_ok)):
            rep.violation(rule, fi.short, cons, f"`{norm(v)[:100]}` has the carry shape but wrong constants: the window end moves by more than the millisecond tolerance", fi.loc(a), expected="(1000 * (1 + int(us / 1000))) % 1000000, carry int(ms / 1000) s", found=f"microsecond={m} delta={s}")
        elif m is not None and ("round" in str(m) or "ceil" in str(m)):
            rep.violation(rule, fi.short, cons, "rounding without carry: microsecond=1000000 raises ValueError", fi.loc(a))
        else:
            rep.undecided(rule, fi.short, cons, f"unrecognised rounding `{norm(v)[:100]}`", fi.loc(a))
    # guards: re-bindings only when the edge is given
    for a in sa + ea:
        nm = norm(a.targets[0])
        p = parent(a)
        ok = isinstance(p, ast.If) and a in p.body and norm(p.test) in (nm, f"{nm} is not None")
        rep.check(ok, rule, fi.short, f"guard of {nm} rounding", "rounded only when given", f"`{nm}` is rounded outside `if {nm}:` (None has no replace())", fi.loc(a))
    # forwarding
    calls = [c for c in prog.all_calls(fi) if isinstance(c.func, ast.Attribute) and norm(c.func.value) == "self.ds.storage_strategy" and c.func.attr == "get_events"]
    if len(calls) != 1:
        rep.undecided(rule, fi.short, "backend call", f"{len(calls)} calls to storage_strategy.get_events", fi.loc())
        return
    c = calls[0]
    args = {i: a for i, a in enumerate(c.args)}
    names = ["bucket_id", "limit", "starttime", "endtime"]
    for k in c.keywords:
        if k.arg in names:
            args[names.index(k.arg)] = k.value
    ok = all(i in args for i in (1, 2, 3)) and is_param_ref(args[1], fi, "limit") and norm(args[2]) == "starttime" and norm(args[3]) == "endtime"
    rep.check(ok, rule, fi.short, "backend call arguments", "get_events(bucket, limit, starttime, endtime)", f"the backend is called as `{norm(c)[:100]}`: limit/start/end are not forwarded in order", fi.loc(c))
    g = cfg_of(fi)
    cn = g.node_of(c)
    for a in sa + ea:
        rep.check(g.node_of(a) not in g.reach_avoiding([cn]) and cn in g.reach_avoiding([g.node_of(a)]), rule, fi.short, f"{norm(a.targets[0])} rounding precedes the backend call", "", "rounding happens after the backend call", fi.loc(a))
    rets = [n for n in walk_own(fi.node) if isinstance(n, ast.Return)]
    rep.check(len(rets) == 1 and rets[0].value is c, rule, fi.short, "return", "returns the backend's answer", "Bucket.get does not return the backend's answer as is", fi.loc())


def peewee_clip(prog, rep, rule="CLIP"):
    rep.rule(rule, "peewee get_events clip loop: only timestamp/duration of the freshly built result events are assigned; under `e.timestamp < w.start` the event becomes [w.start, old end]; under `e.end > w.end` it becomes [e.timestamp, w.end]; each assignment only under the matching window-edge guard")
    fi = prog.func("PeeweeStorage.get_events")
    loops = [n for n in walk_own(fi.node) if isinstance(n, ast.For) and isinstance(n.target, ast.Name)]
    clip = [l for l in loops if any(isinstance(x, ast.Assign) and any(isinstance(t, ast.Attribute) for t in x.targets) for x in ast.walk(l))]
    # event fields are re-assigned for all results or for none: a store outside a loop over the result list cuts selected
    # elements only (e.g. 'only the outermost ones can stick out' is false for overlapping or nested events)
    in_loops = {id(x) for l in loops for x in ast.walk(l)}
    for n in walk_own(fi.node):
        if isinstance(n, (ast.Assign, ast.AugAssign)) and id(n) not in in_loops:
            for t in (n.targets if isinstance(n, ast.Assign) else [n.target]):
                if isinstance(t, ast.Attribute) and t.attr in ("timestamp", "duration") and norm(t.value) != "self":
                    rep.violation(rule, fi.short, f"store {norm(t)} outside a loop over the results", f"`{norm(n)[:80]}` re-assigns the {t.attr} of one selected result event: events are cut to the window for some positions of the result only, so with overlapping or nested events other results still reach outside the window (each returned event must be the stored event cut to the window)", fi.loc(n))
    if not clip:
        rep.ok(rule, fi.short, "clip loop", "no clipping (the property allows one backend to clip, none must)", fi.loc())
        return
    if len(clip) > 1:
        rep.undecided(rule, fi.short, "clip loop", f"{len(clip)} loops assign event fields", fi.loc())
        return
    loop = clip[0]
    var = loop.target.id
    # the loop ranges over the result list built from fresh Event(...) objects
    it = norm(loop.iter)
    rets = [n for n in walk_own(fi.node) if isinstance(n, ast.Return) and n.value is not None and not (isinstance(n.value, ast.List) and not n.value.elts)]
    rep.check(len(rets) == 1 and norm(rets[0].value) == it, rule, fi.short, "clip loop ranges over the result", f"for {var} in {it}", f"the clip loop ranges over `{it}`, not over the list that is returned", fi.loc(loop))
    # stores
    for n in ast.walk(loop):
        if isinstance(n, (ast.Assign, ast.AugAssign)):
            tgts = n.targets if isinstance(n, ast.Assign) else [n.target]
            for t in tgts:
                if isinstance(t, ast.Attribute) and not (isinstance(t.value, ast.Name) and t.value.id == var and t.attr in ("timestamp", "duration")):
                    rep.violation(rule, fi.short, f"store {norm(t)}", "the clip loop writes something other than timestamp/duration of the result event: the returned event is no longer 'the stored event cut to the window and nothing else'", fi.loc(n))
                if isinstance(t, ast.Subscript):
                    rep.violation(rule, fi.short, f"store {norm(t)}", "the clip loop writes into event data", fi.loc(n))
        if isinstance(n, ast.Call) and isinstance(n.func, ast.Attribute) and n.func.attr in ("append", "remove", "pop", "insert", "clear", "update", "extend") :
            rep.violation(rule, fi.short, f"call {norm(n.func)}", "the clip loop mutates a container", fi.loc(n))
    # every path through the loop body: what it assumes about the event and the window, and what it leaves behind
    from ..paths import summarize

    env = Env(fi, prog, subst={"starttime": W_START, "endtime": W_END}, inline_locals=False)
    T, D = Form.atom(f"{var}.timestamp"), Form.atom(f"{var}.duration")
    WS, WE = Form.atom(W_START), Form.atom(W_END)
    try:
        sums, _g = summarize(fi=None, body=loop.body, env=env, limit=400)
    except Exception as ex:
        rep.undecided(rule, fi.short, "clip loop", f"cannot enumerate the clip loop's paths: {ex}", fi.loc(loop))
        return
    seen_start = seen_end = False
    reported = set()
    for s_ in sums:
        if s_.undecided:
            rep.undecided(rule, fi.short, "clip branch", "; ".join(s_.undecided)[:120], fi.loc(loop))
            continue
        ts2 = s_.state.vals.get(f"{var}.timestamp", T)
        end2 = ts2 + s_.state.vals.get(f"{var}.duration", D)
        start_clip = any(l.form == T - WS and l.op in ("<", "<=") for l in s_.lits)
        end_clip = any(l.form == WE - T - D and l.op in ("<", "<=") for l in s_.lits)
        has_ws = any(t in ("starttime", "starttime is not None") and p_ for t, p_ in s_.opaque)
        has_we = any(t in ("endtime", "endtime is not None") and p_ for t, p_ in s_.opaque)
        want_ts = WS if start_clip else T
        want_end = WE if end_clip else T + D
        # both edges must be decided on every path (clipped, found inside, or edge not given)
        dec_start = start_clip or any(l.form == WS - T and l.op in ("<", "<=") for l in s_.lits) or any(t in ("starttime", "starttime is not None") and not p_ for t, p_ in s_.opaque)
        dec_end = end_clip or any(l.form == T + D - WE and l.op in ("<", "<=") for l in s_.lits) or any(t in ("endtime", "endtime is not None") and not p_ for t, p_ in s_.opaque)
        if (seen_any_clip := (start_clip or end_clip)) and not (dec_start and dec_end):
            k2 = ("undecided-edge", start_clip, end_clip, dec_start, dec_end)
            if k2 not in reported:
                reported.add(k2)
                rep.violation(rule, fi.short, f"path that never looks at the window {'start' if not dec_start else 'end'}", f"a path through the clip loop (conditions {sorted(map(repr, s_.lits))}) clips one edge without testing the other: an event that sticks out of the window on both sides is cut on one side only, so the returned event is not the stored event cut to the window", fi.loc(loop))
        seen_start = seen_start or start_clip
        seen_end = seen_end or end_clip
        conds = sorted(map(repr, s_.lits)) + sorted(f"{'' if p_ else 'not '}{t}" for t, p_ in s_.opaque)
        key = (repr(ts2), repr(end2), start_clip, end_clip)
        if key in reported:
            continue
        reported.add(key)
        if not start_clip and not end_clip:
            ok = ts2 == T and end2 == T + D
            rep.check(ok, rule, fi.short, f"unclipped path {conds}"[:100], "event left as stored", f"event fields are re-assigned (to [{ts2!r}, {end2!r}]) on a path that establishes neither 'event starts before the window' nor 'event ends after the window' (conditions {conds}): events are altered although they lie inside the window", fi.loc(loop))
            continue
        ok = ts2 == want_ts and end2 == want_end and (has_ws or not start_clip) and (has_we or not end_clip)
        what = ("clip at window start" if start_clip else "") + (" and " if start_clip and end_clip else "") + ("clip at window end" if end_clip else "")
        rep.check(ok, rule, fi.short, what, f"event becomes [{want_ts!r}, {want_end!r}]", f"on the path {conds} the event becomes [{ts2!r}, {end2!r}] instead of [{want_ts!r}, {want_end!r}]" + ("" if (has_ws or not start_clip) and (has_we or not end_clip) else " (the window edge is used without testing that it was given)"), fi.loc(loop), expected=f"[{want_ts!r}, {want_end!r}]", found=f"[{ts2!r}, {end2!r}]")
    rep.extra["clip"] = {"start": seen_start, "end": seen_end}


def _subst(form, state):
    from ..affine import subst_form

    return subst_form(form, state.vals)


def check(prog, rep):
    rep.level = "other"
    rep.explanation = (
        "Shape of the window predicate, ordering and limit handling decided per backend: the predicate of get_events and of "
        "get_eventcount is canonicalised (E3 SQL conjuncts / peewee where() arguments / comprehension conditions -> affine "
        "literals over {ev.start, ev.dur, w.start, w.end}, E4) and must be exactly {w.start <= ev.start+ev.dur, ev.start <= w.end} "
        "with neutral sentinels for absent edges; ORDER BY start descending; limit 0/negative/positive handling; window rounding "
        "idioms in Bucket.get; the peewee clip loop's assignments by constant propagation of affine forms. These are necessary "
        "conditions: breaking any of them breaks the read for a nameable placement of intervals."
    )
    rep.trusted_base = ["SQL comparison/ORDER BY/LIMIT semantics", "peewee translates where()/order_by()/limit() literally", "datetime arithmetic is integer microsecond arithmetic"]
    rep.not_decided = ["the 2 ms edge tolerance", "float / julianday precision of the stored instants", "SQLite planner behaviour on ties"]
    count_source(prog, rep)
    # ... and the Bucket methods a reader calls hand back the backend's answer on every path (no short-cut answers)
    from ..rules_wrap import wrapper_rules

    wrapper_rules(prog, rep, parts=("reads",))
    # what a windowed read sees is the addressed store's own rows: nothing derived from them is kept on the side or shared
    from ..rules_store import instance_state

    instance_state(prog, rep)
    # the window query selects by bucketrow: a bucket's row keeps its number, ids are unique keys, timestamps keep their text form
    from ..rules_store import ddl_facts

    ddl_facts(prog, rep)
    # ... and every statement that writes or reads event rows is tied to the addressed bucket (a write that takes another
    # bucket's row removes it from that bucket's windows)
    from ..rules_store import scope_sqlite

    scope_sqlite(prog, rep, methods={"insert_one", "insert_many", "get_events", "get_eventcount", "replace", "replace_last", "delete"})
    pm = pred_memory(prog, rep)
    ps = pred_sqlite(prog, rep)
    pp = pred_peewee(prog, rep)
    rep.rule("PRED", "the window predicate of get_events and of get_eventcount, canonicalised, is exactly {w.start <= ev.start + ev.dur (when w.start is given), ev.start <= w.end (when w.end is given)}, both non-strict; the only extra conjunct allowed is the 24 h pre-filter of the peewee backend; absent edges are omitted or bound to a neutral sentinel")
    # count/read agreement is implied when both are judged against the same expected set; record it explicitly
    for name, d in (("MemoryStorage", pm), ("SqliteStorage", ps)):
        if "get_events" in d and "get_eventcount" in d:
            rep.check(d["get_events"] == d["get_eventcount"], "PRED-AGREE", f"{name}.get_eventcount", "count/read agreement", "same predicate as get_events", f"get_eventcount filters by {sorted(map(str, d['get_eventcount']))} but get_events by {sorted(map(str, d['get_events']))}: the count disagrees with the number of events a read returns", None)
    rep.rule("PRED-AGREE", "get_eventcount carries the same window predicate as get_events of the same backend")
    order_rule(prog, rep)
    limit_rule(prog, rep)
    window_rounding(prog, rep)
    peewee_clip(prog, rep)
    # the predicate is evaluated on the stored columns: it selects the intersecting events only if every write stores the
    # start instant and the END instant (start + the whole duration) in them, at the scale the window edges are bound with
    from ..rules_codec import codec_peewee, codec_sqlite

    codec_sqlite(prog, rep)
    # the clip loop assigns through the Event setters: what it assigns must be what is stored (no rejection of the slightly
    # negative remainders rounding produces, no truncation)
    from .c13 import duration_dispatch

    duration_dispatch(prog, rep)
    codec_peewee(prog, rep)
    rep.floor("C03 obligations", len(rep.obligations), 22)


SQ = "aw_datastore/storages/sqlite.py"
PW = "aw_datastore/storages/peewee.py"
ME = "aw_datastore/storages/memory.py"
DS = "aw_datastore/datastore.py"
VARIANTS = [
    ("B second call site of the read statement binds LIMIT to a constant", "aw_datastore/storages/sqlite.py", "        rows = c.execute(query, [bucket_id, starttime_i, endtime_i, limit])\n        events = _rows_to_events(rows)\n        return events", "        if limit > 0:\n            rows = c.execute(query, [bucket_id, starttime_i, endtime_i, limit])\n        else:\n            rows = c.execute(query, [bucket_id, starttime_i, endtime_i, 10])\n        events = _rows_to_events(rows)\n        return events", "LIMIT"),
    ("B sqlite end column computed from duration.seconds (drops whole days)", SQ, "        endtime = starttime + (event.duration.total_seconds() * 1000000)\n        datastr = json.dumps(event.data)\n        c.execute(", "        endtime = starttime + event.duration.seconds * 1000000 + event.duration.microseconds\n        datastr = json.dumps(event.data)\n        c.execute(", "CODEC"),
    ("B sqlite ordered by endtime (original defect)", SQ, "ORDER BY starttime DESC, id DESC LIMIT ?", "ORDER BY endtime DESC LIMIT ?", "ORDER"),
    ("B memory count ignores durations (original defect)", ME, "if (not starttime or starttime <= e.timestamp + e.duration)", "if (not starttime or starttime <= e.timestamp)", ["PRED", "PRED-AGREE"]),
    ("B sqlite strict start edge", SQ, "            AND endtime >= ? AND starttime <= ?\n            ORDER BY", "            AND endtime > ? AND starttime <= ?\n            ORDER BY", "PRED"),
    ("B sqlite window bindings swapped", SQ, "rows = c.execute(query, [bucket_id, starttime_i, endtime_i, limit])", "rows = c.execute(query, [bucket_id, endtime_i, starttime_i, limit])", "PRED"),
    ("B sqlite count compares start with start", SQ, "            + \"AND endtime >= ? AND starttime <= ?\"", "            + \"AND starttime >= ? AND starttime <= ?\"", ["PRED", "PRED-AGREE"]),
    ("B sqlite end sentinel too small", SQ, "MAX_TIMESTAMP = 2**63 - 1", "MAX_TIMESTAMP = 2**31 - 1", "PRED"),
    ("B sqlite window edge scaled in milliseconds", SQ, "        starttime_i = starttime.timestamp() * 1000000 if starttime else 0\n        endtime_i = endtime.timestamp() * 1000000 if endtime else MAX_TIMESTAMP\n        query = \"\"\"", "        starttime_i = starttime.timestamp() * 1000 if starttime else 0\n        endtime_i = endtime.timestamp() * 1000000 if endtime else MAX_TIMESTAMP\n        query = \"\"\"", "CODEC"),
    ("B memory strict end edge", ME, "            events = [e for e in events if e.timestamp <= endtime]", "            events = [e for e in events if e.timestamp < endtime]", ["PRED", "PRED-AGREE"]),
    ("B memory slice before the filters", ME, "        # Filter by date\n        if starttime:", "        if limit > 0:\n            events = events[:limit]\n        # Filter by date\n        if starttime:", "LIMIT"),
    ("B memory negative limit reaches the slice", ME, "        elif limit < 0:\n            limit = sys.maxsize\n        events = events[:limit]", "        events = events[:limit]", "LIMIT"),
    ("B memory ascending", ME, "events = sorted(events, key=lambda k: k[\"timestamp\"])[::-1]", "events = sorted(events, key=lambda k: k[\"timestamp\"])", "ORDER"),
    ("B memory sorted by duration", ME, "events = sorted(events, key=lambda k: k[\"timestamp\"])[::-1]", "events = sorted(events, key=lambda k: k[\"duration\"])[::-1]", "ORDER"),
    ("B peewee prefilter of one hour", PW, "starttime - timedelta(hours=24) <= EventModel.timestamp", "starttime - timedelta(hours=1) <= EventModel.timestamp", "PRED"),
    ("B peewee start edge ignores duration", PW, "                starttime <= dt_plus_duration(EventModel.timestamp, EventModel.duration)", "                starttime <= EventModel.timestamp", "PRED"),
    ("B peewee ordered ascending", PW, "            .where(EventModel.bucket == self.bucket_keys[bucket_id])\n            .order_by(EventModel.timestamp.desc())\n            .limit(limit)", "            .where(EventModel.bucket == self.bucket_keys[bucket_id])\n            .order_by(EventModel.timestamp)\n            .limit(limit)", "ORDER"),
    ("B peewee limit 0 falls through", PW, "        if limit == 0:\n            return []\n        q = (", "        q = (", "LIMIT"),
    ("B peewee julian epoch constant", PW, "(peewee.fn.julianday(dt) - 2440587.5) * 86400.0 + duration", "(peewee.fn.julianday(dt) - 2440588.5) * 86400.0 + duration", "PRED"),
    ("B peewee clip keeps the original end offset", PW, "                    e.timestamp = starttime\n                    e.duration = e_end - e.timestamp", "                    e.timestamp = starttime", "CLIP"),
    ("B peewee clip applied to every event", PW, "                if e.timestamp + e.duration > endtime:\n                    e.duration = endtime - e.timestamp", "                if e.timestamp + e.duration != endtime:\n                    e.duration = endtime - e.timestamp", "CLIP"),
    ("B window end carry dropped", DS, "            endtime = endtime.replace(microsecond=microseconds) + timedelta(\n                seconds=second_offset\n            )", "            endtime = endtime.replace(microsecond=microseconds)", "ROUND"),
    ("B window start floored to 100 us with wrong factor", DS, "microsecond=1000 * int(starttime.microsecond / 1000)", "microsecond=100 * int(starttime.microsecond / 1000)", "ROUND"),
    ("B start and end swapped when forwarding", DS, "            self.bucket_id, limit, starttime, endtime\n        )", "            self.bucket_id, limit, endtime, starttime\n        )", "ROUND"),
    ("B peewee end edge not converted to UTC", PW, "        if endtime:\n            endtime = endtime.astimezone(timezone.utc)\n", "", "PRED"),
    ("B peewee clips only the outermost results", PW, "        for e in events:\n            if starttime:\n                if e.timestamp < starttime:", "        for e in events[-1:]:\n            if starttime:\n                if e.timestamp < starttime:", "CLIP"),
    ("B count short-cut for start >= end", DS, "        return self.ds.storage_strategy.get_eventcount(\n", "        if starttime and endtime and endtime <= starttime:\n            return 0\n        return self.ds.storage_strategy.get_eventcount(\n", "WRAP"),
    ("OK comparison flipped", ME, "            events = [e for e in events if e.timestamp <= endtime]", "            events = [e for e in events if endtime >= e.timestamp]", "ok"),
    ("OK the two memory filters merged", ME, "        if starttime:\n            events = [e for e in events if starttime <= (e.timestamp + e.duration)]\n        if endtime:\n            events = [e for e in events if e.timestamp <= endtime]\n", "        events = [e for e in events if (not starttime or starttime <= e.timestamp + e.duration) and (not endtime or e.timestamp <= endtime)]\n", "ok"),
    ("OK sorted reverse", ME, "events = sorted(events, key=lambda k: k[\"timestamp\"])[::-1]", "events = sorted(events, key=lambda k: k[\"timestamp\"], reverse=True)", "ok"),
    ("OK floor via floor division", DS, "microsecond=1000 * int(starttime.microsecond / 1000)", "microsecond=starttime.microsecond // 1000 * 1000", "ok"),
    ("OK peewee order by negated field", PW, "            .order_by(EventModel.timestamp.desc())\n            .limit(limit)", "            .order_by(-EventModel.timestamp)\n            .limit(limit)", "ok"),
]
