"""C08 — heartbeat merging is the pulsetime hull rule; reduction is the left fold of it."""
import ast

from ..affine import Env, Form, Lit
from ..model import norm, walk_own
from ..paths import summarize
from ..rules_store import is_param_ref


def merge_rule(prog, rep):
    rep.rule("MERGE", "heartbeat_merge (loop-free): the path that returns a non-None value carries exactly {last.data == hb.data, last.ts <= hb.ts, hb.ts <= last.ts + last.dur + pulsetime, not(last.dur < 0)}, writes only last.duration := max(last.dur, hb.ts - last.ts + hb.dur) and returns last; every other path returns None and writes nothing")
    fi = prog.func("heartbeat_merge")
    rep.unit("functions", fi.qname)
    if len(fi.params) != 3:
        rep.undecided("MERGE", fi.short, "signature", f"parameters {fi.params}", fi.loc())
        return
    L, H, P = fi.params
    env = Env(fi, prog, subst={}, inline_locals=False)

    def data_eq(e):
        if isinstance(e, ast.Compare) and len(e.ops) == 1 and isinstance(e.ops[0], (ast.Eq, ast.NotEq)):
            s = {norm(e.left), norm(e.comparators[0])}
            if s == {f"{L}.data", f"{H}.data"}:
                return ("DATA_EQ", isinstance(e.ops[0], ast.Eq))
        return None

    try:
        sums, g = summarize(fi, env=env, data_eq=data_eq)
    except Exception as ex:
        rep.undecided("MERGE", fi.short, "paths", f"cannot enumerate paths: {ex}", fi.loc())
        return
    rep.extra["merge_paths"] = [s.describe() for s in sums]
    Lts, Ldur, Hts, Hdur, Pt = (Form.atom(f"{L}.timestamp"), Form.atom(f"{L}.duration"), Form.atom(f"{H}.timestamp"), Form.atom(f"{H}.duration"), Form.atom(P))
    expected_lits = {
        Lit(Lts - Hts, "<="),  # last.ts <= hb.ts
        Lit(Hts - Lts - Ldur - Pt, "<="),  # hb.ts <= last.ts + last.dur + pulsetime
        Lit(-Ldur, "<="),  # not (last.dur < 0)
    }
    expected_opaque = {("DATA_EQ", True)}
    merged = [s for s in sums if s.kind == "return" and s.ret is not None and not (isinstance(s.ret, ast.Constant) and s.ret.value is None)]
    others = [s for s in sums if s not in merged]
    rep.unit("paths", f"{len(sums)} paths ({len(merged)} merging)")
    if len(merged) != 1:
        rep.violation("MERGE", fi.short, "merging path", f"{len(merged)} paths return a value; the rule has exactly one", fi.loc())
        return
    m = merged[0]
    if m.undecided:
        rep.undecided("MERGE", fi.short, "merging path", "; ".join(m.undecided), fi.loc())
        return
    # (a) guard
    if m.lits == expected_lits and m.opaque == expected_opaque:
        rep.ok("MERGE", fi.short, "merge condition", "{data equal, last.ts <= hb.ts <= last.ts + last.dur + pulsetime, last.dur >= 0}", fi.loc())
    else:
        missing = [repr(l) for l in expected_lits - m.lits] + [t for t, _ in expected_opaque - m.opaque]
        extra = [repr(l) for l in m.lits - expected_lits] + [f"{'' if p else 'not '}{t}" for t, p in m.opaque - expected_opaque]
        rep.violation("MERGE", fi.short, "merge condition", f"events merge under a different condition: missing {missing}, extra {extra} (a strict bound excludes the boundary hb.ts == end + pulsetime / equal timestamps; a dropped bound merges events that must stay apart)", fi.loc(), expected=sorted(map(repr, expected_lits)) + ["DATA_EQ"], found=sorted(map(repr, m.lits)) + sorted(f"{'' if p else 'not '}{t}" for t, p in m.opaque))
    # (b) effect
    want = None
    from ..affine import lin

    want = lin(ast.parse(f"max({L}.duration, {H}.timestamp - {L}.timestamp + {H}.duration)").body[0].value, Env())
    field_writes = {k: v for k, v in m.state.vals.items() if "." in k or "[" in k}
    ok = set(field_writes) == {f"{L}.duration"} and field_writes[f"{L}.duration"] == want
    rep.check(ok, "MERGE", fi.short, "merged event", "only last.duration := max(last.dur, hb.ts - last.ts + hb.dur): start and data kept, end = later of the two ends", f"the merged event is written as {dict((k, repr(v)) for k, v in field_writes.items())}: merging must keep start and data and end at the later of the two ends", fi.loc(), expected=f"{L}.duration := {want!r}", found=str({k: repr(v) for k, v in field_writes.items()}))
    alias = m.state.vals.get(L)
    rep.check(isinstance(m.ret, ast.Name) and m.ret.id == L and (alias is None or alias == Form.atom(L)), "MERGE", fi.short, "returned object", f"returns {L}", f"returns `{norm(m.ret)}`" + (f" (which stands for {alias!r} on this path)" if alias is not None and alias != Form.atom(L) else "") + ", not the first event", fi.loc())
    # (c) other paths
    for s in others:
        fw = {k for k in s.state.vals if "." in k or "[" in k}
        if s.kind == "return" and (s.ret is None or (isinstance(s.ret, ast.Constant) and s.ret.value is None)) and not fw and not s.undecided:
            continue
        if s.kind == "raise":
            rep.violation("MERGE", fi.short, f"path {s.lines}", "a non-merging path raises", fi.loc())
        elif fw:
            rep.violation("MERGE", fi.short, f"path {s.lines}", f"a path that does not merge still writes {sorted(fw)}", fi.loc())
        elif s.undecided:
            rep.undecided("MERGE", fi.short, f"path {s.lines}", "; ".join(s.undecided), fi.loc())
    rep.ok("MERGE", fi.short, "non-merging paths", f"{len(others)} paths return None and write nothing", fi.loc())


def fold_rule(prog, rep):
    rep.rule("FOLD", "heartbeat_reduce: the accumulator starts with the first element; each later element h, in input order, is merged as heartbeat_merge(acc[-1], h, pulsetime); on a non-None result acc[-1] is replaced by it, otherwise h is appended; nothing else touches acc")
    fi = prog.func("heartbeat_reduce")
    rep.unit("functions", fi.qname)
    ev, pt = fi.params[0], fi.params[1]
    from ..sqlmodel import local_defs

    rb = local_defs(fi, pt)
    rep.check(not rb, "FOLD", fi.short, "pulsetime passed through", f"`{pt}` is not re-bound", f"`{pt}` is re-bound (`{norm(rb[0]) if rb else ''}`) before it reaches heartbeat_merge: the fold no longer applies the merge rule at the caller's pulsetime", fi.loc(rb[0]) if rb else fi.loc())
    from ..rules_flow import early_returns

    COPIES = (f"list({ev})", f"{ev}[:]", f"{ev}.copy()", f"copy({ev})", f"copy.copy({ev})", f"[*{ev}]", f"deepcopy({ev})", f"copy.deepcopy({ev})")
    rbe = [d for d in local_defs(fi, ev) if not (isinstance(d, ast.Assign) and norm(d.value) in COPIES)]
    reord = [n for n in walk_own(fi.node) if isinstance(n, ast.Call) and isinstance(n.func, ast.Attribute) and norm(n.func.value) == ev and n.func.attr in ("sort", "reverse", "remove", "insert", "clear", "extend", "append")]
    bad = (rbe or reord or [None])[0]
    rep.check(bad is None, "FOLD", fi.short, "the given list is folded as given", f"`{ev}` is not re-bound (other than to a plain copy), sorted, reversed or edited", f"`{norm(bad)[:70] if bad is not None else ''}`: the list that is folded is not the caller's list in the caller's order (re-ordered, filtered or otherwise re-built), so the result is not the left fold of the merge rule over the input: e.g. an earlier-starting element, which the rule never merges into its predecessor, is moved in front and fused", fi.loc(bad) if bad is not None else fi.loc())
    early_returns(prog, rep, "FOLD", fi, [ev], bound=2, what="the fold")
    rets = [n for n in walk_own(fi.node) if isinstance(n, ast.Return) and n is fi.node.body[-1]]
    if len(rets) != 1 or not isinstance(rets[0].value, ast.Name):
        rep.undecided("FOLD", fi.short, "return", "the function does not end in `return <acc>`", fi.loc())
        return
    acc = rets[0].value.id
    loops = [n for n in fi.node.body if isinstance(n, ast.For)]
    if len(loops) != 1:
        rep.undecided("FOLD", fi.short, "loop", f"{len(loops)} top-level loops", fi.loc())
        return
    lp = loops[0]
    hv = norm(lp.target)
    # seed: acc = [] ; if events: acc.append(events.pop(0))   |  acc = [events[0]] ... for h in events[1:]
    seed_ok = False
    it = norm(lp.iter)
    pre = fi.node.body[: next(i_ for i_, s_ in enumerate(fi.node.body) if s_ is lp)]
    pre_txt = [norm(s) for s in pre]
    if f"{acc} = []" in pre_txt and any(t == f"if {ev}: {acc}.append({ev}.pop(0))" or t.replace("\n", " ") == f"if {ev}: {acc}.append({ev}.pop(0))" for t in [" ".join(x.split()) for x in pre_txt]) and it == ev:
        seed_ok = True
    if any(t in (f"{acc} = [{ev}[0]]", f"{acc} = {ev}[:1]") for t in pre_txt) and it == f"{ev}[1:]":
        seed_ok = True
    if any(t in (f"{acc} = [{ev}.pop(0)] if {ev} else []", f"{acc} = [] if not {ev} else [{ev}.pop(0)]") for t in pre_txt) and it == ev:
        seed_ok = True
    if not seed_ok:
        # tolerate formatting: look structurally
        for s in pre:
            from ..normalize import _is_log_call as _islog

            body_ = [b for b in s.body if not (isinstance(b, ast.Expr) and isinstance(b.value, ast.Call) and _islog(b.value))] if isinstance(s, ast.If) else []
            if isinstance(s, ast.If) and norm(s.test) == ev and len(body_) == 1 and norm(body_[0]) == f"{acc}.append({ev}.pop(0))" and it == ev and f"{acc} = []" in pre_txt:
                seed_ok = True  # (a logging statement next to the seed changes nothing: LOG-TOTAL decides that it cannot fail)
    if not seed_ok:
        # through single-assignment locals: acc = seed; seed = [events.pop(0)] behind `if not events: return []`
        from ..trace import deep as _deep8

        inits = [s_ for s_ in pre if isinstance(s_, ast.Assign) and len(s_.targets) == 1 and norm(s_.targets[0]) == acc]
        if len(inits) == 1:
            iv = norm(_deep8(inits[0].value, fi))
            guarded = any(isinstance(s_, ast.If) and norm(s_.test) in (f"not {ev}", f"len({ev}) == 0", f"len({ev}) < 1") and any(isinstance(x, ast.Return) for x in s_.body) and pre.index(s_) < pre.index(inits[0]) for s_ in pre)
            if iv == f"[{ev}.pop(0)]" and it == ev and guarded:
                seed_ok = True
            elif iv in (f"[{ev}[0]]", f"{ev}[:1]") and it == f"{ev}[1:]":
                seed_ok = True
    rep.check(seed_ok, "FOLD", fi.short, "seed", "accumulator starts with the first element; the loop ranges over the rest in order", f"accumulator seed / iteration is not 'first element, then the rest in order' (pre: {pre_txt}, iter: {it})", fi.loc())
    # body
    body = lp.body
    calls = [n for n in ast.walk(lp) if isinstance(n, ast.Call) and norm(n.func) == "heartbeat_merge"]
    if len(calls) != 1:
        rep.violation("FOLD", fi.short, "merge call", f"{len(calls)} calls to heartbeat_merge in the loop", fi.loc(lp))
        return
    c = calls[0]
    args = [norm(a) for a in c.args] + [f"{k.arg}={norm(k.value)}" for k in c.keywords]
    ok = args == [f"{acc}[-1]", hv, pt]
    rep.check(ok, "FOLD", fi.short, "merge call arguments", f"heartbeat_merge({acc}[-1], {hv}, {pt})", f"heartbeat_merge is called as ({', '.join(args)}): the fold must merge the new element into the last accumulated one, with the pulsetime", fi.loc(c), expected=f"({acc}[-1], {hv}, {pt})", found=f"({', '.join(args)})")
    skips = [n for n in ast.walk(lp) if isinstance(n, (ast.Continue, ast.Break, ast.Return))]
    if skips:
        rep.violation("FOLD", fi.short, "every element goes through the merge rule", f"the loop has a `{norm(skips[0])}` (line {skips[0].lineno}): some elements are dropped, or the fold stops, without heartbeat_merge deciding -- e.g. a heartbeat lying within the last event but carrying other data must become an event of its own", fi.loc(skips[0]))
        return
    asg = [s for s in body if isinstance(s, ast.Assign) and s.value is c and len(s.targets) == 1 and isinstance(s.targets[0], ast.Name)]
    ifs = [s for s in body if isinstance(s, ast.If)]
    if len(asg) != 1 or len(ifs) != 1 or len(body) != 2:
        rep.undecided("FOLD", fi.short, "loop body", "not `m = heartbeat_merge(...); if m is not None: ... else: ...`", fi.loc(lp))
        return
    mv = asg[0].targets[0].id
    t = norm(ifs[0].test)
    if t in (f"{mv} is not None", mv):
        yes, no = ifs[0].body, ifs[0].orelse
    elif t in (f"{mv} is None", f"not {mv}"):
        yes, no = ifs[0].orelse, ifs[0].body
    else:
        rep.undecided("FOLD", fi.short, "branch", f"test `{t}`", fi.loc(ifs[0]))
        return
    yes_t = [norm(s) for s in yes if not (isinstance(s, ast.Expr) and isinstance(s.value, ast.Constant))]
    no_t = [norm(s) for s in no if not (isinstance(s, ast.Expr) and isinstance(s.value, ast.Constant))]
    rep.check(yes_t == [f"{acc}[-1] = {mv}"], "FOLD", fi.short, "merged branch", f"{acc}[-1] = {mv}", f"on a successful merge the loop does `{'; '.join(yes_t)}` instead of replacing the last accumulated event", fi.loc(ifs[0]), expected=f"{acc}[-1] = {mv}", found="; ".join(yes_t))
    rep.check(no_t == [f"{acc}.append({hv})"], "FOLD", fi.short, "unmerged branch", f"{acc}.append({hv})", f"when the merge fails the loop does `{'; '.join(no_t)}` instead of appending the heartbeat", fi.loc(ifs[0]), expected=f"{acc}.append({hv})", found="; ".join(no_t))
    post = [s for s in fi.node.body[next(i_ for i_, s_ in enumerate(fi.node.body) if s_ is lp) + 1 :] if not isinstance(s, ast.Return) and not (isinstance(s, ast.Expr) and isinstance(s.value, ast.Call) and norm(s.value.func).split(".")[0] in ("logger", "logging") and not any(isinstance(x, ast.Call) and x is not s.value and not (isinstance(x.func, ast.Name) and x.func.id in ("len", "str", "repr")) for x in ast.walk(s.value)))]
    rep.check(not post, "FOLD", fi.short, "after the loop", "nothing between loop and return", f"statements after the fold touch the result: {[norm(s)[:40] for s in post]}", fi.loc())


def check(prog, rep):
    rep.level = "proof"
    rep.explanation = (
        "heartbeat_merge is loop-free: all of its CFG paths are enumerated (E1), each path's branch literals are canonicalised to "
        "affine forms over {last.ts, last.dur, hb.ts, hb.dur, pulsetime} and its assignments propagated as affine forms plus one max "
        "(E4). Because the function is loop-free and the forms are affine, equality of canonical forms is equality of behaviour "
        "(given datetime arithmetic = integer microsecond arithmetic). heartbeat_reduce's loop is matched against the left-fold shape."
    )
    rep.trusted_base = ["datetime/timedelta arithmetic is exact integer microsecond arithmetic", "dict equality for event data"]
    rep.not_decided = ["consequences argued on paper from MERGE+FOLD: no two consecutive outputs mergeable, idempotence, coverage of every non-negative input interval"]
    merge_rule(prog, rep)
    fold_rule(prog, rep)
    # the hull's length is stored through Event.duration: the setter keeps a timedelta exactly as given (C13-DURATION)
    from .c13 import duration_dispatch

    duration_dispatch(prog, rep)
    # the window is last.timestamp + last.duration + pulsetime: instant arithmetic only because Event keeps timestamps in UTC
    from .c13 import normalisation

    normalisation(prog, rep)
    # nothing on the way is memoised on a key that does not determine the answer
    from ..rules_own import memo_rule

    memo_rule(prog, rep, rule="MEMO")


H = "aw_transform/heartbeats.py"
VARIANTS = [
    ("B arguments swapped when the heartbeat starts first", "aw_transform/heartbeats.py", "    if last_event.data == heartbeat.data:\n", "    if heartbeat.timestamp < last_event.timestamp:\n        last_event, heartbeat = heartbeat, last_event\n    if last_event.data == heartbeat.data:\n", "MERGE"),
    ("B Event.duration setter truncates to whole milliseconds through a float product", "aw_core/models.py", "        if isinstance(duration, timedelta):\n            self[\"duration\"] = duration", "        if isinstance(duration, timedelta):\n            self[\"duration\"] = timedelta(milliseconds=int(duration.total_seconds() * 1000))", "DURATION"),
    ("B reduce folds a sorted copy of the input", H, "    reduced = []\n    if events:", "    events = sorted(events, key=lambda e: e.timestamp)\n    reduced = []\n    if events:", "FOLD"),
    ("OK reduce folds a plain copy of the input", H, "    reduced = []\n    if events:", "    events = list(events)\n    reduced = []\n    if events:", "ok"),
    ("B fold skipped for pulsetime 0 (touching equal events still merge at pulsetime 0)", H, "    reduced = []\n", "    if len(events) < 2 or pulsetime <= 0:\n        return events\n    reduced = []\n", "FOLD"),
    ("OK fold skipped for fewer than two events", H, "    reduced = []\n", "    if len(events) < 2:\n        return events\n    reduced = []\n", "ok"),
    ("B lower bound strict", H, "last_event.timestamp <= heartbeat.timestamp <= pulseperiod_end", "last_event.timestamp < heartbeat.timestamp <= pulseperiod_end", "MERGE"),
    ("B upper bound strict", H, "last_event.timestamp <= heartbeat.timestamp <= pulseperiod_end", "last_event.timestamp <= heartbeat.timestamp < pulseperiod_end", "MERGE"),
    ("B max dropped", H, "last_event.duration = max((last_event.duration, new_duration))", "last_event.duration = new_duration", "MERGE"),
    ("B pulsetime on wrong side", H, "last_event.timestamp + last_event.duration + timedelta(seconds=pulsetime)", "last_event.timestamp + last_event.duration - timedelta(seconds=pulsetime)", "MERGE"),
    ("B pulsetime in minutes", H, "timedelta(seconds=pulsetime)", "timedelta(minutes=pulsetime)", "MERGE"),
    ("B merge negative duration", H, "if last_event.duration < timedelta(0):", "if last_event.duration < timedelta(seconds=-1):", "MERGE"),
    ("B lower bound dropped", H, "last_event.timestamp <= heartbeat.timestamp <= pulseperiod_end", "heartbeat.timestamp <= pulseperiod_end", "MERGE"),
    ("B new duration without hb duration", H, ") + heartbeat.duration", ")", "MERGE"),
    ("B data compared on id", H, "if last_event.data == heartbeat.data:", "if last_event.id == heartbeat.id:", "MERGE"),
    ("B fold args swapped", H, "heartbeat_merge(reduced[-1], heartbeat, pulsetime)", "heartbeat_merge(heartbeat, reduced[-1], pulsetime)", "FOLD"),
    ("B fold appends merged", H, "reduced[-1] = merged", "reduced.append(merged)", "FOLD"),
    ("B fold merges into first", H, "heartbeat_merge(reduced[-1], heartbeat, pulsetime)", "heartbeat_merge(reduced[0], heartbeat, pulsetime)", "FOLD"),
    ("B fold drops unmerged", H, "            reduced.append(heartbeat)\n", "            pass\n", "FOLD"),
    ("B pulsetime truncated to milliseconds in the fold", H, "    reduced = []\n", "    pulsetime = int(pulsetime * 1000) / 1000\n    reduced = []\n", "FOLD"),
    ("OK guard inverted to early return", H, "    if last_event.data == heartbeat.data:\n", "    if last_event.data != heartbeat.data:\n        return None\n    if True:\n", "ok"),
    ("OK max with two args", H, "max((last_event.duration, new_duration))", "max(last_event.duration, new_duration)", "ok"),
    ("OK temporaries inlined", H, "        if within_pulsetime_window:", "        if last_event.timestamp <= heartbeat.timestamp and heartbeat.timestamp <= last_event.timestamp + last_event.duration + timedelta(seconds=pulsetime):", "ok"),
    ("OK comparison flipped", H, "if last_event.duration < timedelta(0):", "if timedelta(0) > last_event.duration:", "ok"),
    ("OK is None test inverted", H, "        if merged is not None:\n            # Heartbeat was merged\n            reduced[-1] = merged\n        else:\n            # Heartbeat was not merged\n            reduced.append(heartbeat)\n", "        if merged is None:\n            reduced.append(heartbeat)\n        else:\n            reduced[-1] = merged\n", "ok"),
]
