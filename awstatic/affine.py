"""E4 — affine canonicaliser for expressions over instants and durations.

Expressions are rewritten (through single-assignment locals of one function) to linear
forms  sum(coef * atom) + const  with exact rational coefficients; durations are in
seconds.  A comparison becomes a literal (form, op) with op in {'<', '<=', '==', '!='}
meaning  form op 0 ;  negation is applied over the total order.  Two literals are the
same iff their canonical keys are equal.  Anything non-affine raises NonAffine, which the
rules turn into UNDECIDED, never into a verdict.
"""
from __future__ import annotations

import ast
from fractions import Fraction

from .model import norm
from .sqlmodel import local_defs, single_def

CLOCK = "<clock>"
TD_UNITS = {
    "seconds": Fraction(1),
    "milliseconds": Fraction(1, 1000),
    "microseconds": Fraction(1, 1000000),
    "minutes": Fraction(60),
    "hours": Fraction(3600),
    "days": Fraction(86400),
    "weeks": Fraction(604800),
}
TD_POS = ["days", "seconds", "microseconds", "milliseconds", "minutes", "hours", "weeks"]
CLOCK_CALLS = {"datetime.now", "datetime.utcnow", "time.time", "time.monotonic", "datetime.datetime.now", "datetime.datetime.utcnow", "time.perf_counter"}


class NonAffine(Exception):
    pass


class Form:
    __slots__ = ("terms", "const")

    def __init__(self, terms=None, const=0):
        self.terms = {k: Fraction(v) for k, v in (terms or {}).items() if v != 0}
        self.const = Fraction(const)

    @staticmethod
    def atom(name):
        return Form({name: 1})

    def __add__(self, o):
        t = dict(self.terms)
        for k, v in o.terms.items():
            t[k] = t.get(k, 0) + v
        return Form(t, self.const + o.const)

    def __neg__(self):
        return Form({k: -v for k, v in self.terms.items()}, -self.const)

    def __sub__(self, o):
        return self + (-o)

    def scale(self, c):
        c = Fraction(c)
        return Form({k: v * c for k, v in self.terms.items()}, self.const * c)

    def is_const(self):
        return not self.terms

    def key(self):
        return (tuple(sorted((k, v) for k, v in self.terms.items())), self.const)

    def __eq__(self, o):
        return isinstance(o, Form) and self.key() == o.key()

    def __hash__(self):
        return hash(self.key())

    def atoms(self):
        return set(self.terms)

    def coef(self, a):
        return self.terms.get(a, Fraction(0))

    def __repr__(self):
        parts = []
        for k, v in sorted(self.terms.items()):
            if v == 1:
                parts.append(f"+ {k}")
            elif v == -1:
                parts.append(f"- {k}")
            else:
                parts.append(f"{'+' if v > 0 else '-'} {abs(v)}*{k}")
        if self.const != 0 or not parts:
            parts.append(f"{'+' if self.const >= 0 else '-'} {abs(self.const)}")
        s = " ".join(parts)
        return s[2:] if s.startswith("+ ") else s


class Lit:
    """form op 0"""

    __slots__ = ("form", "op")

    def __init__(self, form, op):
        # normalise equalities by sign
        if op in ("==", "!="):
            ks = sorted(form.terms)
            if ks and form.terms[ks[0]] < 0 or (not ks and form.const < 0):
                form = -form
        self.form, self.op = form, op

    def negate(self):
        if self.op == "<":
            return Lit(-self.form, "<=")
        if self.op == "<=":
            return Lit(-self.form, "<")
        if self.op == "==":
            return Lit(self.form, "!=")
        return Lit(self.form, "==")

    def key(self):
        return (self.form.key(), self.op)

    def __eq__(self, o):
        return isinstance(o, Lit) and self.key() == o.key()

    def __hash__(self):
        return hash(self.key())

    def __repr__(self):
        return f"{self.form!r} {self.op} 0"


class Env:
    """Resolution context: the function whose single-assignment locals may be inlined,
    plus explicit substitutions (name -> ast expr or Form) and attribute aliases."""

    def __init__(self, fi=None, prog=None, subst=None, inline_locals=True, at=None):
        self.fi = fi
        self.prog = prog
        self.subst = subst or {}
        self.inline_locals = inline_locals
        self.at = at  # optional: only inline definitions that textually precede this line
        self._busy = set()
        self.state = None  # optional State: atoms assigned earlier in a straight-line block


def _call_name(f):
    if isinstance(f, ast.Name):
        return f.id
    if isinstance(f, ast.Attribute):
        b = _call_name(f.value)
        return f"{b}.{f.attr}" if b else None
    return None


def _timeslot_parts(e, env):
    """If e denotes Timeslot(a, b) (directly, via a single-def local, or via _get_event_period(x)) -> (a_form, b_form)."""
    if isinstance(e, ast.Name) and env.fi is not None and e.id not in env.subst:
        v = single_def(env.fi, e.id)
        if v is not None:
            return _timeslot_parts(v, env)
        return None
    if isinstance(e, ast.Call):
        nm = _call_name(e.func)
        if nm == "Timeslot" and len(e.args) == 2:
            return lin(e.args[0], env), lin(e.args[1], env)
        if nm == "_get_event_period" and len(e.args) == 1:
            x = e.args[0]
            base = _atom_text(x, env)
            ts = Form.atom(f"{base}.timestamp")
            return ts, ts + Form.atom(f"{base}.duration")
    return None


def _atom_text(e, env, _base=False):
    """Canonical text for an lvalue-like expression (names resolved through substitutions; the object a re-bound name
    currently stands for, e.g. after `a, b = b, a`, when it is the base of an attribute / item)."""
    if isinstance(e, ast.Name):
        s = env.subst.get(e.id)
        if isinstance(s, str):
            return s
        if isinstance(s, ast.AST):
            return _atom_text(s, env, _base)
        st = getattr(env, "state", None)
        if _base and st is not None and e.id in st.vals:
            f = st.vals[e.id]
            if f.const == 0 and len(f.terms) == 1:
                (a, c), = f.terms.items()
                if c == 1 and a.isidentifier():
                    return a
        return e.id
    if isinstance(e, ast.Attribute):
        return f"{_atom_text(e.value, env, True)}.{e.attr}"
    if isinstance(e, ast.Subscript):
        if isinstance(e.slice, ast.Constant) and isinstance(e.slice.value, str) and e.slice.value in ("timestamp", "duration", "data", "id"):
            return f"{_atom_text(e.value, env, True)}.{e.slice.value}"
        return f"{_atom_text(e.value, env, True)}[{norm(e.slice)}]"
    return norm(e)


def _class_const(e, env):
    """self.NAME / cls.NAME / ClassName.NAME naming a class-level constant that no method re-assigns"""
    fi = env.fi
    if fi is None or fi.cls is None or not (isinstance(e.value, ast.Name) and e.value.id in ("self", "cls", fi.cls.name)):
        return None
    v = fi.cls.attrs.get(e.attr)
    if v is None:
        return None
    for m in fi.cls.methods.values():
        for n in ast.walk(m.node):
            if isinstance(n, ast.Attribute) and n.attr == e.attr and isinstance(n.ctx, (ast.Store, ast.Del)):
                return None
    return v


def lin(e, env=None):
    env = env or Env()
    if isinstance(e, Form):
        return e
    if isinstance(e, ast.Constant):
        if isinstance(e.value, bool) or not isinstance(e.value, (int, float)):
            raise NonAffine(f"non-numeric constant {e.value!r}")
        return Form(const=Fraction(str(e.value)))
    if env.state is not None and isinstance(e, (ast.Name, ast.Attribute, ast.Subscript)):
        k = _atom_text(e, env)
        if k in env.state.vals:
            return env.state.vals[k]
    if isinstance(e, ast.Name):
        if e.id in env.subst:
            s = env.subst[e.id]
            if isinstance(s, Form):
                return s
            if isinstance(s, str):
                return Form.atom(s)
            return lin(s, env)
        if env.fi is not None and env.inline_locals and e.id not in env.fi.params:
            v = single_def(env.fi, e.id)
            if v is not None and e.id not in env._busy:
                env._busy.add(e.id)
                try:
                    return lin(v, env)
                finally:
                    env._busy.discard(e.id)
        # module-level numeric / timedelta constants (COMMIT_THRESHOLD = 50, MAX_AGE = timedelta(seconds=10))
        if env.fi is not None and env.prog is not None and e.id not in env.fi.params and not local_defs(env.fi, e.id) and e.id not in env._busy:
            r = env.prog.lookup(env.fi, e.id)
            if isinstance(r, tuple) and r[0] == "const":
                env._busy.add(e.id)
                try:
                    return lin(r[2], Env(None, env.prog))
                except NonAffine:
                    pass
                finally:
                    env._busy.discard(e.id)
        return Form.atom(e.id)
    if isinstance(e, ast.Attribute):
        cc = _class_const(e, env)
        if cc is not None:
            try:
                return lin(cc, Env(None, env.prog))
            except NonAffine:
                pass
        if e.attr in ("start", "end", "duration"):
            ts = _timeslot_parts(e.value, env)
            if ts is not None:
                a, b = ts
                return {"start": a, "end": b, "duration": b - a}[e.attr]
        return Form.atom(_atom_text(e, env))
    if isinstance(e, ast.Subscript):
        return Form.atom(_atom_text(e, env))
    if isinstance(e, ast.UnaryOp) and isinstance(e.op, ast.USub):
        return -lin(e.operand, env)
    if isinstance(e, ast.UnaryOp) and isinstance(e.op, ast.UAdd):
        return lin(e.operand, env)
    if isinstance(e, ast.BinOp):
        if isinstance(e.op, ast.Add):
            return lin(e.left, env) + lin(e.right, env)
        if isinstance(e.op, ast.Sub):
            return lin(e.left, env) - lin(e.right, env)
        if isinstance(e.op, ast.Mult):
            a, b = lin(e.left, env), lin(e.right, env)
            if a.is_const():
                return b.scale(a.const)
            if b.is_const():
                return a.scale(b.const)
            raise NonAffine("product of two non-constants")
        if isinstance(e.op, ast.Div):
            a, b = lin(e.left, env), lin(e.right, env)
            if b.is_const() and b.const != 0:
                return a.scale(1 / b.const)
            raise NonAffine("division by non-constant")
        raise NonAffine(f"operator {type(e.op).__name__}")
    if isinstance(e, ast.Call):
        nm = _call_name(e.func)
        if nm in ("timedelta", "datetime.timedelta"):
            f = Form()
            for i, a in enumerate(e.args):
                if i >= len(TD_POS):
                    raise NonAffine("timedelta args")
                f = f + lin(a, env).scale(TD_UNITS[TD_POS[i]])
            for kw in e.keywords:
                if kw.arg not in TD_UNITS:
                    raise NonAffine(f"timedelta({kw.arg}=)")
                f = f + lin(kw.value, env).scale(TD_UNITS[kw.arg])
            return f
        if nm in CLOCK_CALLS:
            return Form.atom(CLOCK)
        if isinstance(e.func, ast.Attribute) and e.func.attr == "total_seconds" and not e.args:
            return lin(e.func.value, env)
        if nm in ("max", "min"):
            args = e.args
            if len(args) == 1 and isinstance(args[0], (ast.Tuple, ast.List)):
                args = args[0].elts
            if len(args) >= 2 and not e.keywords:
                forms = sorted((lin(a, env) for a in args), key=lambda f: repr(f.key()))
                # max(a, a) == a
                uniq = []
                for f in forms:
                    if f not in uniq:
                        uniq.append(f)
                if len(uniq) == 1:
                    return uniq[0]
                return Form.atom(f"{nm}(" + "; ".join(repr(f) for f in uniq) + ")")
        if nm in ("float", "int") and len(e.args) == 1 and nm == "float":
            return lin(e.args[0], env)
        if nm == "len" and len(e.args) == 1 and isinstance(e.args[0], (ast.Name, ast.Attribute, ast.Subscript)):
            return Form.atom(f"len({_atom_text(e.args[0], env)})")
        raise NonAffine(f"call {nm or norm(e.func)}")
    if isinstance(e, ast.IfExp):
        raise NonAffine("conditional expression")
    raise NonAffine(type(e).__name__)


_OPS = {ast.Lt: "<", ast.LtE: "<=", ast.Gt: ">", ast.GtE: ">=", ast.Eq: "==", ast.NotEq: "!="}


def literal(cmp, env=None, polarity=True):
    """Canonical literal of a single comparison `a op b` (taken with the given polarity)."""
    if not (isinstance(cmp, ast.Compare) and len(cmp.ops) == 1):
        raise NonAffine("not a single comparison")
    op = _OPS.get(type(cmp.ops[0]))
    if op is None:
        raise NonAffine(f"comparison {type(cmp.ops[0]).__name__}")
    a, b = lin(cmp.left, env), lin(cmp.comparators[0], env)
    d = a - b
    if op == "<":
        l = Lit(d, "<")
    elif op == "<=":
        l = Lit(d, "<=")
    elif op == ">":
        l = Lit(-d, "<")
    elif op == ">=":
        l = Lit(-d, "<=")
    elif op == "==":
        l = Lit(d, "==")
    else:
        l = Lit(d, "!=")
    return l if polarity else l.negate()


def lit_from_forms(a, op, b):
    """a op b over Forms -> Lit."""
    d = a - b
    return {"<": Lit(d, "<"), "<=": Lit(d, "<="), ">": Lit(-d, "<"), ">=": Lit(-d, "<="), "==": Lit(d, "=="), "!=": Lit(d, "!=")}[op]


# ---------------------------------------------------------------------------
# constant propagation of affine forms through straight-line code


class State:
    """atom text -> Form, for fields/locals assigned along a straight-line block."""

    def __init__(self, init=None):
        self.vals = dict(init or {})

    def copy(self):
        return State(self.vals)


def lin_in(e, env, state):
    """lin() with atoms that were assigned earlier in the block replaced by their current forms."""
    old = env.state
    env.state = state
    try:
        return lin(e, env)
    finally:
        env.state = old


def subst_form(f, vals):
    out = Form(const=f.const)
    for a, c in f.terms.items():
        if a in vals:
            out = out + vals[a].scale(c)
        elif a.startswith(("max(", "min(")):
            out = out + Form.atom(a).scale(c)
        else:
            out = out + Form.atom(a).scale(c)
    return out


def exec_block(stmts, env, state, on_other=None):
    """Propagate affine forms through assignments.  Handles `x = e`, `o.f = e`, tuple assignment
    `a, b = e1, e2` (simultaneous), `x += e`, `x -= e`.  Other statements go to on_other(stmt, state)
    (default: ignore pure expression statements / logging, raise NonAffine for anything else)."""
    def _tgt(t):
        old_ = getattr(env, "state", None)
        env.state = state
        try:
            return _atom_text(t, env)
        finally:
            env.state = old_

    for st in stmts:
        if isinstance(st, ast.Assign) and len(st.targets) == 1:
            t = st.targets[0]
            if isinstance(t, (ast.Tuple, ast.List)) and isinstance(st.value, (ast.Tuple, ast.List)) and len(t.elts) == len(st.value.elts):
                vals = [lin_in(v, env, state) for v in st.value.elts]
                keys = [_tgt(tt) for tt in t.elts]
                for k_, v in zip(keys, vals):
                    state.vals[k_] = v
            elif isinstance(t, (ast.Name, ast.Attribute, ast.Subscript)):
                v_ = lin_in(st.value, env, state)
                state.vals[_tgt(t)] = v_
            else:
                raise NonAffine("assignment target")
        elif isinstance(st, ast.AugAssign) and isinstance(st.op, (ast.Add, ast.Sub)):
            k = _tgt(st.target)
            cur = state.vals.get(k, Form.atom(k))
            v = lin_in(st.value, env, state)
            state.vals[k] = cur + v if isinstance(st.op, ast.Add) else cur - v
        elif isinstance(st, ast.Expr) and isinstance(st.value, ast.Call) and _call_name(st.value.func) and _call_name(st.value.func).split(".")[0] in ("logger", "logging", "print"):
            continue
        elif isinstance(st, ast.Expr) and isinstance(st.value, ast.Constant):
            continue
        elif isinstance(st, ast.Pass):
            continue
        elif on_other is not None:
            on_other(st, state)
        else:
            raise NonAffine(f"statement {type(st).__name__} at line {st.lineno}")
    return state


# ---------------------------------------------------------------------------
# integer idioms over one non-negative quantity (microsecond rounding)


def canon_int(e, fi=None, var_atoms=None, _depth=0):
    """Canonical nested-tuple form of an integer expression; `int(x / k)` and `x // k` are both
    ('fdiv', x, k) (equal for the non-negative operands this is used on).  Single-def locals are inlined."""
    if _depth > 12:
        return ("?", norm(e))
    if isinstance(e, ast.Constant) and isinstance(e.value, int) and not isinstance(e.value, bool):
        return ("c", e.value)
    if isinstance(e, ast.Name) and fi is not None and e.id not in fi.params:
        v = single_def(fi, e.id)
        if v is not None:
            return canon_int(v, fi, var_atoms, _depth + 1)
        return ("v", e.id)
    if isinstance(e, (ast.Name, ast.Attribute)):
        return ("v", norm(e))
    if isinstance(e, ast.Call) and isinstance(e.func, ast.Name) and e.func.id == "int" and len(e.args) == 1:
        a = e.args[0]
        if isinstance(a, ast.BinOp) and isinstance(a.op, ast.Div):
            return ("fdiv", canon_int(a.left, fi, var_atoms, _depth + 1), canon_int(a.right, fi, var_atoms, _depth + 1))
        return canon_int(a, fi, var_atoms, _depth + 1)
    if isinstance(e, ast.Call) and isinstance(e.func, ast.Name) and e.func.id in ("round", "ceil") or (isinstance(e, ast.Call) and norm(e.func) in ("math.ceil", "math.floor")):
        return (norm(e.func), tuple(canon_int(a, fi, var_atoms, _depth + 1) for a in e.args))
    if isinstance(e, ast.BinOp):
        a, b = canon_int(e.left, fi, var_atoms, _depth + 1), canon_int(e.right, fi, var_atoms, _depth + 1)
        if isinstance(e.op, ast.FloorDiv):
            return ("fdiv", a, b)
        if isinstance(e.op, ast.Mod):
            return canon_mod(a, b)
        if isinstance(e.op, ast.Mult):
            if a[0] == "c" and b[0] == "c":
                return ("c", a[1] * b[1])
            if b[0] == "c":
                a, b = b, a
            return ("mul", a, b)
        if isinstance(e.op, ast.Add):
            if a[0] == "c" and b[0] == "c":
                return ("c", a[1] + b[1])
            if b[0] == "c":
                a, b = b, a
            return ("add", a, b)
        if isinstance(e.op, ast.Sub):
            if a[0] == "c" and b[0] == "c":
                return ("c", a[1] - b[1])
            return ("sub", a, b)
        if isinstance(e.op, ast.Div):
            return ("div", a, b)
    return ("?", norm(e))


def canon_mod(a, b):
    """(k * x) mod (k * n) == k * (x mod n) for positive integers k, n: one spelling for both"""
    if b[0] == "c" and a[0] == "mul" and a[1][0] == "c" and a[1][1] > 0 and b[1] > 0 and b[1] % a[1][1] == 0 and b[1] // a[1][1] > 1:
        return ("mul", a[1], ("mod", a[2], ("c", b[1] // a[1][1])))
    return ("mod", a, b)


def is_floor_ms(c, us):
    """c == 1000 * floor(us / 1000) in one of the listed idioms"""
    v = ("v", us)
    fd = ("fdiv", v, ("c", 1000))
    return c in (("mul", ("c", 1000), fd), ("sub", v, ("mod", v, ("c", 1000))))


def normalize_lits(lits):
    """Combine literals over the same form:  f <= 0 and f != 0  ->  f < 0 ;  f <= 0 and -f <= 0  ->  f == 0."""
    lits = set(lits)
    changed = True
    while changed:
        changed = False
        for l in list(lits):
            if l.op == "<=":
                ne = Lit(l.form, "!=")
                if ne in lits:
                    lits.discard(l)
                    lits.discard(ne)
                    lits.add(Lit(l.form, "<"))
                    changed = True
                    break
                opp = Lit(-l.form, "<=")
                if opp in lits and opp != l:
                    lits.discard(l)
                    lits.discard(opp)
                    lits.add(Lit(l.form, "=="))
                    changed = True
                    break
    return lits


def infeasible(lits):
    """Pairwise interval check: two literals over the same direction that cannot hold together
    (f + c1 < 0 and -f + c2 < 0 with c2 >= -c1, etc.).  Not a solver: only opposite/identical directions."""
    ls = [l for l in lits if l.op in ("<", "<=", "==")]
    for i, a in enumerate(ls):
        for b in ls[i + 1 :]:
            fa = Form(a.form.terms)
            fb = Form(b.form.terms)
            if not fa.terms:
                continue
            if fa == -fb:
                # a: fa + ca (op) 0  => fa <(=) -ca ;  b: -fa + cb (op) 0 => fa >(=) cb
                ca, cb = a.form.const, b.form.const
                if a.op == "==" and b.op == "==":
                    if -ca != cb:
                        return True
                    continue
                strict = a.op == "<" or b.op == "<"
                # need cb <= fa <= -ca
                if cb > -ca or (cb == -ca and strict):
                    return True
            elif fa == fb and (a.op == "==" or b.op == "=="):
                # fa = -ca and fa <(=) -cb
                eq, other = (a, b) if a.op == "==" else (b, a)
                if other.op == "==":
                    if eq.form.const != other.form.const:
                        return True
                else:
                    v = -eq.form.const
                    bound = -other.form.const
                    if v > bound or (v == bound and other.op == "<"):
                        return True
    return False
