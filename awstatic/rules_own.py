"""OWN-IN / OWN-OUT / purity / write-set rules built on E2 (heap.py)."""
from __future__ import annotations

import ast

from .heap import Analysis, analyse, fmt, mutations_of_param, own_in_violations, own_out_violations
from .model import norm, walk_own
from .rules_store import IFACE, STORAGE_CLASSES

IMMUTABLE_ANN = ("str", "int", "float", "bool", "datetime", "Optional[str]", "Optional[int]", "Optional[datetime]", "Optional[float]", "bytes", "timedelta")


def immutable_params(prog, fi):
    """names of fi's parameters whose interface annotation says they hold immutable values"""
    out = set()
    iface = None
    if fi.cls is not None:
        try:
            ab = prog.cls("AbstractStorage")
            iface = ab.methods.get(fi.name)
        except Exception:
            iface = None
    for i, p in enumerate(fi.params):
        ann = fi.annotations.get(p)
        if ann is None and iface is not None and i < len(iface.params):
            ann = iface.annotations.get(iface.params[i])
        if ann is not None and ann.strip("'\"") in IMMUTABLE_ANN:
            out.add(p)
    return out


def storage_analysis(prog, cname, mname):
    ci = prog.cls(cname)
    fi = prog.method(ci, mname)
    if fi is None:
        return None, None
    imm = immutable_params(prog, fi)
    an = Analysis(prog, fi)
    an.run(args={p: set() for p in imm})
    return fi, an


MEMO_DECOS = ("lru_cache", "cache", "cached_property", "memoize", "memoized")
MUTABLE_MAKERS = ("json.loads", "json.load", "dict", "list", "set", "copy.deepcopy", "deepcopy", "copy.copy", "copy", "Event", "defaultdict", "OrderedDict", "tomlkit.parse", "sorted")


def memo_rule(prog, rep, rule="OWN-OUT"):
    """a memoising decorator keeps what the function returned and hands the SAME object to every later caller: for a mutable
    result that is process-wide shared state, behind the back of every copy the storage methods make"""
    n = 0
    if rule == "MEMO":
        rep.rule(rule, "a function memoised with lru_cache / cache (and called somewhere) returns immutable values and is keyed on arguments whose values determine the answer: no datetime (equality ignores fold), no object whose state the function reads")
    for fi in prog.funcs.values():
        decos = [d for d in fi.decorators if d.split("(")[0].split(".")[-1] in MEMO_DECOS]
        if not decos:
            continue
        # a memoised function nothing calls hands nothing out
        used = any(isinstance(x, ast.Call) and ((isinstance(x.func, ast.Name) and x.func.id == fi.name) or (isinstance(x.func, ast.Attribute) and x.func.attr == fi.name)) for mi in prog.modules.values() for x in ast.walk(mi.tree))
        if not used:
            continue
        n += 1
        bad = None
        for r in [x for x in walk_own(fi.node) if isinstance(x, ast.Return) and x.value is not None]:
            from .trace import deep

            v = deep(r.value, fi)
            for x in [v] + ([v.body, v.orelse] if isinstance(v, ast.IfExp) else []) + (list(v.values) if isinstance(v, ast.BoolOp) else []):
                if isinstance(x, (ast.Dict, ast.List, ast.Set, ast.ListComp, ast.DictComp, ast.SetComp)) or (isinstance(x, ast.Call) and (norm(x.func) in MUTABLE_MAKERS or norm(x.func) in prog.class_by_name)):
                    bad = bad or (r, x)
        # the cache is keyed by equality / hash of the arguments: the result must depend on nothing else
        stale = None
        for p_ in [a for a in fi.node.args.posonlyargs + fi.node.args.args + fi.node.args.kwonlyargs if a.arg not in ("self", "cls")]:
            ann = norm(p_.annotation) if p_.annotation is not None else ""
            alias = fi.mod.consts.get(ann)
            full = ann + (" = " + norm(alias) if alias is not None else "")
            if any(k in full for k in ("datetime", "time")):
                stale = stale or (p_, f"`{p_.arg}: {ann}` can be a datetime: equality and hash of datetimes ignore `fold` (the two readings of an ambiguous wall-clock hour compare equal though they are an hour apart), so one instant is answered with the cached result of another")
            elif any(k in full for k in ("Datastore", "Bucket", "Storage", "Event", "dict", "Dict", "list", "List", "Any", "Iterable")):
                stale = stale or (p_, f"`{p_.arg}: {ann}` is a mutable object (or unhashable): what the function reads through it can change between calls while the cached answer stays")
            elif not ann:
                uses = [x for x in walk_own(fi.node) if isinstance(x, ast.Attribute) and isinstance(x.value, ast.Name) and x.value.id == p_.arg and x.attr not in ("strip", "lower", "upper", "split", "startswith", "endswith", "format", "encode", "casefold", "replace", "find", "join")]
                if uses:
                    stale = stale or (p_, f"`{p_.arg}.{uses[0].attr}` is read from an unannotated argument: the result depends on the object's state, the cache key only on its identity / equality")
        rep.check(stale is None, rule, fi.short, f"memoised with @{decos[0][:30]}: cache key", "result is a function of the arguments' values", (f"{fi.short} is memoised, but {stale[1]}" if stale else ""), fi.loc(stale[0]) if stale else fi.loc())
        rep.check(bad is None, rule, fi.short, f"memoised with @{decos[0][:30]}", "returns immutable values only", (f"{fi.short} is memoised and returns a mutable object (`{norm(bad[1])[:50]}`): every caller gets the same dict / list, so what one reader does to the value it was handed (or a later write through it) shows up in the values handed to all other readers, of this and of other buckets" if bad else ""), fi.loc(bad[0]) if bad else fi.loc())
    rep.extra["memoised_functions"] = n
    if rule == "MEMO" and not n:
        rep.ok(rule, "all packages", "memoised functions", "none", None)


def own_rules(prog, rep, classes=STORAGE_CLASSES, methods=IFACE):
    rep.rule("OWN-IN", "no mutable object reachable from a parameter of a storage method becomes reachable from the store (any attribute of self); deepcopy and the JSON/SQL serialisation boundary cut the edge; str/number/datetime parameters and the Event fields id/timestamp/duration are immutable leaves")
    rep.rule("OWN-OUT", "nothing a public storage method returns is, reaches, or is reachable from an object held by the store")
    n = 0
    for cname in classes:
        for m in methods:
            fi, an = storage_analysis(prog, cname, m)
            if fi is None:
                rep.error(f"anchor vanished: {cname}.{m}")
                continue
            n += 1
            rep.unit("functions", f"{cname}.{m} (body of {fi.qname})")
            short = f"{cname}.{m}"
            ins = own_in_violations(an)
            if ins:
                # name the write that created the edge
                w = _edge_witness(an, ins)
                rep.violation("OWN-IN", short, "stored value", f"an object of the caller ({', '.join(_pname(fi, x) for x in ins[:3])}) stays reachable from the store after the call{w}: mutating it later changes what reads return", fi.loc(), found=[fmt(x) for x in ins])
            else:
                rep.ok("OWN-IN", short, "stored value", f"{len(an.writes)} writes, {len(an.calls_inlined)} calls inlined; no parameter-reachable mutable object reachable from self", fi.loc())
            outs = own_out_violations(an)
            if outs:
                rep.violation("OWN-OUT", short, "returned value", f"the returned value shares {', '.join(fmt(x) for x in outs[:3])} with the store: mutating what was handed out changes what later reads return", fi.loc(), found=[fmt(x) for x in outs])
            else:
                rep.ok("OWN-OUT", short, "returned value", f"returns {sorted(map(fmt, an.returns))[:3] or 'nothing tracked'}", fi.loc())
            for u in an.unknown_methods_on_tracked:
                rep.undecided("OWN-IN", short, f"call {u[1]}", f"unknown method on a tracked object {u[2]}", u[0])
    rep.floor("storage methods analysed for ownership", n, len(classes) * len(methods))
    memo_rule(prog, rep)
    return n


def _pname(fi, node):
    ps = [p for p in fi.params if p not in ("self", "cls")]
    if node[0] == "P":
        # index counts only tracked parameters in order of declaration (run() numbers all non-self params)
        if node[1] < len(ps):
            return ps[node[1]] + "".join(f".{x}" if x != "*" else "[*]" for x in node[2] if isinstance(x, str))
    return fmt(node)


def _edge_witness(an, ins):
    for w in an.writes:
        if w.node[0] == "S" or w.node in {n for (n, l) in an.heap if n[0] == "S"}:
            if any(v in ins or any(Analysis.under(i, v) for i in ins) for v in an.closure(w.values)):
                return f" (stored by `{w.how}` at {w.loc})"
    for w in an.writes:
        cl = an.closure(w.values)
        if any(i in cl for i in ins):
            return f" (via `{w.how}` at {w.loc})"
    return ""


# ---------------------------------------------------------------------------
# purity and write-sets of transforms


def transform_analysis(prog, short, module=None):
    fi = prog.func(short, module)
    an = Analysis(prog, fi)
    an.run()
    return fi, an


def purity_rule(prog, rep, short, params, rule="PURE", module=None, allow=None):
    """no write at or below the named parameters (at any depth, through every inlined callee)"""
    fi, an = transform_analysis(prog, short, module)
    rep.unit("functions", fi.qname)
    names = [p for p in fi.params if p not in ("self", "cls")]
    ok_all = True
    for p in params:
        if p not in names:
            rep.error(f"anchor vanished: parameter {p} of {short}")
            continue
        idx = names.index(p)
        ws = mutations_of_param(an, idx)
        if allow:
            ws = [w for w in ws if not allow(w)]
        if ws:
            ok_all = False
            w = ws[0]
            rep.violation(rule, fi.short, f"parameter {p}", f"the input is modified: `{w.how}` on {_pname(fi, w.node)}[{w.label if not isinstance(w.label, tuple) else w.label[1]}] in {w.fn} at {w.loc}" + (f" (+{len(ws) - 1} more)" if len(ws) > 1 else ""), w.loc, found=[repr(x) for x in ws[:5]])
        else:
            rep.ok(rule, fi.short, f"parameter {p}", f"no write at or below `{p}` ({len(an.writes)} writes analysed, {len(an.calls_inlined)} calls inlined)", fi.loc())
    for u in an.unknown_methods_on_tracked:
        rep.undecided(rule, fi.short, f"call {u[1]}", f"unknown method on a tracked object {u[2]}", u[0])
    return fi, an


def copy_protocol(prog, rep, rule="COPY-PROTOCOL"):
    """the ownership argument trusts copy.deepcopy to return a disjoint graph: no class of the packages may override it"""
    rep.rule(rule, "no class of the packages defines __deepcopy__ / __copy__ / __reduce__ / __reduce_ex__ / __getstate__ / __setstate__: copy.deepcopy of an Event (what the memory store and the transforms rely on to separate their copy from the caller's) then copies every nested object")
    bad = []
    for ci in prog.classes.values():
        for m in ("__deepcopy__", "__copy__", "__reduce__", "__reduce_ex__", "__getstate__", "__setstate__"):
            if m in ci.methods:
                bad.append((ci, m))
    for ci, m in bad:
        rep.violation(rule, ci.name, f"{ci.name}.{m}", f"{ci.name} overrides {m}: copy.deepcopy no longer guarantees a disjoint object graph (a shallow data copy shares nested lists / dicts between the stored event and the one handed out, so editing a result of a read or a query edits the store)", ci.methods[m].loc())
    if not bad:
        rep.ok(rule, "all classes", "copy protocol", f"{len(prog.classes)} classes, none overrides it", None)
