"""CODEC — writer/reader tables of the SQL backends agree (C01-N1)."""
from __future__ import annotations

import ast

from .model import norm, walk_own, walk_with_nested_exprs
from .rules_read import const_value
from .sqlmodel import local_defs, peewee_chains, single_def, sql_sites


def _resolve(e, fi, depth=0):
    """follow single-assignment locals (including tuple assignments); round(x) of a microsecond count is x (the counts are
    integral up to float error, rounding to the nearest integer is the exact value)"""
    from .trace import resolve

    r = resolve(e, fi, depth)
    while isinstance(r, ast.Call) and isinstance(r.func, ast.Name) and r.func.id == "round" and len(r.args) == 1 and not r.keywords:
        r = resolve(r.args[0], fi, depth)
    return r


def _ev_text(e, ev):
    """normalised text with the event variable renamed to EV"""
    import re

    return re.sub(rf"\b{re.escape(ev)}\b", "EV", norm(e))


def _scaled(e, base_text, fi, prog):
    """e == base * S or S * base -> S"""
    if isinstance(e, ast.BinOp) and isinstance(e.op, ast.Mult):
        for a, b in ((e.left, e.right), (e.right, e.left)):
            if norm(a) == base_text:
                return const_value(b, fi, prog)
    return None


def _event_var(fi, site):
    """name of the variable holding the event being written at this site"""
    if "event" in fi.params:
        return "event"
    # loop variable of the loop that builds the rows
    for n in walk_own(fi.node):
        if isinstance(n, ast.For) and isinstance(n.target, ast.Name):
            for x in ast.walk(n):
                if isinstance(x, ast.Call) and site.rows_var and norm(x.func) == f"{site.rows_var}.append":
                    return n.target.id
    return None


def codec_sqlite(prog, rep, rule="CODEC"):
    rep.rule(rule, "writer/reader tables agree: every write site binds starttime := ev.timestamp.timestamp()*S, endtime := starttime + ev.duration.total_seconds()*S, datastr := json.dumps(ev.data) with one scale S; the reader divides the same S out of the columns the SELECT lists in the positions it indexes, rebuilds duration = end - start, json.loads the data and passes id/timestamp/duration/data to Event")
    sites = sql_sites(prog)
    scales = {}
    wsites = [s for s in sites if s.stmt.table == "events" and s.stmt.kind in ("insert", "update")]
    rep.floor("sqlite event write sites", len(wsites), 3)
    for s in wsites:
        fi = s.fi
        ev = _event_var(fi, s)
        colbind = {}
        if s.stmt.kind == "insert":
            for col, v in zip(s.stmt.columns, s.stmt.values):
                if v.kind == "param":
                    colbind[col] = s.bindings[v.index] if s.bindings else None
        else:
            for col, v in s.stmt.sets:
                if v.kind == "param":
                    colbind[col] = s.bindings[v.index] if s.bindings else None
        cons = f"{s.stmt.kind.upper()} events bindings"
        if ev is None or any(v is None for v in colbind.values()):
            rep.undecided(rule, fi.short, cons, "cannot identify the event variable / bindings", s.loc())
            continue
        need = {"starttime", "endtime", "datastr"}
        if not need <= set(colbind):
            rep.violation(rule, fi.short, cons, f"write does not set {sorted(need - set(colbind))}", s.loc())
            continue
        st = _resolve(colbind["starttime"], fi)
        en = _resolve(colbind["endtime"], fi)
        ds = _resolve(colbind["datastr"], fi)
        S1 = _scaled(st, f"{ev}.timestamp.timestamp()", fi, prog)
        ok_end, S2 = False, None
        if isinstance(en, ast.BinOp) and isinstance(en.op, ast.Add):
            for a, b in ((en.left, en.right), (en.right, en.left)):
                a_r = _resolve(a, fi)
                if norm(a_r) == norm(st):
                    S2 = _scaled(b, f"{ev}.duration.total_seconds()", fi, prog)
                    ok_end = S2 is not None
        ok_ds = norm(ds) == f"json.dumps({ev}.data)"
        scales[(fi.short, "write-start")] = S1
        scales[(fi.short, "write-end")] = S2
        rep.check(S1 is not None, rule, fi.short, "starttime binding", f"{_ev_text(st, ev)} (scale {S1})", f"starttime is bound to `{norm(st)}`, not to the event's start instant times a scale", s.loc(), expected="EV.timestamp.timestamp() * S", found=_ev_text(st, ev))
        rep.check(ok_end, rule, fi.short, "endtime binding", f"start + EV.duration.total_seconds() * {S2}", f"endtime is bound to `{norm(en)}`, not to start + duration times the scale", s.loc(), expected="starttime + EV.duration.total_seconds() * S", found=_ev_text(en, ev))
        rep.check(ok_ds, rule, fi.short, "datastr binding", "json.dumps(EV.data)", f"datastr is bound to `{norm(ds)}`", s.loc(), expected="json.dumps(EV.data)", found=_ev_text(ds, ev))
    # reader
    fi = prog.func("_rows_to_events")
    rep.unit("functions", fi.qname)
    ev_calls = [c for c in walk_with_nested_exprs(fi.node) if isinstance(c, ast.Call) and norm(c.func) == "Event"]
    loops = [n for n in walk_own(fi.node) if isinstance(n, ast.For)]
    idx = {}
    if len(ev_calls) != 1 or len(loops) != 1:
        rep.undecided(rule, fi.short, "decoder", "not one loop building one Event(...)", fi.loc())
    else:
        lp = loops[0]
        kw = {k.arg: _resolve(k.value, fi) for k in ev_calls[0].keywords}

        def row_index(e):
            """row[i]  or  the i-th name of `for a, b, c, d in rows`"""
            e = _resolve(e, fi)
            if isinstance(lp.target, ast.Name) and isinstance(e, ast.Subscript) and isinstance(e.value, ast.Name) and e.value.id == lp.target.id and isinstance(e.slice, ast.Constant):
                return e.slice.value
            if isinstance(lp.target, (ast.Tuple, ast.List)) and isinstance(e, ast.Name):
                for i, t in enumerate(lp.target.elts):
                    if isinstance(t, ast.Name) and t.id == e.id:
                        return i
            return None

        def ts_decode(e):
            """datetime.fromtimestamp(<row i> / S, timezone.utc) -> (i, S)"""
            e = _resolve(e, fi)
            if isinstance(e, ast.Call) and norm(e.func) in ("datetime.fromtimestamp", "datetime.datetime.fromtimestamp"):
                tz = e.args[1] if len(e.args) == 2 else next((k.value for k in e.keywords if k.arg == "tz"), None)
                if tz is not None and norm(tz) in ("timezone.utc", "datetime.timezone.utc") and e.args:
                    a = e.args[0]
                    if isinstance(a, ast.BinOp) and isinstance(a.op, ast.Div):
                        i = row_index(a.left)
                        S = const_value(a.right, fi, prog)
                        if i is not None and S is not None:
                            return i, S
            return None

        ok = set(kw) == {"id", "timestamp", "duration", "data"}
        rep.check(ok, rule, fi.short, "Event(...) keywords", f"{sorted(kw)}", f"decoder builds Event with {sorted(kw)}", fi.loc(ev_calls[0]))
        if ok:
            idx["id"] = row_index(kw["id"])
            t = ts_decode(kw["timestamp"])
            d = kw["duration"]
            e_dec = None
            if isinstance(d, ast.BinOp) and isinstance(d.op, ast.Sub):
                e_dec = ts_decode(d.left)
                s_again = ts_decode(d.right)
                if t is None or s_again != t:
                    e_dec = None
            dd = kw["data"]
            di = row_index(dd.args[0]) if isinstance(dd, ast.Call) and norm(dd.func) == "json.loads" and len(dd.args) == 1 else None
            if t is None or e_dec is None or di is None or idx["id"] is None:
                rep.violation(rule, fi.short, "decoder shape", f"decoder is not id=row[i], timestamp=fromtimestamp(row[j]/S, utc), duration=fromtimestamp(row[k]/S, utc) - timestamp, data=json.loads(row[l]) (timestamp: {norm(kw['timestamp'])[:60]}; duration: {norm(d)[:60]}; data: {norm(dd)[:40]})", fi.loc(ev_calls[0]))
            else:
                idx["starttime"], scales[(fi.short, "read-start")] = t
                idx["endtime"], scales[(fi.short, "read-end")] = e_dec
                idx["datastr"] = di
                rep.ok(rule, fi.short, "decoder shape", f"id=row[{idx['id']}], start=row[{t[0]}]/{t[1]}, end=row[{e_dec[0]}]/{e_dec[1]}, data=json.loads(row[{di}])", fi.loc(ev_calls[0]))
    # SELECT column lists feeding the decoder
    for m in ("get_event", "get_events"):
        ss = [s for s in sites if s.fi.short == f"SqliteStorage.{m}" and s.stmt.kind == "select"]
        if len(ss) > 1 and len({" ".join(s.stmt.raw.split()) for s in ss}) == 1:
            ss = ss[:1]  # one statement text run at several sites
        if len(ss) != 1:
            rep.undecided(rule, f"SqliteStorage.{m}", "SELECT", f"{len(ss)} statements")
            continue
        s = ss[0]
        cols = [c.split(".")[-1] for c in s.stmt.columns]
        if idx and all(v is not None for v in idx.values()):
            ok = all(i < len(cols) and cols[i] == c for c, i in idx.items())
            rep.check(ok, rule, s.fi.short, "SELECT columns vs decoder indices", f"{cols}", f"the SELECT lists {cols} but the decoder reads {idx}: columns are swapped or missing", s.loc(), expected=str(idx), found=str(cols))
        # rows go through the decoder
        used = any(isinstance(c, ast.Call) and norm(c.func) == "_rows_to_events" for c in walk_own(s.fi.node))
        factory = any(isinstance(x, ast.Attribute) and x.attr == "row_factory" for x in ast.walk(s.fi.node))
        if not used and factory:
            rep.undecided(rule, s.fi.short, "decoder used", "rows are converted by a sqlite3 row factory set on the cursor, which this analysis does not follow", s.loc())
        else:
            rep.check(used, rule, s.fi.short, "decoder used", "_rows_to_events(rows)", "rows are not decoded by _rows_to_events", s.loc())
    vals = {v for v in scales.values()}
    if None in vals:
        rep.undecided(rule, "SqliteStorage", "one scale constant", f"a scale constant could not be read off ({ {f'{k[0]}:{k[1]}': v for k, v in scales.items()} })")
    else:
        rep.check(len(vals) == 1, rule, "SqliteStorage", "one scale constant", f"scale {vals}", f"encode/decode scale constants differ: { {f'{k[0]}:{k[1]}': v for k, v in scales.items()} }", None, expected="one constant on every write and read", found=str(sorted(map(str, vals))))
    rep.extra["sqlite_scales"] = {f"{k[0]}:{k[1]}": v for k, v in scales.items()}
    return scales


PW_ENC = {"timestamp": "EV.timestamp", "duration": "EV.duration.total_seconds()", "datastr": "json.dumps(EV.data)"}
PW_DEC = {"id": "self.id", "timestamp": "self.timestamp", "duration": "float(self.duration)", "data": "json.loads(self.datastr)"}


def _peewee_field_facts(prog, rep, rule):
    """column declarations of EventModel that change what is stored: a DecimalField with auto_round quantises every
    written duration to decimal_places (default 5 = 10 microseconds); the property needs microseconds"""
    ci = prog.cls("EventModel")
    for name, decl in ci.attrs.items():
        if not isinstance(decl, ast.Call):
            continue
        kw = {k.arg: k.value for k in decl.keywords if k.arg}
        ftype = norm(decl.func).split(".")[-1]
        if name == "duration":
            ar = kw.get("auto_round")
            rounding_on = ar is not None and not (isinstance(ar, ast.Constant) and not ar.value)
            places = kw.get("decimal_places")
            pv = places.value if isinstance(places, ast.Constant) and isinstance(places.value, int) else (5 if places is None else None)
            ok = not (ftype == "DecimalField" and rounding_on and (pv is None or pv < 6)) and ftype in ("DecimalField", "FloatField", "DoubleField")
            rep.check(ok, rule, "EventModel", "duration column", f"{norm(decl)} stores the written seconds without quantising them above a microsecond", f"`duration = {norm(decl)}` quantises every stored duration (auto_round rounds to {pv if pv is not None else '?'} decimal places of a second; an IntegerField / CharField truncates or re-formats): durations no longer come back to the microsecond", ci.mod.relpath + f":{decl.lineno}", expected="DecimalField() / a float column", found=norm(decl))
        if name == "timestamp":
            rep.check(ftype == "DateTimeField" and "formats" not in kw, rule, "EventModel", "timestamp column", norm(decl), f"`timestamp = {norm(decl)}`: not a plain DateTimeField (a custom format list or another column type changes how instants are stored and compared)", ci.mod.relpath + f":{decl.lineno}")


def codec_peewee(prog, rep, rule="CODEC"):
    _peewee_field_facts(prog, rep, rule)
    fe = prog.func("EventModel.from_event")
    rep.unit("functions", fe.qname)
    calls = [c for c in walk_own(fe.node) if isinstance(c, ast.Call) and isinstance(c.func, ast.Name) and c.func.id == "cls"]
    if len(calls) != 1:
        rep.undecided(rule, fe.short, "cls(...)", "not a single constructor call", fe.loc())
    else:
        ev = fe.params[2] if len(fe.params) > 2 else "event"
        kw = {k.arg: _ev_text(k.value, ev) for k in calls[0].keywords}
        for f, want in PW_ENC.items():
            rep.check(kw.get(f) == want, rule, fe.short, f"{f} encoding", want, f"{f} is written as `{kw.get(f)}`", fe.loc(calls[0]), expected=want, found=kw.get(f))
        rep.check(kw.get("bucket") == fe.params[1], rule, fe.short, "bucket field", "bucket=bucket_key", f"bucket is written as `{kw.get('bucket')}`", fe.loc(calls[0]))
    js = prog.func("EventModel.json")
    rets = [n for n in walk_own(js.node) if isinstance(n, ast.Return) and isinstance(n.value, ast.Dict)]
    if len(rets) != 1:
        rep.undecided(rule, js.short, "return {...}", "not a single dict literal", js.loc())
    else:
        d = {k.value: norm(v) for k, v in zip(rets[0].value.keys, rets[0].value.values) if isinstance(k, ast.Constant)}
        for f, want in PW_DEC.items():
            rep.check(d.get(f) == want, rule, js.short, f"{f} decoding", want, f"{f} is read back as `{d.get(f)}`", js.loc(rets[0]), expected=want, found=d.get(f))
        rep.check(set(d) == set(PW_DEC), rule, js.short, "keys", f"{sorted(d)}", f"json() emits {sorted(d)}: Event(**json) needs exactly id/timestamp/duration/data", js.loc(rets[0]))
    # bulk insert dict and the two in-place updates
    im = prog.func("PeeweeStorage.insert_many")
    dicts = [n for n in walk_with_nested_exprs(im.node) if isinstance(n, ast.Dict) and any(isinstance(k, ast.Constant) and k.value == "datastr" for k in n.keys)]
    if len(dicts) != 1:
        rep.undecided(rule, im.short, "row dict", f"{len(dicts)} row dicts", im.loc())
    else:
        comp = dicts[0]
        p = comp
        from .model import parent

        while p is not None and not isinstance(p, (ast.ListComp, ast.GeneratorExp)):
            p = parent(p)
        ev = norm(p.generators[0].target) if p is not None else "event"
        d = {k.value: _ev_text(v, ev) for k, v in zip(dicts[0].keys, dicts[0].values) if isinstance(k, ast.Constant)}
        for f, want in PW_ENC.items():
            rep.check(d.get(f) == want, rule, im.short, f"{f} encoding", want, f"bulk insert writes {f} as `{d.get(f)}` but from_event/json use `{want}`", im.loc(dicts[0]), expected=want, found=d.get(f))
    for m in ("replace", "replace_last"):
        fi = prog.func(f"PeeweeStorage.{m}")
        asg = {}
        for n in walk_own(fi.node):
            if isinstance(n, ast.Assign) and len(n.targets) == 1 and isinstance(n.targets[0], ast.Attribute) and isinstance(n.targets[0].value, ast.Name) and n.targets[0].value.id != "event":
                from .trace import deep as _deep

                asg[n.targets[0].attr] = _ev_text(_deep(n.value, fi), "event")
        for f, want in PW_ENC.items():
            rep.check(asg.get(f) == want, rule, fi.short, f"{f} encoding", want, f"{m} writes {f} as `{asg.get(f)}`", fi.loc(), expected=want, found=asg.get(f))
        # ... on every path to the save(), and the save() writes all columns
        from .cfg import cfg_of as _cfg_of

        g_ = _cfg_of(fi)
        for sv in [c for c in walk_own(fi.node) if isinstance(c, ast.Call) and isinstance(c.func, ast.Attribute) and c.func.attr == "save" and isinstance(c.func.value, ast.Name) and c.func.value.id != "event"]:
            recv = c_recv = sv.func.value.id
            st_ = sv
            from .model import parent as _parent

            while not isinstance(st_, ast.stmt):
                st_ = _parent(st_)
            only = next((k.value for k in sv.keywords if k.arg == "only"), None)
            if only is not None:
                listed = {norm(x).split(".")[-1] for x in getattr(only, "elts", [])}
                rep.check(set(PW_ENC) <= listed, rule, fi.short, f"{recv}.save(only=...)", "all event columns saved", f"`{norm(sv)[:70]}` writes only {sorted(listed)}: the other fields of the event given to {m} ({sorted(set(PW_ENC) - listed)}) are not stored, the row keeps its old values", fi.loc(sv))
            for f in PW_ENC:
                setters = [g_.node_of(a) for a in walk_own(fi.node) if isinstance(a, ast.Assign) and any(isinstance(t, ast.Attribute) and isinstance(t.value, ast.Name) and t.value.id == recv and t.attr == f for t in a.targets)]
                if any(isinstance(x, ast.Compare) and any(norm(y) == f"{recv}.{f}" for y in [x.left] + list(x.comparators)) for x in walk_own(fi.node)):
                    continue  # the field is compared with the new value somewhere: a path may skip the assignment because they are equal
                r_ = g_.reach_avoiding([g_.entry], avoid=frozenset(setters), include_start=True)
                rep.check(g_.node_of(st_) not in r_, rule, fi.short, f"{recv}.{f} set before {recv}.save()", "on every path", f"a path reaches `{norm(sv)[:40]}` (line {sv.lineno}) without assigning `{recv}.{f}`: the stored row keeps its old {f} although {m} was given a new event", fi.loc(sv))
    # readers rebuild events through json()
    for m, pat in (("get_events", "EventModel.json"), ("get_event", "EventModel.json")):
        fi = prog.func(f"PeeweeStorage.{m}")
        ok = rebuilds_through_json(fi)
        rep.check(ok, rule, fi.short, "decoder used", "Event(**EventModel.json(row))", "rows are not rebuilt as Event(**EventModel.json(row))", fi.loc())
    # Event.__init__ accepts exactly those keywords
    init = prog.func("Event.__init__")
    rep.check(set(init.params[1:]) == set(PW_DEC), rule, init.short, "keyword parameters", f"{init.params[1:]}", f"Event.__init__ takes {init.params[1:]}", init.loc())


def rebuilds_through_json(fi):
    """the function builds Event(**d) where d comes from the model's json() (EventModel.json(row) / row.json(), directly,
    through map(), or through a comprehension variable)"""
    from .trace import deep

    for c in walk_with_nested_exprs(fi.node):
        if isinstance(c, ast.Call) and norm(c.func) == "Event" and len(c.keywords) == 1 and c.keywords[0].arg is None and not c.args:
            v = c.keywords[0].value
            texts = [norm(deep(v, fi))]
            if isinstance(v, ast.Name):
                # a comprehension / loop variable: look at what it ranges over
                for n in walk_with_nested_exprs(fi.node):
                    gens = n.generators if isinstance(n, (ast.ListComp, ast.GeneratorExp, ast.SetComp)) else []
                    for g in gens:
                        if norm(g.target) == v.id:
                            texts.append(norm(deep(g.iter, fi)))
                    if isinstance(n, ast.For) and norm(n.target) == v.id:
                        texts.append(norm(deep(n.iter, fi)))
            for t in texts:
                if "EventModel.json" in t or ".json()" in t:
                    return True
    return False
